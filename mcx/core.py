"""mcx core: run context, violation records, known findings, evidence, replay.

A *check* is a module in /verif/checks with

    PROPERTY = "C16"; LEVEL = "model_checking"
    def run(ctx)            -- enumerates its bounded space, calls ctx.violation(...) on oracle failures
    def replay(case) -> [ (key, detail), ... ]   -- re-executes ONE recorded case without the explorer

Exit codes of ./run: 0 held (maybe KNOWN-FINDING lines), 1 VIOLATION line(s), 2 harness error.
"""
from __future__ import annotations

import hashlib
import json
import os
import re
import subprocess
import sys
import time
import traceback
from typing import Any, Callable, Dict, Iterable, List, Optional, Tuple

VERIF = os.path.dirname(os.path.dirname(os.path.abspath(__file__)))
EVIDENCE_SCHEMA = "/root/.vp/EVIDENCE.schema.json"
KNOWN_FILE = os.path.join(VERIF, "KNOWN_FINDINGS.txt")


class HarnessError(Exception):
    """The machinery itself is broken (vacuous run, non-reproducible case, ...). Never an alarm."""


def jdefault(o: Any) -> Any:
    if isinstance(o, (bytes, bytearray)):
        return {"hex": bytes(o).hex()}
    if isinstance(o, (set, frozenset)):
        return sorted(o, key=repr)
    if isinstance(o, tuple):
        return list(o)
    try:
        import fractions
        if isinstance(o, fractions.Fraction):
            return {"frac": [o.numerator, o.denominator]}
    except Exception:
        pass
    return repr(o)


def jdump(o: Any, **kw: Any) -> str:
    return json.dumps(o, default=jdefault, sort_keys=True, **kw)


def digest(o: Any) -> str:
    return hashlib.sha1(jdump(o).encode()).hexdigest()[:16]


def safe_name(key: str) -> str:
    s = re.sub(r"[^A-Za-z0-9_.=+-]+", "_", key)
    if len(s) > 120:
        s = s[:100] + "_" + hashlib.sha1(key.encode()).hexdigest()[:10]
    return s


# ---------------------------------------------------------------------------------------------
# known findings
# ---------------------------------------------------------------------------------------------
class Known:
    """KNOWN_FINDINGS.txt: lines
         known: property=<id> key=<key> <what fails>
         fixed: property=<id> <commit> key=<key> <what failed>
       Never written at run time."""

    def __init__(self, path: str = KNOWN_FILE):
        self.known: Dict[Tuple[str, str], str] = {}
        self.fixed: Dict[Tuple[str, str], str] = {}
        if not os.path.exists(path):
            return
        for line in open(path, encoding="utf-8"):
            line = line.strip()
            if not line or line.startswith("#"):
                continue
            m = re.match(r"known:\s+property=(\S+)\s+key=(\S+)\s*(.*)$", line)
            if m:
                self.known[(m.group(1), m.group(2))] = m.group(3)
                continue
            m = re.match(r"fixed:\s+property=(\S+)\s+(\S+)\s+key=(\S+)\s*(.*)$", line)
            if m:
                self.fixed[(m.group(1), m.group(3))] = m.group(4)
                continue
            raise HarnessError(f"unparsable line in KNOWN_FINDINGS.txt: {line!r}")


# ---------------------------------------------------------------------------------------------
# run context
# ---------------------------------------------------------------------------------------------
class Part:
    """Mergeable partial result (what a worker sends back)."""

    def __init__(self) -> None:
        self.counts: Dict[str, int] = {}
        self.sets: Dict[str, set] = {}
        self.viol: Dict[str, Tuple[int, Any, str]] = {}  # key -> (size, case, detail)
        self.nviol = 0
        self.samples: List[Any] = []
        self.caps: List[str] = []

    def count(self, name: str, n: int = 1) -> None:
        self.counts[name] = self.counts.get(name, 0) + n

    def add(self, name: str, item: Any) -> None:
        self.sets.setdefault(name, set()).add(item)

    def violation(self, key: str, case: Any, detail: str = "") -> None:
        self.nviol += 1
        size = len(jdump(case))
        old = self.viol.get(key)
        if old is None or size < old[0]:
            self.viol[key] = (size, case, detail)

    def sample(self, case: Any, limit: int = 8) -> None:
        if len(self.samples) < limit:
            self.samples.append(case)

    def merge(self, other: "Part") -> None:
        for k, v in other.counts.items():
            self.counts[k] = self.counts.get(k, 0) + v
        for k, s in other.sets.items():
            self.sets.setdefault(k, set()).update(s)
        for k, v in other.viol.items():
            old = self.viol.get(k)
            if old is None or v[0] < old[0]:
                self.viol[k] = v
        self.nviol += other.nviol
        for s in other.samples:
            if len(self.samples) < 12:
                self.samples.append(s)
        self.caps.extend(other.caps)


class Ctx(Part):

    def __init__(self, prop: str, tier: str, seed: int, level: str):
        super().__init__()
        self.prop = prop
        self.tier = tier
        self.seed = seed
        self.level = level
        self.t0 = time.time()
        self.bounds: Dict[str, Any] = {}
        self.assumptions: List[str] = []
        self.rule = ""
        self.extra: Dict[str, Any] = {}
        self.guards: List[Tuple[str, bool]] = []  # vacuity guards (description, ok)
        self.notes: List[str] = []

    @property
    def quick(self) -> bool:
        return self.tier == "quick"

    def guard(self, desc: str, ok: bool) -> None:
        self.guards.append((desc, bool(ok)))

    def note(self, s: str) -> None:
        self.notes.append(s)


# ---------------------------------------------------------------------------------------------
# parallel map over work units (long-lived forked workers, no fork per execution)
# ---------------------------------------------------------------------------------------------
def nworkers() -> int:
    try:
        return max(1, int(os.environ.get("VERIF_WORKERS", "0")) or min(16, os.cpu_count() or 1))
    except ValueError:
        return 16


_CUR_FN: Optional[Callable[..., Part]] = None


def _call_global(unit: Any) -> Part:
    assert _CUR_FN is not None
    return _call((_CUR_FN, unit))


_ISOLATE = False


def isolated(fn: Callable[..., Any], *args: Any) -> Any:
    """Run fn(*args) in a forked child and return its (pickled) result: whatever the call leaves behind in the library
    under test (class attributes, module-level memos, caches) dies with the child, so the outcome of a call is a function
    of its arguments and of the state of THIS process at the time of the fork only."""
    import pickle
    r, w = os.pipe()
    pid = os.fork()
    if pid == 0:
        code = 0
        try:
            os.close(r)
            try:
                payload = pickle.dumps(("ok", fn(*args)))
            except BaseException as e:  # noqa
                payload = pickle.dumps(("err", f"{type(e).__name__}: {e}", traceback.format_exc()[-1500:]))
            with os.fdopen(w, "wb") as f:
                f.write(payload)
            em = sys.modules.get("odxmodel.emit")
            if em is not None:
                em.cleanup_scratch()
        except BaseException:  # noqa
            code = 1
        finally:
            os._exit(code)
    os.close(w)
    with os.fdopen(r, "rb") as f:
        data = f.read()
    os.waitpid(pid, 0)
    if not data:
        raise HarnessError("isolated call died without a result")
    res = pickle.loads(data)
    if res[0] == "err":
        raise HarnessError(f"isolated call raised {res[1]}\n{res[2]}")
    return res[1]


def _call(args: Tuple[Callable[..., Part], Any]) -> Part:
    fn, unit = args
    try:
        if _ISOLATE:
            return isolated(fn, unit)
        return fn(unit)
    except BaseException as e:  # a crashing worker is a harness error, reported by the master
        p = Part()
        p.counts["__worker_errors__"] = 1
        p.samples.append({"worker_error": f"{type(e).__name__}: {e}", "tb": traceback.format_exc()[-1500:],
                          "unit": repr(unit)[:300]})
        return p
    finally:
        em = sys.modules.get("odxmodel.emit")
        if em is not None and os.getpid() != _MASTER_PID:
            em.cleanup_scratch()


_MASTER_PID = os.getpid()


def pmap(ctx: Ctx, fn: Callable[[Any], Part], units: List[Any], chunksize: int = 1, isolate: bool = False) -> None:
    """Run fn(unit)->Part for all units on the worker pool, merge into ctx. Order of units is rotated by
    the seed (results must not depend on it).  isolate: every unit runs in a forked child of its (pristine) worker, so
    that state the library shares between objects cannot leak from one unit into the next."""
    global _ISOLATE
    _ISOLATE = isolate
    units = list(units)
    if units and ctx.seed:
        r = ctx.seed % len(units)
        units = units[r:] + units[:r]
    n = nworkers()
    if n <= 1 or len(units) <= 1:
        for u in units:
            ctx.merge(_call((fn, u)))
    else:
        import multiprocessing as mp
        global _CUR_FN
        _CUR_FN = fn  # inherited by the forked workers (closures need not be picklable)
        mpctx = mp.get_context("fork")
        with mpctx.Pool(min(n, len(units))) as pool:
            for part in pool.imap_unordered(_call_global, units, chunksize=chunksize):
                ctx.merge(part)
            pool.close()
            pool.join()
    if ctx.counts.get("__worker_errors__"):
        errs = [s for s in ctx.samples if isinstance(s, dict) and "worker_error" in s]
        raise HarnessError(f"{ctx.counts['__worker_errors__']} worker(s) crashed: {errs[:1]}")


# ---------------------------------------------------------------------------------------------
# evidence
# ---------------------------------------------------------------------------------------------
def write_evidence(ctx: Ctx, violations: int, known_hits: List[str]) -> str:
    cov: Dict[str, Any] = {}
    c = ctx.counts
    # (every reported violation stems from an evaluated case, also when the exploration was cut before counting any)
    cov["evaluations"] = max(int(c.get("evaluations", 0)), len(ctx.viol))
    cov["distinct_nontrivial"] = len(ctx.sets.get("nontrivial", ()))
    cov["rule"] = ctx.rule
    cov["samples"] = ctx.samples[:12]
    cov["exhaustive"] = not ctx.caps
    for k in ("states", "transitions", "traces_validated_against_impl"):
        if k in c and int(c[k]) >= 1:  # (the schema wants positive counts; a run cut short by violations may have none)
            cov[k] = int(c[k])
    for k, v in c.items():
        if k not in cov and not k.startswith("__") and k not in ("states", "transitions", "traces_validated_against_impl"):
            cov[k] = v
    for k, s in ctx.sets.items():
        if k != "nontrivial":
            cov["distinct_" + k] = len(s)
            if len(s) <= 40:
                cov["values_" + k] = sorted(s, key=repr)
    cov["bounds"] = ctx.bounds
    cov["caps_hit"] = ctx.caps
    cov["vacuity_guards"] = [{"guard": d, "ok": ok} for d, ok in ctx.guards]
    cov["known_findings_reproduced"] = known_hits
    cov.update(ctx.extra)
    ev = {
        "property_id": ctx.prop,
        "tier": ctx.tier,
        "seed": ctx.seed,
        "level": ctx.level,
        "coverage": cov,
        "assumptions": ctx.assumptions,
        "wall_s": round(time.time() - ctx.t0, 3),
        "violations": violations,
        "notes": ctx.notes,
        "repo": repo_root(),
    }
    evdir = os.path.join(VERIF, "evidence") if not os.environ.get("VERIF_NO_EVIDENCE") else os.path.join(VERIF, "scratch", "evidence_alt")
    os.makedirs(evdir, exist_ok=True)
    path = os.path.join(evdir, f"{ctx.prop}.json")
    tmp = path + ".tmp"
    with open(tmp, "w") as f:
        f.write(jdump(ev, indent=1))
    os.replace(tmp, path)
    validate_evidence(path)
    return path


_VALIDATOR = r"""
import json, sys
import jsonschema
schema = json.load(open(sys.argv[1])); ev = json.load(open(sys.argv[2]))
jsonschema.Draft202012Validator(schema).validate(ev)
"""


def validate_evidence(path: str) -> None:
    if not os.path.exists(EVIDENCE_SCHEMA):
        return
    try:
        r = subprocess.run(["python3-vt", "-W", "ignore", "-c", _VALIDATOR, EVIDENCE_SCHEMA, path],
                           capture_output=True, text=True, timeout=60)
    except FileNotFoundError:
        return
    if r.returncode != 0:
        raise HarnessError("evidence does not validate: " + r.stderr[-800:])


def repo_root() -> str:
    return os.environ.get("VERIF_REPO", "/repo")


def use_repo() -> None:
    """Make `import odxtools` resolve to the tree under test (default: /repo, the editable install)."""
    if os.environ.get("VERIF_PURE_BITSTRUCT") and "odxtools" not in sys.modules:
        # make the accelerated backend unimportable: odxtools then falls back to the pure-Python bitstruct
        sys.modules["bitstruct.c"] = None  # type: ignore[assignment]
    root = repo_root()
    if root not in sys.path:
        sys.path.insert(0, root)
    os.environ.setdefault("PYTHONHASHSEED", "0")


# ---------------------------------------------------------------------------------------------
# driver
# ---------------------------------------------------------------------------------------------
def load_check(prop: str):
    import importlib
    sys.path.insert(0, VERIF)
    return importlib.import_module(f"checks.{prop.lower()}")


def corpus_cases(prop: str) -> List[Tuple[str, Any]]:
    d = os.path.join(VERIF, "corpus", prop)
    out = []
    if os.path.isdir(d):
        for fn in sorted(os.listdir(d)):
            if fn.endswith(".json"):
                rec = json.load(open(os.path.join(d, fn)))
                out.append((rec["key"], rec["case"]))
    return out


def run_check(prop: str, tier: str) -> int:
    use_repo()
    seed = int(os.environ.get("VERIF_SEED", "0") or 0)
    mod = load_check(prop)
    ctx = Ctx(prop, tier, seed, mod.LEVEL)
    known = Known()
    try:
        # regression corpus first: replay cases of known / fixed findings
        for key, case in corpus_cases(prop):
            got = isolated(mod.replay, case)
            ctx.count("corpus_cases")
            for k, detail in got:
                ctx.violation(k, case, detail)
        mod.run(ctx)
        # classify
        new: List[Tuple[str, Any, str]] = []
        known_hits: List[str] = []
        confirmed: Dict[str, Tuple[Any, str]] = {}
        wide_cache: Dict[str, List[Tuple[str, str]]] = {}
        for key in sorted(ctx.viol):
            _, case, detail = ctx.viol[key]
            # reproduce from the recorded case before believing it
            again = [k for k, _ in isolated(mod.replay, case)]
            if key in again:
                confirmed.setdefault(key, (case, detail))
                continue
            # state shared between objects of one process (class attributes, module-level memos) can make a failure
            # depend on what was loaded before: retry with the context the check can name (e.g. the whole unit of
            # descriptions) in a fresh process. What fails THERE is what is reported (the keys may differ from the one
            # seen during the exploration, whose history cannot be replayed), each with the unit as its replay case.
            ctxfn = getattr(mod, "contextualize", None)
            wider = ctxfn(case, ctx) if ctxfn is not None else None
            res = []
            if wider is not None:
                ck = jdump({k: v for k, v in wider.items() if k in ("unit_replay", "backend")}) if isinstance(wider, dict) and "unit_replay" in wider else jdump(wider)
                if ck not in wide_cache:
                    if len(wide_cache) >= 6:
                        # enough context replays for one run: further history-dependent keys are counted, not replayed
                        ctx.counts["history_dependent_keys_not_replayed"] = ctx.counts.get("history_dependent_keys_not_replayed", 0) + 1
                        continue
                    wide_cache[ck] = fresh_replay(prop, wider)
                res = wide_cache[ck]
                if not res and any(wide_cache.values()):
                    ctx.counts["history_dependent_keys_not_replayed"] = ctx.counts.get("history_dependent_keys_not_replayed", 0) + 1
                    continue
            if not res:
                raise HarnessError(f"violation {key} did not reproduce from its recorded case {jdump(case)[:300]}")
            for k2, d2 in res:
                confirmed.setdefault(k2, (wider, d2 + "  [reproduces only together with the other descriptions of its unit: state shared between objects]"))
        for key in sorted(confirmed):
            case, detail = confirmed[key]
            if (prop, key) in known.known:
                known_hits.append(key)
                print(f"KNOWN-FINDING: property={prop} key={key} {known.known[(prop, key)]}")
            else:
                new.append((key, case, detail))
        for key, case, detail in new:
            d = os.path.join(VERIF, "replays" if not os.environ.get("VERIF_NO_EVIDENCE") else "scratch/replays_alt", prop)
            os.makedirs(d, exist_ok=True)
            path = os.path.join(d, safe_name(key) + ".json")
            with open(path, "w") as f:
                f.write(jdump({"property": prop, "key": key, "case": case, "detail": detail,
                               "was_fixed": (prop, key) in known.fixed}, indent=1))
            print(f"VIOLATION property={prop} replay={os.path.relpath(path, VERIF)}  key={key} :: {detail[:300]}")
        bad = [d for d, ok in ctx.guards if not ok]
        if bad and not new and not known_hits:
            # (with violations present, exploration below a violating state is cut, so guards are not judged)
            raise HarnessError("vacuity guard(s) failed: " + "; ".join(bad))
        path = write_evidence(ctx, len(new), known_hits)
        c = ctx.counts
        print(f"[{prop} {tier}] evaluations={c.get('evaluations', 0)} states={c.get('states', '-')} "
              f"transitions={c.get('transitions', '-')} nontrivial={len(ctx.sets.get('nontrivial', ()))} "
              f"violations={len(new)} known={len(known_hits)} caps={len(ctx.caps)} wall={time.time() - ctx.t0:.1f}s "
              f"evidence={os.path.relpath(path, VERIF)}")
        return 1 if new else 0
    except HarnessError as e:
        print(f"HARNESS-ERROR property={prop}: {e}", file=sys.stderr)
        return 2
    except Exception:
        traceback.print_exc()
        print(f"HARNESS-ERROR property={prop}: unexpected exception in the check", file=sys.stderr)
        return 2


def run_replay(path: str) -> int:
    use_repo()
    rec = json.load(open(path))
    mod = load_check(rec["property"])
    got = mod.replay(rec["case"])
    keys = [k for k, _ in got]
    for k, d in got:
        print(f"  reproduced key={k} :: {d[:500]}")
    if rec["key"] in keys:
        print(f"VIOLATION property={rec['property']} replay={path}")
        return 1
    print(f"not reproduced: {rec['key']}")
    return 0


def sub_main(prop: str, tier: str) -> None:
    """Run a check's exploration in THIS (specially prepared) process and print its result as JSON."""
    use_repo()
    mod = load_check(prop)
    ctx = Ctx(prop, tier, int(os.environ.get("VERIF_SEED", "0") or 0), mod.LEVEL)
    mod.run(ctx)
    out = {"counts": ctx.counts, "nviol": ctx.nviol, "viol": {k: [v[0], v[1], v[2]] for k, v in ctx.viol.items()},
           "sets": {k: len(v) for k, v in ctx.sets.items()}}
    print("SUBRESULT " + jdump(out))


def fresh_replay(prop: str, case: Any) -> List[Tuple[str, str]]:
    """Replay a case in a fresh interpreter (no state left over from the exploration)."""
    import subprocess
    code = ("import sys, json; sys.path.insert(0, %r); from mcx.core import sub_replay; sub_replay(%r, sys.stdin.read())" % (VERIF, prop))
    r = subprocess.run([sys.executable, "-W", "ignore", "-c", code], input=jdump(case), capture_output=True, text=True, cwd=VERIF)
    lines = [l for l in r.stdout.splitlines() if l.startswith("SUBRESULT ")]
    if not lines:
        raise HarnessError("fresh-process replay failed: " + r.stderr[-800:])
    return [tuple(x) for x in json.loads(lines[-1][len("SUBRESULT "):])]


def sub_replay(prop: str, case_json: str) -> None:
    use_repo()
    mod = load_check(prop)
    print("SUBRESULT " + jdump(mod.replay(json.loads(case_json))))
