"""Self-test of the explorer: a toy state machine with a known state graph and a planted violation."""
from mcx.bfs import bfs


def main() -> int:
    # counter pair (x, y) in 0..3, events inc_x / inc_y (saturating); 16 states; transitions = 2 per expanded state
    def step(s, ev):
        x, y = s
        return (min(3, x + 1), y) if ev == "x" else (x, min(3, y + 1))

    res = bfs(init=lambda: (0, 0), events=lambda s: ("x", "y"), step=step, canon=lambda s: s,
              check=lambda s, h, e: [], depth=10)
    assert res.states == 16 and res.transitions == 32, (res.states, res.transitions)
    # planted violation: state (2,1) is bad; BFS must find it with a shortest history (length 3)
    res = bfs(init=lambda: (0, 0), events=lambda s: ("x", "y"), step=step, canon=lambda s: s,
              check=lambda s, h, e: [("bad", "")] if s == (2, 1) else [], depth=10)
    assert res.violations and min(len(h) for _, h, _ in res.violations) == 3
    # depth bound is respected
    res = bfs(init=lambda: (0, 0), events=lambda s: ("x", "y"), step=step, canon=lambda s: s,
              check=lambda s, h, e: [], depth=2)
    assert res.states == 6 and res.max_depth == 2, (res.states, res.max_depth)
    print("mcx self-test ok")
    return 0
