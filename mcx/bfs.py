"""Explicit-state breadth-first search over the real transition function.

A state is represented by the *event history* that reaches it (live objects rarely copy well); `build(hist)`
re-creates the real object(s) by replaying the history on fresh objects, or `step(obj, ev)` produces a
successor from a live object when the caller knows how to copy it.  States are deduplicated on `canon(obj)`.
The explorer, not the check, counts states / transitions / depth.
"""
from __future__ import annotations

import collections
from typing import Any, Callable, Hashable, Iterable, List, Optional, Sequence, Tuple


class BfsResult:

    def __init__(self) -> None:
        self.states = 0
        self.transitions = 0
        self.max_depth = 0
        self.violations: List[Tuple[str, Tuple[Any, ...], str]] = []  # (key, history, detail)
        self.frontier_left = 0
        self.bad_states = 0


def bfs(init: Callable[[], Any],
        events: Callable[[Any], Iterable[Any]],
        step: Callable[[Any, Any], Any],
        canon: Callable[[Any], Hashable],
        check: Callable[[Any, Tuple[Any, ...], Optional[Any]], Iterable[Tuple[str, str]]],
        depth: int,
        on_state: Optional[Callable[[Any, Tuple[Any, ...]], None]] = None,
        max_states: Optional[int] = None,
        seen: Optional[set] = None,
        start_hist: Tuple[Any, ...] = (),
        rebuild: Optional[Callable[[Tuple[Any, ...]], Any]] = None,
        max_violations: Optional[int] = 300) -> BfsResult:
    """init() -> fresh state object; step(obj, ev) -> NEW state object (must not mutate obj, or
    `rebuild(hist)` must be given, in which case the frontier stores histories only and objects are
    rebuilt by replay); check(obj, hist, last_event) yields (key, detail) violations.
    Depth counts events after start_hist."""
    res = BfsResult()
    seen = set() if seen is None else seen
    if rebuild is not None:
        s0 = rebuild(start_hist)
    else:
        s0 = init()
        for ev in start_hist:
            s0 = step(s0, ev)
    k0 = canon(s0)
    seen.add(k0)
    res.states = 1
    for key, detail in check(s0, start_hist, None):
        res.violations.append((key, start_hist, detail))
    if res.violations:
        res.bad_states = 1
        return res
    if on_state:
        on_state(s0, start_hist)
    frontier = collections.deque([(start_hist, None if rebuild else s0, 0)])
    while frontier:
        hist, obj, d = frontier.popleft()
        if d >= depth:
            res.frontier_left += 1
            continue
        if rebuild is not None:
            obj = rebuild(hist)
        for ev in events(obj):
            h2 = hist + (ev,)
            if rebuild is not None:
                nxt = rebuild(h2)
            else:
                nxt = step(obj, ev)
            res.transitions += 1
            bad = False
            for key, detail in check(nxt, h2, ev):
                res.violations.append((key, h2, detail))
                bad = True
            if bad:
                # a violating state is reported once and not expanded (its successors would only repeat it)
                res.bad_states += 1
                if max_violations is not None and len(res.violations) >= max_violations:
                    # the run has failed anyway: do not unroll the rest of a space whose deduplication the defect may
                    # have broken (the evidence reports what was left unexplored)
                    res.frontier_left += len(frontier) + 1
                    return res
                continue
            k = canon(nxt)
            if k in seen:
                continue
            seen.add(k)
            res.states += 1
            res.max_depth = max(res.max_depth, d + 1)
            if on_state:
                on_state(nxt, h2)
            if max_states is not None and res.states >= max_states:
                res.frontier_left += len(frontier) + 1
                return res
            frontier.append((h2, None if rebuild else nxt, d + 1))
    return res
