"""Reference model for C14 (variant identification).  No odxtools import.

Everything here is a pure function of plain data:

  service   := {"name", "did", "layout", "type"}        identification service `22 <did>` -> `62 <did> <payload>`
  mparam    := {"svc": <service name>, "exp": <expected value text>, "tgt": "id"|"nrc"|"gsid",
                "phys": None|True|False}                 (phys only for base variants; None == default == physical)
  candidate := {"kind": "EV"|"BV", "gnr": True if the variant defines its own copy of the GLOBAL-NEG-RESPONSE (else inherited), "own": [service names the variant re-defines with its own request],
                "alt": [service names the variant re-defines with the SAME request but another response layout], "patterns": [[mparam..]..]}
  answer    := "V1" | "V2" | "NEG" | "BAD" | "EMPTY"     what the ECU replies to one identification request
                (value 1, value 2, negative response, truncated = undecodable bytes, a reply of zero bytes)
  ecu       := {request key: answer}                     request key = "P:<hex>" / "F:<hex>" (physical / functional)

`first_match` is the property text, literally: the first candidate in list order that has a pattern all of
whose expected values equal the values decoded from the ECU's responses, else None.  There is no caching, no
short-circuiting and no request order in here.
"""
from __future__ import annotations

import itertools
import struct
from typing import Any, Dict, Iterable, List, Optional, Sequence, Tuple

ANSWERS = ("V1", "V2", "NEG", "BAD", "EMPTY")
NRC = 0x31
OWN_DID_FLAG = 0x0080  # a variant's own re-definition of service X asks for did | 0x0080 ...
OWN_PAD = 0xEE  # ... and its positive response carries this constant byte before the payload

# value alphabet per DOP type: python value of "value 1", "value 2" and of a third value that is never expected
VALUES: Dict[str, Dict[str, Any]] = {
    "u8": {"V1": 1, "V2": 2, "other": 3},
    "ascii": {"V1": "V1", "V2": "V2", "other": "XX"},
    "bytes": {"V1": bytes([0x0A, 0x01]), "V2": bytes([0x0A, 0x02]), "other": bytes([0x0B, 0xFF])},
    "float": {"V1": 1.5, "V2": 2.5, "other": 7.25},
    "dtc": {"V1": 0x1234, "V2": 0x5678, "other": 0x9ABC},
    # the same kinds with a FALSY "value 1" (0, 0.0, empty string, empty byte field): a value that is present but falsy
    # is still a value and must equal the expected text "0" / "0.0" / "" ; the strings / byte fields are MIN-MAX-LENGTH
    # types (0..4 bytes, zero-terminated) because a standard-length type cannot be empty
    "u8z": {"V1": 0, "V2": 2, "other": 3},
    "floatz": {"V1": 0.0, "V2": 2.5, "other": 7.25},
    "asciiz": {"V1": "", "V2": "V2", "other": "XX"},
    "bytesz": {"V1": b"", "V2": bytes([0x0A, 0x02]), "other": bytes([0x0B, 0xFF])},
    # hex-valued kinds whose EXPECTED-VALUE is spelled with LOWER-CASE hex digits ("0a01", "0x12ab"): a hex text denotes
    # bytes / a number, its letter case carries no meaning (odxtools upper-cases both sides; "hex for bytes/DTC" is the
    # comparison rule named in the property's anchors). Every value contains at least one digit a-f.
    "byteslc": {"V1": bytes([0x0A, 0x01]), "V2": bytes([0x0A, 0x02]), "other": bytes([0x0B, 0xFF])},
    "dtclc": {"V1": 0x12AB, "V2": 0x5C78, "other": 0x9ABC},
    # A_FLOAT64 values of magnitude 4e9 that differ by 1 and by 2: equal means |expected - value| < 1e-8 (an ABSOLUTE
    # tolerance); any relative tolerance >= 2.5e-10 would confuse them
    "f64big": {"V1": 4000000000.0, "V2": 4000000001.0, "other": 4000000002.0},
    # 64-bit unsigned integers (serial numbers) that differ only in bits a double cannot hold: integers are compared exactly
    "u64": {"V1": 2**63, "V2": 2**63 + 1, "other": 2**63 + 2},
}
# A possibly empty payload would make the positive response as short as the negative response `7F 22 31`, which odxtools
# then decodes with the positive response under a constant-mismatch warning (DON'T-CARE): these services carry a constant
# byte in front of the payload, so that a negative response stays undecodable for the positive response.
PADDED_TYPES = ("asciiz", "bytesz")
KIND = {"u8z": "u8", "floatz": "float", "asciiz": "ascii", "bytesz": "bytes",  # comparison kind of the falsy variants
        "byteslc": "bytes", "dtclc": "dtc",  # ... and of the lower-case spelled ones
        "f64big": "float", "u64": "u8"}
QUICK_FEW_LAYOUT_TYPES = ("byteslc", "dtclc", "f64big", "u64")  # quick: only at an SNREF leaf, in a structure and in a field
GSID = 0x22  # the request SID echoed in the negative response; the GLOBAL-NEG-RESPONSE exposes it as parameter `gsid`
LOWER_CASE_TYPES = ("byteslc", "dtclc")
BASE_LAYOUTS = ("top", "toppath", "struct", "field", "tstruct")
# field replies: layout -> (number of items, index of the item that carries the wanted value); all other items carry "other"
FIELD_ITEMS = {"field": (2, 1), "f1_0": (1, 0), "f2_0": (2, 0), "f3_0": (3, 0), "f3_1": (3, 1), "f3_2": (3, 2),
               "fnest": (2, 1),  # field -> nested structure -> leaf        (SNPATHREF fl.in.id)
               "ffield": (2, 1)}  # field (one item) -> field -> leaf         (SNPATHREF fl.fl2.id)
# "sstruct": structure -> structure -> leaf (SNPATHREF st.in.id)
# "tworesp": the service has TWO positive responses that both decode the reply: a short one `62 <did> <id>` (trailing bytes
# are tolerated) listed BEFORE the long one `62 <did> <id> <rev>`; the matching parameter points at `rev`, which only the
# long one exhibits ("tworesp_r": long one listed first). The value decoded from the ECU's response is the one of the
# response object that exhibits the parameter.
# "swap": the reply carries both values, `62 <did> <wanted> <the other one>`. The inherited service reads `id` from the first
# payload byte (the trailing byte is tolerated); a variant that re-defines the service under the same short name with the
# same request ("alt") reads `id` from the SECOND byte: identical request, identical reply bytes, different decoded value.
SWAP = "swap"
TWO_RESPONSES = ("tworesp", "tworesp_r")
TWORESP_ID = 0x07  # the constant content of the `id` byte in these replies
EXTRA_LAYOUTS = ("f1_0", "f2_0", "f3_0", "f3_1", "f3_2", "fnest", "sstruct", "ffield") + TWO_RESPONSES
LAYOUTS = BASE_LAYOUTS + EXTRA_LAYOUTS


def expected_text(typ: str, v: Any) -> str:
    """The EXPECTED-VALUE text that denotes python value v of the given type (the canonical spelling; other
    spellings -- leading zeros, lower-case hex, '1.50' -- are DON'T-CARE and not generated)."""
    if typ in LOWER_CASE_TYPES:
        return expected_text(KIND[typ], v).lower()
    typ = KIND.get(typ, typ)
    if typ == "u8":
        return str(v)
    if typ == "ascii":
        return v
    if typ == "bytes":
        return bytes(v).hex().upper()
    if typ == "float":
        return repr(float(v))
    if typ == "dtc":
        return "0x%X" % v  # hex, the reading documented by odxtools and named in the property's anchors
    raise ValueError(typ)


def value_equals(typ: str, expected: str, v: Any) -> bool:
    typ = KIND.get(typ, typ)
    if typ == "u8":
        return expected == str(v)
    if typ == "ascii":
        return expected == v
    if typ == "bytes":
        return bytes.fromhex(expected) == bytes(v)
    if typ == "float":
        return abs(float(expected) - float(v)) < 1e-8  # the statement's "equal" for floats: absolute tolerance only
    if typ == "dtc":
        return int(expected, 16) == v
    raise ValueError(typ)


def wire(typ: str, v: Any) -> bytes:
    if typ == "f64big":
        return struct.pack(">d", v)
    if typ == "u64":
        return int(v).to_bytes(8, "big")
    if typ == "asciiz":
        return v.encode("latin-1") + b"\x00"  # MIN-MAX-LENGTH, ZERO termination (always sent, also at the end of the PDU)
    if typ == "bytesz":
        return bytes(v) + b"\x00"
    typ = KIND.get(typ, typ)
    if typ == "u8":
        return bytes([v])
    if typ == "ascii":
        return v.encode("latin-1")
    if typ == "bytes":
        return bytes(v)
    if typ == "float":
        return struct.pack(">f", v)
    if typ == "dtc":
        return int(v).to_bytes(3, "big")
    raise ValueError(typ)


def did_of(svc: Dict[str, Any], own: bool) -> int:
    return svc["did"] | (OWN_DID_FLAG if own else 0)


def request_bytes(svc: Dict[str, Any], own: bool = False) -> bytes:
    return bytes([0x22]) + did_of(svc, own).to_bytes(2, "big")


def item_values(svc: Dict[str, Any], answer: str, alt: bool = False) -> List[Any]:
    """Values of the identification parameter `id` carried by the reply (a field carries 1..3 items, exactly one
    of them -- the first, a middle or the last one -- with the wanted value: 'any item of a field' is needed).
    alt: as decoded by a variant's alternative definition of the service (layout "swap" only)."""
    if answer not in ("V1", "V2"):
        return []
    vals = VALUES[svc["type"]]
    if svc["layout"] == SWAP:
        return [vals[{"V1": "V2", "V2": "V1"}[answer]] if alt else vals[answer]]
    if svc["layout"] in FIELD_ITEMS:
        n, k = FIELD_ITEMS[svc["layout"]]
        return [vals[answer] if i == k else vals["other"] for i in range(n)]
    return [vals[answer]]


def response_bytes(svc: Dict[str, Any], answer: str, own: bool = False) -> bytes:
    did = did_of(svc, own).to_bytes(2, "big")
    if answer == "NEG":
        return bytes([0x7F, 0x22, NRC])
    if answer == "EMPTY":
        return b""  # an ECU that answers with no data at all is a deterministic ECU; no response object (all have parameters) decodes it
    if answer == "BAD":
        return bytes([0x62, did[0]])  # truncated: too short for the positive, the negative and the global negative response
    body = b"".join(wire(svc["type"], v) for v in item_values(svc, answer))
    if svc["layout"] == SWAP:
        body += b"".join(wire(svc["type"], v) for v in item_values(svc, answer, alt=True))
    if svc["layout"] == "tstruct":
        body = bytes([0x01]) + body  # table key selecting the only row
    if svc["layout"] in TWO_RESPONSES:
        body = bytes([TWORESP_ID]) + body  # `id` (in both positive responses), then `rev` (only in the long one)
    if own or svc["type"] in PADDED_TYPES:
        body = bytes([OWN_PAD]) + body  # a variant's own re-definition also has another response layout
    return bytes([0x62]) + did + body


def decoded_values(svc: Dict[str, Any], tgt: str, answer: str, alt: bool = False) -> Tuple[str, List[Any]]:
    """(type, values) the matching parameter's target decodes to in the reply; [] = the reply has no such value."""
    if tgt == "id":
        return svc["type"], item_values(svc, answer, alt)
    if tgt == "nrc":
        return "u8", ([NRC] if answer == "NEG" else [])
    if tgt == "gsid":  # parameter of the GLOBAL negative response only (inherited from the functional group, or the
        return "u8", ([GSID] if answer == "NEG" else [])  # candidate's own copy): it decodes `7F 22 31` as well
    raise ValueError(tgt)


def param_matches(svc: Dict[str, Any], mp: Dict[str, Any], answer: str, alt: bool = False) -> bool:
    """alt: the candidate resolves the service short name to its own alternative definition (other response layout)."""
    typ, vals = decoded_values(svc, mp["tgt"], answer, alt)
    return any(value_equals(typ, mp["exp"], v) for v in vals)


def request_key(cand: Dict[str, Any], mp: Dict[str, Any], services: Dict[str, Dict[str, Any]]) -> str:
    own = mp["svc"] in cand.get("own", ())
    physical = True if cand["kind"] == "EV" else (mp.get("phys") in (None, True))
    return ("P:" if physical else "F:") + request_bytes(services[mp["svc"]], own).hex()


def request_keys(cands: Sequence[Dict[str, Any]], services: Dict[str, Dict[str, Any]]) -> List[str]:
    """All identification requests of the candidates, in order of first occurrence."""
    out: List[str] = []
    for c in cands:
        for pat in c["patterns"]:
            for mp in pat:
                k = request_key(c, mp, services)
                if k not in out:
                    out.append(k)
    return out


def pattern_matches(cand: Dict[str, Any], pat: Sequence[Dict[str, Any]], ecu: Dict[str, str],
                    services: Dict[str, Dict[str, Any]]) -> bool:
    return all(param_matches(services[mp["svc"]], mp, ecu[request_key(cand, mp, services)], mp["svc"] in cand.get("alt", ()))
               for mp in pat)


def candidate_matches(cand: Dict[str, Any], ecu: Dict[str, str], services: Dict[str, Dict[str, Any]]) -> bool:
    return any(pattern_matches(cand, pat, ecu, services) for pat in cand["patterns"])


def first_match(cands: Sequence[Dict[str, Any]], ecu: Dict[str, str], services: Dict[str, Dict[str, Any]]) -> Optional[int]:
    for i, c in enumerate(cands):
        if candidate_matches(c, ecu, services):
            return i
    return None


def all_ecus(keys: Sequence[str]) -> Iterable[Dict[str, str]]:
    """Every deterministic ECU over the request keys: every function keys -> ANSWERS."""
    for combo in itertools.product(ANSWERS, repeat=len(keys)):
        yield dict(zip(keys, combo))


def reply_for(key: str, answer: str, services_by_request: Dict[str, Tuple[Dict[str, Any], bool]]) -> bytes:
    svc, own = services_by_request[key[2:]]
    return response_bytes(svc, answer, own)
