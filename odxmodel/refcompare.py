"""Reference model for C18 (comparison and listing tools).  No odxtools import.

Works on the ODX XML of the two inputs ({file name: text}) and tells, by OBJECT IDENTITY (the ODX ID of the
DIAG-SERVICE, not the name/prefix heuristics of the tool), what differs per diagnostic layer:

  new      service ID applicable to the layer in the new input only
  deleted  service ID applicable to the layer in the old input only
  renamed  same service ID in both, different SHORT-NAME
  changed  same service ID and name, but the XML of its request / positive / negative responses differs
           (with the list of (message kind, parameter short name) whose PARAM element differs)

"applicable to the layer" = ODX value inheritance (ISO 22901-1 7.3.2.4): everything the parents offer except
NOT-INHERITED short names, locally defined objects override inherited ones of the same short name.  Conflicts
between two parents of the same priority are outside the envelope (OutsideEnvelope).

It also counts, per layer, the applicable DIAG-SERVICEs, DATA-OBJECT-PROPs and COMPARAM-REFs for the overview
table, and computes the constant request prefix of plain integer CODED-CONST runs.
"""
from __future__ import annotations

import xml.etree.ElementTree as ET
from typing import Any, Dict, List, Optional, Tuple

XSI_TYPE = "{http://www.w3.org/2001/XMLSchema-instance}type"
LAYER_TAGS = ["PROTOCOL", "FUNCTIONAL-GROUP", "BASE-VARIANT", "ECU-VARIANT", "ECU-SHARED-DATA"]
PRIO = {"PROTOCOL": 1, "FUNCTIONAL-GROUP": 2, "BASE-VARIANT": 3, "ECU-VARIANT": 4, "ECU-SHARED-DATA": 100}
KIND_LABEL = {"REQUEST": "request", "POS-RESPONSE": "positive response", "NEG-RESPONSE": "negative response"}


class OutsideEnvelope(Exception):
    pass


def canon(e: ET.Element) -> Any:
    return (e.tag, tuple(sorted(e.attrib.items())), (e.text or "").strip(), tuple(canon(c) for c in e))


def txt(e: ET.Element, path: str) -> Optional[str]:
    t = e.findtext(path)
    return None if t is None else t.strip()


class Layer:

    def __init__(self, e: ET.Element) -> None:
        self.id = e.get("ID") or ""
        self.name = txt(e, "SHORT-NAME") or ""
        self.type = e.tag
        # local diagnostic communications in document order: (short name or None, ID, kind)
        self.comms: List[Tuple[Optional[str], str, str]] = []
        dc = e.find("DIAG-COMMS")
        for c in (dc if dc is not None else []):
            if c.tag == "DIAG-SERVICE":
                self.comms.append((txt(c, "SHORT-NAME"), c.get("ID") or "", "service"))
            elif c.tag == "SINGLE-ECU-JOB":
                self.comms.append((txt(c, "SHORT-NAME"), c.get("ID") or "", "job"))
            elif c.tag == "DIAG-COMM-REF":
                self.comms.append((None, c.get("ID-REF") or "", "ref"))
        self.dops = [(txt(d, "SHORT-NAME") or "", d.get("ID") or "")
                     for d in e.findall("DIAG-DATA-DICTIONARY-SPEC/DATA-OBJECT-PROPS/DATA-OBJECT-PROP")]
        self.comparams = [(c.get("ID-REF") or "", (c.find("PROTOCOL-SNREF").get("SHORT-NAME") if c.find("PROTOCOL-SNREF") is not None else None))
                          for c in e.findall("COMPARAM-REFS/COMPARAM-REF")]
        self.parents: List[Tuple[str, set, set]] = []
        for pr in e.findall("PARENT-REFS/PARENT-REF"):
            nc = {s.get("SHORT-NAME") for s in pr.findall("NOT-INHERITED-DIAG-COMMS/NOT-INHERITED-DIAG-COMM/DIAG-COMM-SNREF")}
            nd = {s.get("SHORT-NAME") for s in pr.findall("NOT-INHERITED-DOPS/NOT-INHERITED-DOP/DOP-BASE-SNREF")}
            self.parents.append((pr.get("ID-REF") or "", nc, nd))


class Model:

    def __init__(self, files: Dict[str, str]) -> None:
        self.layers: Dict[str, Layer] = {}
        self.order: List[str] = []
        self.services: Dict[str, ET.Element] = {}
        self.jobs: Dict[str, ET.Element] = {}
        self.messages: Dict[str, ET.Element] = {}
        self.dops: Dict[str, ET.Element] = {}
        self._memo: Dict[Any, Any] = {}
        for fn in sorted(files):
            if not fn.lower().endswith(".odx-d"):
                continue
            root = ET.fromstring(files[fn].encode("utf-8"))
            for tag in LAYER_TAGS:
                for e in root.iter(tag):
                    l = Layer(e)
                    self.layers[l.id] = l
                    self.order.append(l.id)
                    for d in e.findall("DIAG-DATA-DICTIONARY-SPEC/DATA-OBJECT-PROPS/DATA-OBJECT-PROP"):
                        self.dops[d.get("ID") or ""] = d
                    for s in e.findall("DIAG-COMMS/DIAG-SERVICE"):
                        self.services[s.get("ID") or ""] = s
                    for s in e.findall("DIAG-COMMS/SINGLE-ECU-JOB"):
                        self.jobs[s.get("ID") or ""] = s
                    for coll, mt in (("REQUESTS", "REQUEST"), ("POS-RESPONSES", "POS-RESPONSE"), ("NEG-RESPONSES", "NEG-RESPONSE")):
                        for m in e.findall(f"{coll}/{mt}"):
                            self.messages[m.get("ID") or ""] = m
        names = [self.layers[i].name for i in self.order]
        if len(set(names)) != len(names):
            raise OutsideEnvelope("layer short names are not unique")

    # ---- value inheritance -------------------------------------------------------------------
    def _inherit(self, lid: str, local: Any, excluded: Any) -> Dict[str, Tuple[str, int]]:
        """name -> (object ID, priority of the layer it came from)"""
        layer = self.layers[lid]
        res: Dict[str, Tuple[str, int]] = {}
        for pid, nc, nd in sorted(layer.parents, key=lambda p: PRIO[self.layers[p[0]].type]):
            prio = PRIO[self.layers[pid].type]
            skip = excluded(nc, nd)
            for name, (ident, _) in self._inherit(pid, local, excluded).items():
                if name in skip:
                    continue
                if name in res and res[name][0] != ident and res[name][1] == prio:
                    raise OutsideEnvelope(f"{layer.name}: {name} offered by two parents of the same priority")
                res[name] = (ident, prio)
        for name, ident in local(layer):
            res[name] = (ident, PRIO[layer.type])
        return res

    def applicable_comms(self, lid: str) -> Dict[str, str]:
        """short name -> ID of all applicable diagnostic communications (services and jobs)"""

        def local(layer: Layer) -> List[Tuple[str, str]]:
            out = []
            for name, ident, kind in layer.comms:
                if kind == "ref":
                    el = self.services.get(ident)
                    if el is None:
                        el = self.jobs.get(ident)
                    if el is None:
                        raise OutsideEnvelope(f"DIAG-COMM-REF to unknown {ident}")
                    name = txt(el, "SHORT-NAME")
                out.append((name or "", ident))
            return out

        return {n: i for n, (i, _) in self._inherit(lid, local, lambda nc, nd: nc).items()}

    def applicable_services(self, lid: str) -> Dict[str, str]:
        k = ("svcs", lid)
        if k not in self._memo:
            self._memo[k] = {n: i for n, i in self.applicable_comms(lid).items() if i in self.services}
        return self._memo[k]

    def applicable_dops(self, lid: str) -> Dict[str, str]:
        return {n: i for n, (i, _) in self._inherit(lid, lambda layer: layer.dops, lambda nc, nd: nd).items()}

    def applicable_comparams(self, lid: str) -> Tuple[Dict[Tuple[str, Optional[str]], int], int]:
        """({(comparam ID, protocol short name): 1}, number of redundant duplicate COMPARAM-REF elements met)
        -- a COMPARAM-REF replaces an inherited one for the same comparam and protocol (ISO 22901-1 7.3.2.5)"""
        layer = self.layers[lid]
        if layer.type == "ECU-SHARED-DATA":
            return {}, 0
        res: Dict[Tuple[str, Optional[str]], int] = {}
        dup = 0
        for pid, _, _ in sorted(layer.parents, key=lambda p: PRIO[self.layers[p[0]].type]):
            r, d = self.applicable_comparams(pid)
            res.update(r)
            dup += d
        own = set()
        for key in layer.comparams:
            if key in own:
                dup += 1
            own.add(key)
            res[key] = 1
        return res, dup

    # ---- services ----------------------------------------------------------------------------
    def service_messages(self, sid: str) -> List[Tuple[str, ET.Element]]:
        s = self.services[sid]
        out: List[Tuple[str, ET.Element]] = []
        for path in ("REQUEST-REF", "POS-RESPONSE-REFS/POS-RESPONSE-REF", "NEG-RESPONSE-REFS/NEG-RESPONSE-REF"):
            for r in s.findall(path):
                m = self.messages.get(r.get("ID-REF") or "")
                if m is None:
                    raise OutsideEnvelope(f"message {r.get('ID-REF')} not found")
                out.append((r.tag, m))
        return out

    def param_sig(self, p: ET.Element) -> Any:
        """a parameter is what its PARAM element says plus the DATA-OBJECT-PROP it links by ID (an edit of that DOP in
        place changes bit length / data type / conversion of the parameter although the PARAM element stays the same)"""
        ref = p.find("DOP-REF")
        dop = self.dops.get(ref.get("ID-REF") or "") if ref is not None else None
        return (canon(p), canon(dop) if dop is not None else None)

    def message_sig(self, m: ET.Element) -> Any:
        """what the comparison is about: the parameters (not the ID / name of the message object that carries them)"""
        k = ("msg", id(m))
        if k not in self._memo:
            self._memo[k] = (m.tag, tuple(self.param_sig(p) for p in m.findall("PARAMS/PARAM")))
        return self._memo[k]

    def service_name(self, sid: str) -> str:
        return txt(self.services[sid], "SHORT-NAME") or ""

    def service_prefix(self, sid: str) -> Optional[bytes]:
        k = ("prefix", sid)
        if k not in self._memo:
            self._memo[k] = next((request_prefix(m) for tag, m in self.service_messages(sid) if tag == "REQUEST-REF"), None)
        return self._memo[k]


def request_prefix(msg: ET.Element) -> Optional[bytes]:
    """Constant prefix of a request: the leading run of CODED-CONST parameters is placed per ISO 22901-1 7.3.6 (plain
    big-endian integers only; None = not computable by this model); the prefix is made of the bytes from the start of
    the PDU that are COMPLETELY covered by these constants (the reading odxtools documents in codec.py)."""
    out = bytearray()
    used = bytearray()
    cursor = 0
    for p in msg.findall("PARAMS/PARAM"):
        t = p.get(XSI_TYPE)
        if t == "PHYS-CONST":
            return None
        if t != "CODED-CONST":
            break
        dct = p.find("DIAG-CODED-TYPE")
        if (dct is None or dct.get(XSI_TYPE) != "STANDARD-LENGTH-TYPE" or dct.get("BASE-DATA-TYPE") not in ("A_UINT32", "A_INT32") or
                dct.find("BIT-MASK") is not None or dct.get("IS-HIGHLOW-BYTE-ORDER", "true") != "true" or
                dct.get("BASE-TYPE-ENCODING") not in (None, "NONE", "2C")):
            return None
        bits = int(txt(dct, "BIT-LENGTH") or "0")
        v = int(txt(p, "CODED-VALUE") or "0")
        if v < 0:
            v += 1 << bits
        if not 0 <= v < (1 << bits):
            return None
        byte = int(txt(p, "BYTE-POSITION")) if txt(p, "BYTE-POSITION") is not None else cursor
        bit = int(txt(p, "BIT-POSITION") or "0")
        k = (bit + bits + 7) // 8
        if len(out) < byte + k:
            out.extend(b"\x00" * (byte + k - len(out)))
            used.extend(b"\x00" * (byte + k - len(used)))
        mask = ((1 << bits) - 1) << bit
        old = int.from_bytes(out[byte:byte + k], "big")
        out[byte:byte + k] = ((old & ~mask) | (v << bit)).to_bytes(k, "big")
        um = int.from_bytes(used[byte:byte + k], "big")
        used[byte:byte + k] = (um | mask).to_bytes(k, "big")
        cursor = byte + k
    n = 0
    while n < len(used) and used[n] == 0xFF:
        n += 1
    return bytes(out[:n])


def changed_params(old: List[Tuple[str, ET.Element]], new: List[Tuple[str, ET.Element]], mo: Optional["Model"] = None,
                   mn: Optional["Model"] = None) -> Optional[List[List[str]]]:
    """[[message kind label, parameter short name (new side)]] for PARAM elements that differ; None if the lists of
    messages or parameters have different shapes (never the case after a single attribute edit)"""
    if [t for t, _ in old] != [t for t, _ in new]:
        return None
    out: List[List[str]] = []
    for (_, eo), (_, en) in zip(old, new):
        po, pn = eo.findall("PARAMS/PARAM"), en.findall("PARAMS/PARAM")
        if len(po) != len(pn):
            return None
        for a, b in zip(po, pn):
            sa = mo.param_sig(a) if mo is not None else canon(a)
            sb = mn.param_sig(b) if mn is not None else canon(b)
            if sa != sb:
                out.append([KIND_LABEL[en.tag], txt(b, "SHORT-NAME") or ""])
    return out


def expected_changes(new_files: Dict[str, str], old_files: Dict[str, str]) -> Dict[str, Any]:
    """What a comparison of `new` against `old` has to report.  Result:
    {"new_layers": [...], "deleted_layers": [...],
     "layers": {layer short name: {"new": [names], "deleted": [names], "renamed": [[new name, old name]],
                                    "changed": [names], "params": {name: [[kind, param]]|None},
                                    "prefix_changed": [names], "n_new": int, "n_old": int}},
     "ambiguous": reason or None}
    `ambiguous`: two applicable services of one layer share a constant request prefix or a prefix is not computable;
    the tool's rename heuristic is then not determined by the property statement."""
    mn, mo = Model(new_files), Model(old_files)
    names_new = {mn.layers[i].name: i for i in mn.order}
    names_old = {mo.layers[i].name: i for i in mo.order}
    res: Dict[str, Any] = {"new_layers": sorted(set(names_new) - set(names_old)), "deleted_layers": sorted(set(names_old) - set(names_new)),
                           "layers": {}, "ambiguous": None}
    for lname in [mn.layers[i].name for i in mn.order]:
        if lname not in names_old:
            continue
        e, amb = layer_diff(mn, names_new[lname], mo, names_old[lname])
        if amb:
            res["ambiguous"] = amb
        res["layers"][lname] = e
    return res


def layer_diff(mn: Model, lid_new: str, mo: Model, lid_old: str) -> Tuple[Dict[str, Any], Optional[str]]:
    """difference of the services applicable to layer lid_new of mn against layer lid_old of mo, by service ID"""
    amb: Optional[str] = None
    sn = {i: n for n, i in mn.applicable_services(lid_new).items()}
    so = {i: n for n, i in mo.applicable_services(lid_old).items()}
    for m, tab, lid in ((mn, sn, lid_new), (mo, so, lid_old)):
        pf = [m.service_prefix(i) for i in tab]
        if any(p is None for p in pf):
            amb = f"{m.layers[lid].name}: a request prefix is not computable"
        elif len(set(pf)) != len(pf):
            amb = f"{m.layers[lid].name}: two services share a constant request prefix"
    e: Dict[str, Any] = {"new": [], "deleted": [], "renamed": [], "changed": [], "params": {}, "prefix_changed": [],
                         "n_new": len(sn), "n_old": len(so)}
    for i, n in sn.items():
        if i not in so:
            e["new"].append(n)
            continue
        if so[i] != n:
            e["renamed"].append([n, so[i]])
        a, b = mo.service_messages(i), mn.service_messages(i)
        if [mo.message_sig(x) for _, x in a] != [mn.message_sig(x) for _, x in b] or [t for t, _ in a] != [t for t, _ in b]:
            if so[i] == n:
                e["changed"].append(n)
            e["params"][n] = changed_params(a, b, mo, mn)
        if mo.service_prefix(i) != mn.service_prefix(i):
            e["prefix_changed"].append(n)
    for i, n in so.items():
        if i not in sn:
            e["deleted"].append(n)
    # OVERRIDE: a layer defines a service of its own under the short name (and constant prefix) of the service the other
    # layer has -- for the comparison that is the same service, possibly with changed parameters
    old_by_name = {n: i for i, n in so.items() if i not in sn}
    for i, n in list(sn.items()):
        if i in so or n not in old_by_name:
            continue
        j = old_by_name[n]
        e["new"].remove(n)
        e["deleted"].remove(n)
        if mn.service_prefix(i) != mo.service_prefix(j):
            e["prefix_changed"].append(n)  # still the same service: it keeps its short name (must not be called new)
        a, b = mo.service_messages(j), mn.service_messages(i)
        if [mo.message_sig(x) for _, x in a] != [mn.message_sig(x) for _, x in b] or [t for t, _ in a] != [t for t, _ in b]:
            e["changed"].append(n)
            e["params"][n] = changed_params(a, b, mo, mn)
    return e, amb


def expected_layer_pairs(files: Dict[str, str]) -> Dict[str, Any]:
    """every ordered pair of DIFFERENT layers of one database: {"new/old": (diff, ambiguous)}"""
    m = Model(files)
    out: Dict[str, Any] = {}
    for a in m.order:
        for b in m.order:
            if a != b:
                e, amb = layer_diff(m, a, m, b)
                out[m.layers[a].name + "/" + m.layers[b].name] = {"diff": e, "ambiguous": amb}
    return out


def metrics(files: Dict[str, str]) -> Dict[str, Dict[str, Any]]:
    """per layer short name: type, number of applicable services / DATA-OBJECT-PROPs, admissible numbers of
    communication parameters [lo, hi] (hi > lo only if the XML repeats an identical COMPARAM-REF)"""
    m = Model(files)
    out: Dict[str, Dict[str, Any]] = {}
    for lid in m.order:
        l = m.layers[lid]
        cps, dup = m.applicable_comparams(lid)
        out[l.name] = {"type": l.type, "services": len(m.applicable_services(lid)), "dops": len(m.applicable_dops(lid)),
                       "own_dops": len(l.dops), "comparams": [len(cps), len(cps) + dup], "own_comparams": len(l.comparams)}
    return out
