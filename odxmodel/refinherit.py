"""Independent reference model of ODX value inheritance (ISO 22901-1, 7.3.2.4) -- no odxtools import.

A hierarchy is described by plain data:

    types[i]    layer type of layer i ("ECU-SHARED-DATA", "PROTOCOL", "FUNCTIONAL-GROUP", "BASE-VARIANT", "ECU-VARIANT")
    parents[i]  list of indices of the layers that layer i references with PARENT-REF
    local[i]    {short name: object identity} objects of ONE category that layer i defines (or references) itself
    excluded    {(child, parent): set of short names listed in the NOT-INHERITED-* list of that PARENT-REF}

view(L) = local(L)  +  for every short name not defined locally: the object offered by the parent of the highest
priority among the parents that offer the name (a parent offers view(parent) minus the names excluded on its
PARENT-REF).  If several parents of that highest priority offer *different* objects, the clash is unresolved and
loading must report an error.  A parent's view never depends on its children (it is computed from its ancestors
only), which is the third clause of the property.

Priority of a parent is the priority of its layer type: PROTOCOL < FUNCTIONAL-GROUP < BASE-VARIANT < ECU-VARIANT.
Where ECU-SHARED-DATA ranks relative to the other four is the one point on which this model is parametrised
(`esd`): odxtools documents "highest" (diaglayertype.py, citing 7.3.2.4.4); the check accepts a tree that is
consistent with either reading, see c09.py.
"""
from __future__ import annotations

import itertools
from typing import Any, Dict, Iterable, Iterator, List, Optional, Sequence, Set, Tuple

ESD, PROT, FG, BV, EV = "ECU-SHARED-DATA", "PROTOCOL", "FUNCTIONAL-GROUP", "BASE-VARIANT", "ECU-VARIANT"
TYPES = (ESD, PROT, FG, BV, EV)  # in an order in which parents always come before children
RANK = {t: i for i, t in enumerate(TYPES)}

# Which layer types a PARENT-REF of a layer of the given type may point to (ODX 2.2: an ECU variant inherits
# from exactly one base variant, a base variant from functional groups and protocols, a functional group from
# protocols; every hierarchy element may additionally reference shared-data layers; shared data has no parents).
ALLOWED_PARENTS: Dict[str, Tuple[str, ...]] = {
    ESD: (),
    PROT: (ESD,),
    FG: (ESD, PROT),
    BV: (ESD, PROT, FG),
    EV: (ESD, BV),
}
MAX_PARENTS_OF_TYPE = {(EV, BV): 1}  # checker rule: at most one base variant per ECU variant

_BASE_PRIORITY = {PROT: 1, FG: 2, BV: 3, EV: 4}


def priority(layer_type: str, esd: str = "highest") -> int:
    if layer_type == ESD:
        return 100 if esd == "highest" else 0
    return _BASE_PRIORITY[layer_type]


class Conflict:
    """Marker stored in a view for a name whose inheritance clash is unresolved."""

    def __init__(self, objects: Iterable[Any]):
        self.objects = tuple(sorted(set(objects), key=repr))

    def __repr__(self) -> str:
        return f"Conflict{self.objects}"

    def __eq__(self, other: Any) -> bool:
        return isinstance(other, Conflict) and other.objects == self.objects

    def __hash__(self) -> int:
        return hash(self.objects)


def resolve(types: Sequence[str],
            parents: Sequence[Sequence[int]],
            local: Sequence[Dict[str, Any]],
            excluded: Optional[Dict[Tuple[int, int], Set[str]]] = None,
            esd: str = "highest",
            opaque: Iterable[int] = ()) -> Tuple[List[Dict[str, Any]], List[Tuple[int, str]]]:
    """-> (views, conflicts).  views[i] = {short name: object identity | Conflict};  conflicts = [(layer, name)].

    `opaque`: layers that cannot carry objects of this category at all and are assumed not to hand any through
    (used for the two readings of "diag variables below a protocol layer")."""
    excluded = excluded or {}
    opaque = set(opaque)
    n = len(types)
    views: List[Optional[Dict[str, Any]]] = [None] * n
    conflicts: List[Tuple[int, str]] = []

    def view(i: int, stack: Tuple[int, ...] = ()) -> Dict[str, Any]:
        if views[i] is not None:
            return views[i]  # type: ignore[return-value]
        if i in stack:
            raise ValueError("cyclic hierarchy")
        if i in opaque:
            views[i] = {}
            return views[i]  # type: ignore[return-value]
        offers: Dict[str, List[Tuple[int, Any]]] = {}
        for p in parents[i]:
            pv = view(p, stack + (i,))
            banned = excluded.get((i, p), set())
            for name, obj in pv.items():
                if name in banned:
                    continue
                offers.setdefault(name, []).append((priority(types[p], esd), obj))
        v: Dict[str, Any] = {}
        for name in sorted(offers):
            if name in local[i]:
                continue
            best = max(pr for pr, _ in offers[name])
            objs = []
            for pr, obj in offers[name]:
                if pr == best and obj not in objs:
                    objs.append(obj)
            if len(objs) == 1 and not isinstance(objs[0], Conflict):
                v[name] = objs[0]
            else:
                v[name] = Conflict(objs)
                conflicts.append((i, name))
        for name, obj in local[i].items():
            v[name] = obj
        views[i] = v
        return v

    for i in range(n):
        view(i)
    return [dict(v) for v in views], conflicts  # type: ignore[arg-type]


# ---------------------------------------------------------------------------------------------
# all hierarchies with n layers, up to renaming of layers
# ---------------------------------------------------------------------------------------------
def _legal_parent_sets(types: Sequence[str], i: int) -> Iterator[Tuple[int, ...]]:
    cand = [j for j in range(i) if types[j] in ALLOWED_PARENTS[types[i]]]
    for k in range(len(cand) + 1):
        for sub in itertools.combinations(cand, k):
            ok = True
            for (ct, pt), mx in MAX_PARENTS_OF_TYPE.items():
                if types[i] == ct and sum(1 for j in sub if types[j] == pt) > mx:
                    ok = False
            if ok:
                yield sub


def _connected(n: int, parents: Sequence[Sequence[int]]) -> bool:
    adj: Dict[int, Set[int]] = {i: set() for i in range(n)}
    for i, ps in enumerate(parents):
        for p in ps:
            adj[i].add(p)
            adj[p].add(i)
    seen = {0}
    todo = [0]
    while todo:
        x = todo.pop()
        for y in adj[x]:
            if y not in seen:
                seen.add(y)
                todo.append(y)
    return len(seen) == n


def _type_preserving_perms(types: Sequence[str]) -> Iterator[Tuple[int, ...]]:
    groups: Dict[str, List[int]] = {}
    for i, t in enumerate(types):
        groups.setdefault(t, []).append(i)
    keys = [t for t in TYPES if t in groups]
    for combo in itertools.product(*[itertools.permutations(groups[t]) for t in keys]):
        perm = [0] * len(types)
        for t, image in zip(keys, combo):
            for src, dst in zip(groups[t], image):
                perm[src] = dst
        yield tuple(perm)


def _encode(parents: Sequence[Sequence[int]]) -> Tuple[Tuple[int, ...], ...]:
    return tuple(tuple(sorted(ps)) for ps in parents)


def canonical(types: Sequence[str], parents: Sequence[Sequence[int]]) -> Tuple[Tuple[int, ...], ...]:
    """Smallest encoding of the parent relation over all renamings that keep the (sorted) type sequence."""
    best = None
    n = len(types)
    for perm in _type_preserving_perms(types):
        new: List[Tuple[int, ...]] = [()] * n
        for i in range(n):
            new[perm[i]] = tuple(sorted(perm[p] for p in parents[i]))
        enc = tuple(new)
        if best is None or enc < best:
            best = enc
    return best  # type: ignore[return-value]


def automorphisms(types: Sequence[str], parents: Sequence[Sequence[int]]) -> List[Tuple[int, ...]]:
    n = len(types)
    me = _encode(parents)
    out = []
    for perm in _type_preserving_perms(types):
        new: List[Tuple[int, ...]] = [()] * n
        for i in range(n):
            new[perm[i]] = tuple(sorted(perm[p] for p in parents[i]))
        if tuple(new) == me:
            out.append(perm)
    return out


def hierarchies(n: int) -> List[Tuple[Tuple[str, ...], Tuple[Tuple[int, ...], ...]]]:
    """All weakly connected hierarchies with exactly n layers whose PARENT-REFs respect ALLOWED_PARENTS, one
    representative per isomorphism class (layers of one type are interchangeable).  Layers are listed in the
    order of TYPES, so parents[i] only contains indices < i."""
    out = []
    seen = set()
    for types in itertools.combinations_with_replacement(TYPES, n):
        for parents in itertools.product(*[list(_legal_parent_sets(types, i)) for i in range(n)]):
            if n > 1 and not _connected(n, parents):
                continue
            c = canonical(types, parents)
            if (types, c) in seen:
                continue
            seen.add((types, c))
            out.append((tuple(types), c))
    out.sort(key=lambda h: (sum(len(p) for p in h[1]), [RANK[t] for t in h[0]], h[1]))
    return out


def shape_tags(types: Sequence[str], parents: Sequence[Sequence[int]]) -> Set[str]:
    """Descriptive tags used by the vacuity guards of the check."""
    tags: Set[str] = set()
    n = len(types)
    anc: List[Set[int]] = [set() for _ in range(n)]
    for i in range(n):
        for p in parents[i]:
            anc[i] |= {p} | anc[p]
    for i in range(n):
        ps = parents[i]
        if len(ps) == 1:
            tags.add("single-parent")
        if len(ps) > 1:
            tags.add("multiple-parents")
            prios = [types[p] for p in ps]
            if len(set(prios)) < len(prios):
                tags.add("equal-priority-parents")
            if len(set(prios)) > 1:
                tags.add("mixed-priority-parents")
            for a, b in itertools.combinations(ps, 2):
                if (anc[a] | {a}) & (anc[b] | {b}):
                    tags.add("diamond")
        if len(anc[i]) >= 2 and any(anc[p] for p in ps):
            tags.add("chain>=3")
    return tags
