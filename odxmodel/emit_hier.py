"""Layer hierarchies for the value-inheritance check (C09): case (plain JSON data) -> emit.py container spec.

A *case* describes one hierarchy:

    {"types":   [layer type, ...]            layers in an order in which parents precede children,
     "parents": [[index, ...], ...]          PARENT-REFs of every layer,
     "names":   ["a", "b"],                  the short names that are placed,
     "place":   [[0|1|2|3 per name], ...]    per layer: 0 absent, 1 defined locally, 2 (diag comms / diag
                                             variables only) referenced with DIAG-COMM-REF / DIAG-VARIABLE-REF
                                             from the library layer, 3 (unit groups only) defined locally with
                                             content that is identical in every layer (value-equal, distinct),
                                             4 defined locally like 1, but the single-ECU job carries the short
                                             name services have elsewhere and the service that of the jobs,
     "excl":    [[child, parent, name index], ...]   NOT-INHERITED entries,
     "excl_lists": ["comms","dops","tables","gnrs","vars"]   which NOT-INHERITED-* lists carry `excl`,
     "cats":    [...]                        categories that are instantiated (see CATEGORIES)}

Every (layer, name) placement is instantiated at once in every category of `cats`; every object carries the
marker `<layer>:<category>:<name>` in LONG-NAME.  No odxtools import.
"""
from __future__ import annotations

from typing import Any, Dict, List, Optional, Tuple

from odxmodel.emit import T, X, names, oid

ESD, PROT, FG, BV, EV = "ECU-SHARED-DATA", "PROTOCOL", "FUNCTIONAL-GROUP", "BASE-VARIANT", "ECU-VARIANT"
SHORT = {ESD: "S", PROT: "P", FG: "F", BV: "B", EV: "E"}

# category -> (short name suffix, NOT-INHERITED list that governs it or None)
CATEGORIES: Dict[str, Tuple[str, Optional[str]]] = {
    "svc": ("", "comms"),
    "job": ("_j", "comms"),
    "dop": ("", "dops"),
    "struct": ("_s", "dops"),
    "table": ("", "tables"),
    "gnr": ("", "gnrs"),
    "var": ("", "vars"),
    "fc": ("", None),
    "sc": ("", None),
    "aa": ("", None),
    "ug": ("", None),
    # the other eight kinds of data objects of a DIAG-DATA-DICTIONARY-SPEC (all governed by NOT-INHERITED-DOPS);
    # they refer to the DOP and the structure of the same layer and name, so they need "dop" and "struct"
    "sfield": ("_sf", "dops"),
    "eopfield": ("_ef", "dops"),
    "dlfield": ("_lf", "dops"),
    "emfield": ("_mf", "dops"),
    "mux": ("_mx", "dops"),
    "dtcdop": ("_dt", "dops"),
    "envdata": ("_ed", "dops"),
    "envdesc": ("_dd", "dops"),
}
EXTRA_DDDS_CATS = ["sfield", "eopfield", "dlfield", "emfield", "mux", "dtcdop", "envdata", "envdesc"]
FULL_CATS = list(CATEGORIES)
ALL_CATS = [c for c in CATEGORIES if c not in EXTRA_DDDS_CATS]  # the core profile
EXCLUDABLE_CATS = [c for c, (_, lst) in CATEGORIES.items() if lst is not None]
REFERABLE_CATS = ["svc", "job", "var"]  # categories with a *-REF placement (kind 2)
# categories whose objects carry no ODXLINK id, so that two layers can define value-equal but distinct objects
# (placement kind 3): of all kinds subject to value inheritance only UNIT-GROUP is a plain named element
EQUALABLE_CATS = ["ug"]
EQ = "="  # "layer" part of the marker of such an object: the same text in every layer that defines it
EXCL_LISTS = ["comms", "dops", "tables", "gnrs", "vars"]
NO_VARS = (PROT,)  # layer types without DIAG-VARIABLES

COMPARAM_SPEC = "CS"
LIB = "LIB"


def layer_names(case: Dict[str, Any], prefix: str = "") -> List[str]:
    return [f"{prefix}{SHORT[t]}{i}" for i, t in enumerate(case["types"])]


def short_name(cat: str, name: str) -> str:
    return name + CATEGORIES[cat][0]


def marker(layer: str, cat: str, name: str) -> str:
    return f"{layer}:{cat}:{name}"


def request_bytes(name_index: int, layer_index: int, swapped: bool = False) -> bytes:
    """Request of the service for names[name_index] that is defined by layer layer_index (0xEE: library);
    swapped: the service of a placement of kind 4 (it carries the short name of the jobs)."""
    return bytes([(0x18 if swapped else 0x10) + name_index, layer_index])


# placement kind 4 = defined locally like kind 1, but the two diag-comm kinds swap their short names: the layer has
# a SINGLE-ECU-JOB `<name>` and a DIAG-SERVICE `<name>_j` (markers use the categories "job!" / "svc!")
SWAPPED = {"svc": "svc!", "job": "job!"}


U8 = {"k": "STD", "base": "A_UINT32", "bits": 8}


def _cc(name: str, value: int, byte: int) -> Dict[str, Any]:
    return {"t": "CODED-CONST", "name": name, "dct": U8, "value": value, "byte": byte}


def spec_name(cat: str, name: str) -> str:
    """Name used towards emit.py: the emitter derives IDs from names, and objects of different categories
    deliberately share short names, so the category is prepended (-> distinct IDs) and removed from the
    SHORT-NAME elements again by _strip_prefixed_short_names()."""
    return f"{cat}.{short_name(cat, name)}"


def _objects(lname: str, lidx: int, ltype: str, names_: List[str], row: List[int], cats: List[str],
             lib_name: str = LIB, is_lib: bool = False) -> Dict[str, Any]:
    """Pieces of one layer spec for the objects the layer defines (kind 1) or references (kind 2)."""
    spec: Dict[str, Any] = {"funct_classes": [], "dops": [], "msgs": [], "svcs": []}
    unit_groups: List[str] = []
    state_charts: List[str] = []
    audiences: List[str] = []
    variables: List[str] = []
    for ni, (nm, kind) in enumerate(zip(names_, row)):
        if kind == 0:
            continue
        if kind == 2:
            if "svc" in cats:
                spec["svcs"].append({"ref": oid(lib_name, spec_name("svc", nm))})
            if "job" in cats:
                spec["svcs"].append({"ref": oid(lib_name, spec_name("job", nm))})
            if "var" in cats and ltype not in NO_VARS:
                variables.append(X("DIAG-VARIABLE-REF", ID_REF=oid(lib_name, spec_name("var", nm))))
            continue
        if kind == 3:
            if "ug" in cats:
                unit_groups.append(X("UNIT-GROUP", names(short_name("ug", nm), marker(EQ, "ug", nm)), T("CATEGORY", "COUNTRY")))
            continue
        mk = lambda cat: marker(lname, cat, nm)  # noqa: E731
        if "fc" in cats:
            spec["funct_classes"].append({"name": spec_name("fc", nm), "long_name": mk("fc")})
        if "dop" in cats:
            spec["dops"].append({"kind": "dop", "name": spec_name("dop", nm), "long_name": mk("dop"), "dct": U8})
        if "struct" in cats:
            spec["dops"].append({"kind": "struct", "name": spec_name("struct", nm), "long_name": mk("struct"),
                                 "params": [_cc("c", 0x40 + ni, 0)]})
        if "table" in cats:
            spec["dops"].append({"kind": "table", "name": spec_name("table", nm), "long_name": mk("table"),
                                 "key_dop": spec_name("dop", nm) if "dop" in cats else None,
                                 "rows": [{"name": "r", "key": 1}]})
        st, dp = spec_name("struct", nm), spec_name("dop", nm)
        if "sfield" in cats:
            spec["dops"].append({"kind": "sfield", "name": spec_name("sfield", nm), "long_name": mk("sfield"), "of": st,
                                 "n": 2, "item_size": 1})
        if "eopfield" in cats:
            spec["dops"].append({"kind": "eopfield", "name": spec_name("eopfield", nm), "long_name": mk("eopfield"), "of": st})
        if "dlfield" in cats:
            spec["dops"].append({"kind": "dlfield", "name": spec_name("dlfield", nm), "long_name": mk("dlfield"), "of": st,
                                 "offset": 1, "count": {"byte": 0, "dop": dp}})
        if "emfield" in cats:
            spec["dops"].append({"kind": "emfield", "name": spec_name("emfield", nm), "long_name": mk("emfield"), "of": st,
                                 "end_dop": dp, "term": 255})
        if "mux" in cats:
            spec["dops"].append({"kind": "mux", "name": spec_name("mux", nm), "long_name": mk("mux"), "byte": 1,
                                 "key": {"byte": 0, "dop": dp}, "cases": [{"name": "c1", "lo": 1, "hi": 1, "struct": st}]})
        if "dtcdop" in cats:
            spec["dops"].append({"kind": "dtcdop", "name": spec_name("dtcdop", nm), "long_name": mk("dtcdop"),
                                 "dct": {"k": "STD", "base": "A_UINT32", "bits": 24},
                                 "dtcs": [{"name": f"dtc_{nm}", "code": 0x100 + ni}]})
        if "envdata" in cats:
            spec["dops"].append({"kind": "envdata", "name": spec_name("envdata", nm), "long_name": mk("envdata"),
                                 "params": [_cc("c", 0x50 + ni, 0)], "all": True})
        if "envdesc" in cats:
            spec["dops"].append({"kind": "envdesc", "name": spec_name("envdesc", nm), "long_name": mk("envdesc"), "param": "dtc",
                                 "envdatas": [spec_name("envdata", nm)]})
        if kind == 4:
            # kinds swapped: the SINGLE-ECU-JOB gets the short name the services have elsewhere and vice versa
            if "job" in cats:
                spec["svcs"].append({"job": True, "name": "job." + short_name("svc", nm), "long_name": marker(lname, SWAPPED["job"], nm)})
            if "svc" in cats:
                rq = "rqx_" + nm
                b = request_bytes(ni, lidx, swapped=True)
                spec["msgs"].append({"kind": "REQUEST", "name": rq, "params": [_cc("sid", b[0], 0), _cc("who", b[1], 1)]})
                spec["svcs"].append({"name": "svc." + short_name("job", nm), "long_name": marker(lname, SWAPPED["svc"], nm),
                                     "request": rq})
        else:
            if "svc" in cats:
                rq = "rq_" + nm
                b = request_bytes(ni, 0xEE if is_lib else lidx)
                spec["msgs"].append({"kind": "REQUEST", "name": rq, "params": [_cc("sid", b[0], 0), _cc("who", b[1], 1)]})
                spec["svcs"].append({"name": spec_name("svc", nm), "long_name": mk("svc"), "request": rq})
            if "job" in cats:
                spec["svcs"].append({"job": True, "name": spec_name("job", nm), "long_name": mk("job")})
        if "gnr" in cats:
            spec["msgs"].append({"kind": "GLOBAL-NEG-RESPONSE", "name": spec_name("gnr", nm), "long_name": mk("gnr"),
                                 "params": [_cc("sid", 0x7F, 0), _cc("nrc", 0x80 + ni, 1), _cc("who", lidx, 2)]})
        if "ug" in cats:
            unit_groups.append(X("UNIT-GROUP", names(short_name("ug", nm), mk("ug")), T("CATEGORY", "COUNTRY")))
        if "sc" in cats:
            state_charts.append(X("STATE-CHART", names(short_name("sc", nm), mk("sc")), T("SEMANTIC", "SESSION"),
                                  X("START-STATE-SNREF", SHORT_NAME="s0"),
                                  X("STATES", X("STATE", names("s0"), ID=oid(lname, f"sc.{nm}.s0"))),
                                  ID=oid(lname, spec_name("sc", nm))))
        if "aa" in cats:
            audiences.append(X("ADDITIONAL-AUDIENCE", names(short_name("aa", nm), mk("aa")),
                               ID=oid(lname, spec_name("aa", nm))))
        if "var" in cats and ltype not in NO_VARS:
            variables.append(X("DIAG-VARIABLE", names(short_name("var", nm), mk("var")),
                               ID=oid(lname, spec_name("var", nm))))
    if unit_groups:
        spec["unit_spec_xml"] = X("UNIT-SPEC", X("UNIT-GROUPS", *unit_groups))
    mid = ""
    if state_charts:
        mid += X("STATE-CHARTS", *state_charts)
    if audiences:
        mid += X("ADDITIONAL-AUDIENCES", *audiences)
    if mid:
        spec["mid_xml"] = mid
    if variables:
        spec["pre_tail_xml"] = X("DIAG-VARIABLES", *variables)
    return spec


def _strip_prefixed_short_names(xml: str) -> str:
    """`table.a` / `gnr.a` ... are spec names used to obtain distinct IDs; SHORT-NAME must be the bare name."""
    for cat in CATEGORIES:
        xml = xml.replace(f"<SHORT-NAME>{cat}.", "<SHORT-NAME>")
    return xml


TOKEN = "\u00a7\u00a7"  # placeholder for the batch prefix inside cached layer XML (never occurs otherwise)
_LAYER_CACHE: Dict[Any, Tuple[str, str]] = {}


def _layer_specs(case: Dict[str, Any], prefix: str) -> List[Tuple[Any, Dict[str, Any]]]:
    """[(cache key or None, layer spec)] of one hierarchy; names/IDs are prefix + type letter + index."""
    types: List[str] = case["types"]
    lnames = layer_names(case, prefix)
    cats: List[str] = case.get("cats", ALL_CATS)
    nms: List[str] = case["names"]
    lists = case.get("excl_lists", EXCL_LISTS)
    out: List[Tuple[Any, Dict[str, Any]]] = []
    need_lib = any(k == 2 for row in case["place"] for k in row)
    common = (tuple(nms), tuple(cats), tuple(lists))
    if need_lib:
        lib = {"type": ESD, "name": prefix + LIB}
        lib.update(_objects(prefix + LIB, 0xEE, ESD, nms, [1] * len(nms), [c for c in REFERABLE_CATS if c in cats],
                            is_lib=True))
        out.append((("LIB",) + common, lib))
    for i, t in enumerate(types):
        l: Dict[str, Any] = {"type": t, "name": lnames[i]}
        l.update(_objects(lnames[i], i, t, nms, case["place"][i], cats, lib_name=prefix + LIB))
        if t == PROT:
            l["comparam_spec"] = COMPARAM_SPEC
        prs = []
        pkey = []
        for p in case["parents"][i]:
            banned = [nms[n] for c, q, n in case.get("excl", []) if c == i and q == p]
            ni: Dict[str, List[str]] = {}
            for lst in lists:
                sn = [short_name(cat, b) for b in banned for cat, (_, gov) in CATEGORIES.items() if gov == lst and cat in cats]
                if sn:
                    ni[lst] = sn
            prs.append({"layer": lnames[p], "not_inherited": ni})
            pkey.append((p, types[p], tuple(banned)))
        if prs:
            l["parents"] = prs
        out.append(((t, i, tuple(case["place"][i]), tuple(pkey)) + common, l))
    return out


def container_spec(case: Dict[str, Any], cname: str = "C", prefix: str = "") -> Dict[str, Any]:
    """emit.container() input for one hierarchy."""
    return {"name": cname, "layers": [l for _, l in _layer_specs(case, prefix)]}


def container_xml(case: Dict[str, Any], cname: str, prefix: str) -> str:
    """The same document emit.container(container_spec(...)) produces, assembled from per-layer XML (emit.layer)
    that is cached across cases: most layers of neighbouring cases are identical up to the batch prefix."""
    from odxmodel import emit
    keys = [k for k, _ in _layer_specs_keys_only(case)]
    if len(_LAYER_CACHE) > 1500:  # (kept small: the workers fork a child per database)
        _LAYER_CACHE.clear()
    if any(k not in _LAYER_CACHE for k in keys):
        specs = _layer_specs(case, TOKEN)
        layer_types = {l["name"]: l["type"] for _, l in specs}
        for k, l in specs:
            if k not in _LAYER_CACHE:
                _LAYER_CACHE[k] = (l["type"], _strip_prefixed_short_names(emit.layer(l, layer_types)))
    groups: Dict[str, List[str]] = {}
    for k in keys:
        t, xml = _LAYER_CACHE[k]
        groups.setdefault(emit.LAYER_TAG[t][0], []).append(xml.replace(TOKEN, prefix))
    inner = names(cname)
    for tag in ("PROTOCOLS", "FUNCTIONAL-GROUPS", "ECU-SHARED-DATAS", "BASE-VARIANTS", "ECU-VARIANTS"):
        if tag in groups:
            inner += X(tag, *groups[tag])
    return ('<?xml version="1.0" encoding="UTF-8" standalone="no" ?>\n<ODX MODEL-VERSION="2.2.0" ' + emit.XSI + ">" +
            X("DIAG-LAYER-CONTAINER", inner, ID=cname) + "</ODX>")


def _layer_specs_keys_only(case: Dict[str, Any]) -> List[Tuple[Any, None]]:
    """Cache keys of the layers of a case without building the specs."""
    types: List[str] = case["types"]
    nms: List[str] = case["names"]
    common = (tuple(nms), tuple(case.get("cats", ALL_CATS)), tuple(case.get("excl_lists", EXCL_LISTS)))
    out: List[Tuple[Any, None]] = []
    if any(k == 2 for row in case["place"] for k in row):
        out.append((("LIB",) + common, None))
    for i, t in enumerate(types):
        pkey = tuple((p, types[p], tuple(nms[n] for c, q, n in case.get("excl", []) if c == i and q == p)) for p in case["parents"][i])
        out.append(((t, i, tuple(case["place"][i]), pkey) + common, None))
    return out


def database_files(cases: List[Dict[str, Any]], cached: bool = True) -> Dict[str, str]:
    """{file name: XML} for a database that holds each case in its own container (C0, C1, ...) with disjoint
    layer names (prefix k<i>_), plus the one comparam spec every PROTOCOL layer refers to."""
    from odxmodel import emit
    out: Dict[str, str] = {}
    for k, case in enumerate(cases):
        prefix = f"k{k}_" if len(cases) > 1 else ""
        if cached:
            out[f"C{k}.odx-d"] = container_xml(case, f"C{k}", prefix)
        else:
            out[f"C{k}.odx-d"] = _strip_prefixed_short_names(emit.container(container_spec(case, cname=f"C{k}", prefix=prefix)))
    out[COMPARAM_SPEC + ".odx-c"] = emit.comparam_spec({"name": COMPARAM_SPEC, "prot_stacks": []})
    return out


def split_files(case: Dict[str, Any], children_first: bool) -> List[Tuple[str, str]]:
    """[(file name, XML)] in load order: the same hierarchy with ONE DIAG-LAYER-CONTAINER document per layer
    (container `D_<layer>`), every PARENT-REF crossing documents (DOCREF/DOCTYPE=CONTAINER); parents' documents
    first or children's documents first.  (Cases with library references are not split.)"""
    from odxmodel import emit
    specs = [l for _, l in _layer_specs(case, "")]
    layer_types = {l["name"]: l["type"] for l in specs}
    docs: List[Tuple[str, str]] = []
    for l in specs:
        for pr in l.get("parents", []):
            pr["docref"] = "D_" + pr["layer"]
            pr["doctype"] = "CONTAINER"
        cname = "D_" + l["name"]
        inner = names(cname) + X(emit.LAYER_TAG[l["type"]][0], _strip_prefixed_short_names(emit.layer(l, layer_types)))
        docs.append((cname + ".odx-d", '<?xml version="1.0" encoding="UTF-8" standalone="no" ?>\n<ODX MODEL-VERSION="2.2.0" ' +
                     emit.XSI + ">" + X("DIAG-LAYER-CONTAINER", inner, ID=cname) + "</ODX>"))
    if children_first:
        docs.reverse()
    docs.append((COMPARAM_SPEC + ".odx-c", emit.comparam_spec({"name": COMPARAM_SPEC, "prot_stacks": []})))
    return docs
