"""Reference ISO 15765-2 segmenter and a justification monitor (no odxtools import).

segment(payload, tx_dl, pad) -> list of CAN frame payloads (bytes)
Monitor: given the frames delivered so far on one CAN ID, decides whether a reported telegram is justified
by the property text of C13.
"""
from __future__ import annotations

from typing import Dict, List, Optional, Set, Tuple

FD_SIZES = (8, 12, 16, 20, 24, 32, 48, 64)


def next_dl(n: int) -> int:
    for s in FD_SIZES:
        if n <= s:
            return s
    raise ValueError(n)


def segment(payload: bytes, tx_dl: int = 8, pad: Optional[int] = None, pad_to_tx_dl: bool = False) -> List[bytes]:
    """ISO 15765-2:2016 segmentation with normal addressing, telegram length 1..4095.
    pad=None: no padding for frames up to 8 bytes (FD frames longer than 8 bytes must still be padded to a
    valid DLC; 0xCC is used).  pad=v: every frame is padded with v to 8 bytes (classic) / next valid DLC
    (FD) or to tx_dl when pad_to_tx_dl."""
    n = len(payload)
    assert 1 <= n <= 4095 and tx_dl in FD_SIZES
    frames: List[bytes] = []
    if n <= 7 or (tx_dl > 8 and n <= tx_dl - 2):
        if n <= 7:
            frames.append(bytes([n]) + payload)
        else:
            frames.append(bytes([0x00, n]) + payload)
    else:
        frames.append(bytes([0x10 | (n >> 8), n & 0xFF]) + payload[:tx_dl - 2])
        pos = tx_dl - 2
        sn = 1
        while pos < n:
            frames.append(bytes([0x20 | sn]) + payload[pos:pos + tx_dl - 1])
            pos += tx_dl - 1
            sn = (sn + 1) % 16
    out = []
    for f in frames:
        if pad is None:
            if len(f) > 8:
                f = f + bytes([0xCC]) * (next_dl(len(f)) - len(f))
        else:
            target = tx_dl if pad_to_tx_dl else next_dl(len(f))
            f = f + bytes([pad]) * (target - len(f))
        out.append(f)
    return out


def pattern(n: int, salt: int = 0) -> bytes:
    """Position-dependent payload so that misplaced or repeated bytes show."""
    return bytes(((i * 7 + (i >> 8) * 13 + salt * 31 + 1) & 0xFF) for i in range(n))


class Monitor:
    """Per-CAN-ID justification monitor for C13.

    A reported telegram is justified iff it is
      * the payload of the single frame just delivered, or
      * the announced-length prefix of data(f)+data(c1)+...+data(ck) where f is the most recent first frame on
        this ID, c1..ck are consecutive frames delivered after f, in order, with sequence numbers 1,2,...
        (mod 16), ck is the frame just delivered (k >= 1) and f has not justified a telegram before.
    Both ISO-permitted reactions to an out-of-sequence frame (ignore it / abort the transfer) are accepted,
    because the cj may be any subsequence of the frames delivered after f.
    """

    def __init__(self) -> None:
        self.ff_len: Optional[int] = None
        self.ff_used = False
        self.poss: Set[Tuple[int, bytes]] = set()  # (k, accumulated bytes) for subsequences c1..ck
        self.just_extended: Set[Tuple[int, bytes]] = set()
        self.sf_payloads: List[bytes] = []

    def key(self) -> Tuple:
        return (self.ff_len, self.ff_used, tuple(sorted(self.poss)))

    def deliver(self, data: bytes) -> None:
        self.just_extended = set()
        self.sf_payloads = []
        if len(data) == 0:
            return
        t = data[0] >> 4
        if t == 0:
            ln = data[0] & 0xF
            self.sf_payloads.append(bytes(data[1:1 + ln]))
            if ln == 0 and len(data) > 8:
                # CAN-FD escape (only frames longer than 8 bytes): length in the second byte
                self.sf_payloads.append(bytes(data[2:2 + data[1]]))
        elif t == 1 and len(data) >= 2:
            self.ff_len = ((data[0] & 0xF) << 8) | data[1]
            self.ff_used = False
            self.poss = {(0, bytes(data[2:]))}
        elif t == 2 and self.ff_len is not None:
            sn = data[0] & 0xF
            new = set()
            for k, acc in self.poss:
                if (k + 1) % 16 == sn:
                    new.add((k + 1, acc + bytes(data[1:])))
            self.just_extended = new
            self.poss |= new

    def justify(self, telegram: bytes) -> Optional[str]:
        """Return None if `telegram`, reported in reaction to the frame just delivered, is justified;
        otherwise a reason. Marks the first frame as used."""
        telegram = bytes(telegram)
        if telegram in self.sf_payloads:
            self.sf_payloads.remove(telegram)
            return None
        if self.ff_len is not None and self.just_extended:
            ok = any(len(acc) >= self.ff_len and acc[:self.ff_len] == telegram for _, acc in self.just_extended)
            if ok:
                if self.ff_used:
                    return "the first frame already yielded a telegram"
                self.ff_used = True
                return None
        return "not the payload of the frame just received nor the announced-length prefix of FF + in-sequence CFs"
