"""Compu-method documents: many DATA-OBJECT-PROPs in one minimal BASE-VARIANT, loaded by the real loader.

Adds to emit.py (without editing it):
  * the cm key `default_int` -> COMPU-PHYS-TO-INTERNAL/COMPU-DEFAULT-VALUE/V (the internal default of a text table),
  * `dop_xml(d, layer)`  = emit.dop_any + that extension,
  * `compu_db(dops)`     -> db spec with one container / one BASE-VARIANT holding the DOPs,
  * `load_compu_db(dops)` -> {short name: DataObjectProperty}; registers the auxiliary file COMPUCODE needs.
No odxtools import at module level.
"""
from __future__ import annotations

import io
import os
from typing import Any, Dict, List

from .emit import T, X, dop_any, scratch_dir, write_db

LAYER = "L"

INTERNAL_TYPES: Dict[str, Dict[str, Any]] = {
    "u8": {"k": "STD", "base": "A_UINT32", "bits": 8},
    "i8": {"k": "STD", "base": "A_INT32", "bits": 8},
    "u16": {"k": "STD", "base": "A_UINT32", "bits": 16},
    "u64": {"k": "STD", "base": "A_UINT32", "bits": 64},
    "i64": {"k": "STD", "base": "A_INT32", "bits": 64},
    "f32": {"k": "STD", "base": "A_FLOAT32", "bits": 32},
    "f64": {"k": "STD", "base": "A_FLOAT64", "bits": 64},
    "ascii": {"k": "STD", "base": "A_ASCIISTRING", "bits": 16},
    "utf8": {"k": "STD", "base": "A_UTF8STRING", "bits": 16},
    "ucs2": {"k": "STD", "base": "A_UNICODE2STRING", "bits": 32},
    "bytes": {"k": "STD", "base": "A_BYTEFIELD", "bits": 16},
}


def base_type(it: str) -> str:
    return INTERNAL_TYPES[it]["base"]


def dop_xml(d: Dict[str, Any], layer: str = LAYER) -> str:
    tag, xml = dop_any(d, layer)
    assert tag == "DATA-OBJECT-PROPS"
    di = (d.get("cm") or {}).get("default_int")
    if di is not None:
        extra = X("COMPU-PHYS-TO-INTERNAL", X("COMPU-DEFAULT-VALUE", T("V", di)))
        assert xml.count("</COMPU-METHOD>") == 1 and "<COMPU-PHYS-TO-INTERNAL>" not in xml
        xml = xml.replace("</COMPU-METHOD>", extra + "</COMPU-METHOD>")
    return xml


def dop_spec(name: str, it: str, pt: str, cm: Dict[str, Any]) -> Dict[str, Any]:
    return {"name": name, "dct": INTERNAL_TYPES[it], "phys": pt, "cm": cm}


def compu_db(dops: List[Dict[str, Any]], name: str = "C07") -> Dict[str, Any]:
    ddds = X("DIAG-DATA-DICTIONARY-SPEC", X("DATA-OBJECT-PROPS", *[dop_xml(d) for d in dops]))
    return {"containers": [{"name": name, "layers": [{"type": "BASE-VARIANT", "name": LAYER, "head_xml": ddds}]}]}


def load_compu_db(dops: List[Dict[str, Any]], name: str = "C07") -> Dict[str, Any]:
    """Write the document, load it through Database.add_odx_file() + refresh(), return the DOPs by short name."""
    from odxtools.database import Database
    db = Database()
    paths = write_db(compu_db(dops, name), scratch_dir())
    try:
        for p in paths:
            db.add_odx_file(p)
    finally:
        for p in paths:
            try:
                os.unlink(p)
            except OSError:
                pass
    if any((d.get("cm") or {}).get("progcode") for d in dops):
        db.add_auxiliary_file("code.java", io.BytesIO(b"class C {}"))
    db.refresh()
    dd = db.diag_layers[LAYER].diag_data_dictionary_spec.data_object_props
    return {d["name"]: dd[d["name"]] for d in dops}
