"""spec (plain dicts, see DESIGN.md appendix B) -> ODX 2.2 XML text.

No odxtools import.  IDs are `<layer>.<name>`; references are emitted as ID-REF (or SNREF when the spec
says so).  Everything is returned as a string; `write_db` puts files into a directory.
"""
from __future__ import annotations

import os
from typing import Any, Dict, Iterable, List, Optional
from xml.sax.saxutils import escape, quoteattr

XSI = 'xmlns:xsi="http://www.w3.org/2001/XMLSchema-instance"'


def X(tag: str, *children: Any, **attrs: Any) -> str:
    """Element builder. attrs: use _ for - (ID_REF -> ID-REF); xsi_type -> xsi:type; None values skipped.
    children: strings are inserted verbatim (already XML), use T() for text."""
    a = ""
    for k, v in attrs.items():
        if v is None:
            continue
        k = "xsi:type" if k == "xsi_type" else k.replace("_", "-")
        if isinstance(v, bool):
            v = "true" if v else "false"
        a += f" {k}={quoteattr(str(v))}"
    body = "".join(c for c in children if c)
    if not body:
        return f"<{tag}{a}/>"
    return f"<{tag}{a}>{body}</{tag}>"


def T(tag: str, text: Any, **attrs: Any) -> str:
    if text is None:
        return ""
    return X(tag, escape(val(text)), **attrs)


def val(v: Any) -> str:
    """Python value -> ODX text."""
    if isinstance(v, (bytes, bytearray)):
        return bytes(v).hex().upper()
    if isinstance(v, bool):
        return "true" if v else "false"
    if isinstance(v, float):
        return repr(v)
    return str(v)


def names(name: str, long_name: Optional[str] = None, desc: Optional[str] = None) -> str:
    return T("SHORT-NAME", name) + T("LONG-NAME", long_name) + (X("DESC", T("p", desc)) if desc else "")


# ---------------------------------------------------------------------------------------------
# diag coded types, compu methods, DOPs
# ---------------------------------------------------------------------------------------------
def dct(d: Dict[str, Any], layer: str = "") -> str:
    k = d["k"]
    common = dict(BASE_DATA_TYPE=d["base"], BASE_TYPE_ENCODING=d.get("enc"), IS_HIGHLOW_BYTE_ORDER=d.get("hilo"))
    if k == "STD":
        mask = d.get("mask")
        return X("DIAG-CODED-TYPE", T("BIT-LENGTH", d["bits"]),
                 T("BIT-MASK", None if mask is None else format(mask, "X")),
                 xsi_type="STANDARD-LENGTH-TYPE", IS_CONDENSED=(True if d.get("condensed") else (False if d.get("condensed") is False else None)), **common)
    if k == "MINMAX":
        return X("DIAG-CODED-TYPE", T("MAX-LENGTH", d.get("max")), T("MIN-LENGTH", d["min"]),
                 xsi_type="MIN-MAX-LENGTH-TYPE", TERMINATION=d["term"], **common)
    if k == "LEAD":
        return X("DIAG-CODED-TYPE", T("BIT-LENGTH", d["bits"]), xsi_type="LEADING-LENGTH-INFO-TYPE", **common)
    if k == "PLEN":
        return X("DIAG-CODED-TYPE", X("LENGTH-KEY-REF", ID_REF=d["key_id"]), xsi_type="PARAM-LENGTH-INFO-TYPE", **common)
    raise ValueError(k)


def limit(tag: str, lim: Any) -> str:
    """lim: None | value | {"v":value|None, "type":"OPEN"|"CLOSED"|"INFINITE"|None}"""
    if lim is None:
        return ""
    if isinstance(lim, dict):
        v = lim.get("v")
        return X(tag, escape(val(v)) if v is not None else "", INTERVAL_TYPE=lim.get("type")) if (v is not None or lim.get("type")) else ""
    return T(tag, lim)


def vvt(tag: str, v: Any) -> str:
    if v is None:
        return ""
    return X(tag, T("VT", v) if isinstance(v, str) else T("V", v))


def scale(s: Dict[str, Any]) -> str:
    coeffs = ""
    if "num" in s:
        coeffs = X("COMPU-RATIONAL-COEFFS", X("COMPU-NUMERATOR", *[T("V", c) for c in s["num"]]),
                   X("COMPU-DENOMINATOR", *[T("V", c) for c in s["den"]]) if s.get("den") is not None else "")
    return X("COMPU-SCALE", T("SHORT-LABEL", s.get("label")), limit("LOWER-LIMIT", s.get("lo")), limit("UPPER-LIMIT", s.get("hi")),
             vvt("COMPU-INVERSE-VALUE", s.get("inv")), vvt("COMPU-CONST", s.get("const")), coeffs)


def compu_method(cm: Dict[str, Any]) -> str:
    cat = cm["cat"]
    parts = [T("CATEGORY", cat)]
    i2p = cm.get("i2p")
    if i2p is not None or cm.get("default_phys") is not None or cm.get("progcode"):
        dv = ""
        if cm.get("default_phys") is not None or cm.get("default_inv") is not None:
            dv = X("COMPU-DEFAULT-VALUE", (T("VT", cm["default_phys"]) if isinstance(cm.get("default_phys"), str) else T("V", cm.get("default_phys"))),
                   vvt("COMPU-INVERSE-VALUE", cm.get("default_inv")))
        pc = ""
        if cm.get("progcode"):
            pc = X("PROG-CODE", T("CODE-FILE", "code.java"), T("SYNTAX", "JAVA"), T("REVISION", "1.0"))
        parts.append(X("COMPU-INTERNAL-TO-PHYS", X("COMPU-SCALES", *[scale(s) for s in (i2p or [])]) if i2p else "", pc, dv))
    p2i = cm.get("p2i")
    if p2i is not None:
        parts.append(X("COMPU-PHYS-TO-INTERNAL", X("COMPU-SCALES", *[scale(s) for s in p2i])))
    return X("COMPU-METHOD", *parts)


IDENTICAL = {"cat": "IDENTICAL"}


def phys_type(p: Any) -> str:
    if isinstance(p, dict):
        return X("PHYSICAL-TYPE", T("PRECISION", p.get("precision")), BASE_DATA_TYPE=p["base"], DISPLAY_RADIX=p.get("radix"))
    return X("PHYSICAL-TYPE", BASE_DATA_TYPE=p)


def constr(tag: str, c: Optional[Dict[str, Any]]) -> str:
    if not c:
        return ""
    return X(tag, limit("LOWER-LIMIT", c.get("lo")), limit("UPPER-LIMIT", c.get("hi")),
             X("SCALE-CONSTRS", *[X("SCALE-CONSTR", T("SHORT-LABEL", s.get("label")), limit("LOWER-LIMIT", s.get("lo")),
                                    limit("UPPER-LIMIT", s.get("hi")), VALIDITY=s["validity"]) for s in c.get("scales", [])])
             if c.get("scales") else "")


def ref(tag: str, layer: str, name: Optional[str], snref: bool = False, docref: Optional[str] = None,
        doctype: Optional[str] = None) -> str:
    if name is None:
        return ""
    if snref:
        return X(tag.replace("-REF", "-SNREF"), SHORT_NAME=name)
    return X(tag, ID_REF=oid(layer, name), DOCREF=docref, DOCTYPE=doctype)


def oid(layer: str, name: str) -> str:
    return name if name.startswith("=") and False else f"{layer}.{name}"


def dop_any(d: Dict[str, Any], layer: str) -> (str, str):
    """-> (collection tag, xml)"""
    k = d.get("kind", "dop")
    nm = names(d["name"], d.get("long_name"), d.get("desc"))
    i = oid(layer, d["name"])
    if k == "dop":
        return "DATA-OBJECT-PROPS", X("DATA-OBJECT-PROP", nm, compu_method(d.get("cm", IDENTICAL)), dct(d["dct"], layer),
                                      phys_type(d.get("phys", d["dct"]["base"])), constr("INTERNAL-CONSTR", d.get("internal_constr")),
                                      ref("UNIT-REF", layer, d.get("unit")), constr("PHYS-CONSTR", d.get("phys_constr")), ID=i)
    if k == "dtcdop":
        dtcs = [X("DTC", names(t["name"]), T("TROUBLE-CODE", t["code"]), T("DISPLAY-TROUBLE-CODE", t.get("display", "P%04X" % t["code"])),
                  T("TEXT", t.get("text", "dtc " + t["name"])), T("LEVEL", t.get("level")),
                  X("SDGS", X("SDG", X("SDG-CAPTION-REF", ID_REF=t["sdg_caption_ref"]))) if t.get("sdg_caption_ref") else "",
                  ID=oid(layer, "DTC." + t["name"]))
                for t in d["dtcs"]]
        linked = [X("LINKED-DTC-DOP", X("NOT-INHERITED-DTC-SNREFS", *[X("NOT-INHERITED-DTC-SNREF", SHORT_NAME=n) for n in ln.get("not_inherited", [])])
                    if ln.get("not_inherited") else "", X("DTC-DOP-REF", ID_REF=oid(layer, ln["dop"]))) for ln in d.get("linked", [])]
        dtcs += [X("DTC-REF", ID_REF=r) for r in d.get("dtc_refs", [])]  # (references to DTCs defined elsewhere)
        return "DTC-DOPS", X("DTC-DOP", nm, dct(d["dct"], layer), phys_type(d.get("phys", "A_UINT32")),
                             compu_method(d.get("cm", IDENTICAL)), X("DTCS", *dtcs), X("LINKED-DTC-DOPS", *linked) if linked else "", ID=i)
    if k == "struct":
        return "STRUCTURES", X("STRUCTURE", nm, T("BYTE-SIZE", d.get("byte_size")),
                               X("PARAMS", *[param(p, layer, d["name"]) for p in d["params"]]), ID=i)
    if k == "envdata":
        allv = X("ALL-VALUE") if d.get("all") else ""
        dv = X("DTC-VALUES", *[T("DTC-VALUE", c) for c in d.get("dtcs", [])]) if d.get("dtcs") else ""
        return "ENV-DATAS", X("ENV-DATA", nm, X("PARAMS", *[param(p, layer, d["name"]) for p in d["params"]]), allv, dv, ID=i)
    if k == "envdesc":
        return "ENV-DATA-DESCS", X("ENV-DATA-DESC", nm, X("PARAM-SNREF", SHORT_NAME=d["param"]),
                                   X("ENV-DATA-REFS", *[ref("ENV-DATA-REF", layer, e) for e in d["envdatas"]]), ID=i)
    sref = ""
    if k in ("sfield", "dlfield", "eopfield", "emfield"):
        if d.get("of_env"):
            sref = ref("ENV-DATA-DESC-REF", layer, d["of_env"], d.get("snref", False))
        else:
            sref = ref("BASIC-STRUCTURE-REF", layer, d["of"], d.get("snref", False))
    if k == "sfield":
        return "STATIC-FIELDS", X("STATIC-FIELD", nm, sref, T("FIXED-NUMBER-OF-ITEMS", d["n"]), T("ITEM-BYTE-SIZE", d["item_size"]), ID=i)
    if k == "dlfield":
        c = d["count"]
        return "DYNAMIC-LENGTH-FIELDS", X("DYNAMIC-LENGTH-FIELD", nm, sref, T("OFFSET", d["offset"]),
                                          X("DETERMINE-NUMBER-OF-ITEMS", T("BYTE-POSITION", c.get("byte", 0)), T("BIT-POSITION", c.get("bit")),
                                            ref("DATA-OBJECT-PROP-REF", layer, c["dop"])), ID=i)
    if k == "eopfield":
        return "END-OF-PDU-FIELDS", X("END-OF-PDU-FIELD", nm, sref, T("MAX-NUMBER-OF-ITEMS", d.get("max")),
                                      T("MIN-NUMBER-OF-ITEMS", d.get("min")), ID=i)
    if k == "emfield":
        return "DYNAMIC-ENDMARKER-FIELDS", X("DYNAMIC-ENDMARKER-FIELD", nm, sref,
                                             X("DATA-OBJECT-PROP-REF", T("TERMINATION-VALUE", d["term"]), ID_REF=oid(layer, d["end_dop"])), ID=i)
    if k == "mux":
        key = d["key"]
        cases = []
        for c in d["cases"]:
            cases.append(X("CASE", names(c["name"]), ref("STRUCTURE-REF", layer, c.get("struct"), c.get("snref", False)),
                           limit("LOWER-LIMIT", c["lo"]), limit("UPPER-LIMIT", c["hi"])))
        dflt = ""
        if d.get("default"):
            dc = d["default"]
            dflt = X("DEFAULT-CASE", names(dc["name"]), ref("STRUCTURE-REF", layer, dc.get("struct"), dc.get("snref", False)))
        return "MUXS", X("MUX", nm, T("BYTE-POSITION", d.get("byte", 0)),
                         X("SWITCH-KEY", T("BYTE-POSITION", key.get("byte", 0)), T("BIT-POSITION", key.get("bit")),
                           ref("DATA-OBJECT-PROP-REF", layer, key["dop"])), dflt, X("CASES", *cases) if cases else "", ID=i)
    if k == "table":
        rows = []
        for r in d["rows"]:
            rows.append(X("TABLE-ROW", names(r["name"]), T("KEY", r["key"]),
                          ref("STRUCTURE-REF", layer, r.get("struct"), r.get("snref", False)),
                          ref("DATA-OBJECT-PROP-REF", layer, r.get("dop"), r.get("snref", False)), ID=oid(layer, d["name"] + "." + r["name"])))
        return "TABLES", X("TABLE", nm, T("KEY-LABEL", d.get("key_label")), T("STRUCT-LABEL", d.get("struct_label")),
                           ref("KEY-DOP-REF", layer, d["key_dop"]), *rows, ID=i, SEMANTIC=d.get("semantic"))
    raise ValueError(k)


# ---------------------------------------------------------------------------------------------
# parameters
# ---------------------------------------------------------------------------------------------
def param(p: Dict[str, Any], layer: str, owner: str) -> str:
    t = p["t"]
    head = names(p["name"], p.get("long_name"), p.get("desc")) + T("BYTE-POSITION", p.get("byte")) + T("BIT-POSITION", p.get("bit"))
    attrs = dict(xsi_type=t, SEMANTIC=p.get("semantic"), OID=p.get("oid"))
    dopref = ""
    if "dop" in p:
        dopref = ref("DOP-REF", layer, p["dop"], p.get("snref", False), p.get("docref"), p.get("doctype"))
    if t == "VALUE":
        return X("PARAM", head, T("PHYSICAL-DEFAULT-VALUE", p.get("default")), dopref, **attrs)
    if t == "PHYS-CONST":
        return X("PARAM", head, T("PHYS-CONSTANT-VALUE", p["const"]), dopref, **attrs)
    if t == "SYSTEM":
        return X("PARAM", head, dopref, SYSPARAM=p["sysparam"], **attrs)
    if t == "CODED-CONST":
        return X("PARAM", head, T("CODED-VALUE", p["value"]), dct(p["dct"], layer), **attrs)
    if t == "NRC-CONST":
        return X("PARAM", head, X("CODED-VALUES", *[T("CODED-VALUE", v) for v in p["values"]]), dct(p["dct"], layer), **attrs)
    if t == "RESERVED":
        return X("PARAM", head, T("BIT-LENGTH", p["bits"]), **attrs)
    if t == "MATCHING-REQUEST-PARAM":
        return X("PARAM", head, T("REQUEST-BYTE-POS", p["rq_byte"]), T("BYTE-LENGTH", p["len"]), **attrs)
    if t == "LENGTH-KEY":
        return X("PARAM", head, dopref, ID=p["id"], **attrs)
    if t == "TABLE-KEY":
        tref = ref("TABLE-REF", layer, p.get("table"), p.get("snref", False)) if p.get("row") is None else ""
        rref = X("TABLE-ROW-REF", ID_REF=oid(layer, p["table"] + "." + p["row"])) if p.get("row") is not None else ""
        return X("PARAM", head, tref, rref, ID=p["id"], **attrs)
    if t == "TABLE-STRUCT":
        if p.get("key_snref"):
            kref = X("TABLE-KEY-SNREF", SHORT_NAME=p["key"])
        else:
            kref = X("TABLE-KEY-REF", ID_REF=p["key_id"])
        return X("PARAM", head, kref, **attrs)
    if t == "TABLE-ENTRY":
        return X("PARAM", head, T("TARGET", p.get("target", "KEY")), X("TABLE-ROW-REF", ID_REF=oid(layer, p["table"] + "." + p["row"])), **attrs)
    if t == "DYNAMIC":
        return X("PARAM", head, **attrs)
    raise ValueError(t)


def message(m: Dict[str, Any], layer: str) -> str:
    tag = m["kind"]
    return X(tag, names(m["name"], m.get("long_name"), m.get("desc")), X("PARAMS", *[param(p, layer, m["name"]) for p in m["params"]]),
             ID=oid(layer, m["name"]), **({"RESPONSE_TYPE": m["rtype"]} if m.get("rtype") else {}))


def service(s: Dict[str, Any], layer: str) -> str:
    if s.get("ref"):
        return X("DIAG-COMM-REF", ID_REF=s["ref"], DOCREF=s.get("docref"), DOCTYPE=s.get("doctype"))
    if s.get("job"):
        return X("SINGLE-ECU-JOB", names(s["name"], s.get("long_name")),
                 X("FUNCT-CLASS-REFS", *[ref("FUNCT-CLASS-REF", layer, f) for f in s.get("funct_classes", [])]) if s.get("funct_classes") else "",
                 X("PROG-CODES", X("PROG-CODE", T("CODE-FILE", "job.jar"), T("SYNTAX", "JAR"), T("REVISION", "1"))),
                 ID=oid(layer, s["name"]))
    return X("DIAG-SERVICE", names(s["name"], s.get("long_name"), s.get("desc")),
             X("FUNCT-CLASS-REFS", *[ref("FUNCT-CLASS-REF", layer, f) for f in s.get("funct_classes", [])]) if s.get("funct_classes") else "",
             s.get("audience_xml", ""),
             ref("REQUEST-REF", layer, s.get("request")),
             X("POS-RESPONSE-REFS", *[ref("POS-RESPONSE-REF", layer, r) for r in s.get("pos", [])]) if s.get("pos") else "",
             X("NEG-RESPONSE-REFS", *[ref("NEG-RESPONSE-REF", layer, r) for r in s.get("neg", [])]) if s.get("neg") else "",
             ID=oid(layer, s["name"]), SEMANTIC=s.get("semantic"), ADDRESSING=s.get("addressing"),
             TRANSMISSION_MODE=s.get("transmission_mode"))


# ---------------------------------------------------------------------------------------------
# layers, containers, database
# ---------------------------------------------------------------------------------------------
LAYER_TAG = {"PROTOCOL": ("PROTOCOLS", "PROTOCOL", "PROTOCOL-REF"),
             "FUNCTIONAL-GROUP": ("FUNCTIONAL-GROUPS", "FUNCTIONAL-GROUP", "FUNCTIONAL-GROUP-REF"),
             "BASE-VARIANT": ("BASE-VARIANTS", "BASE-VARIANT", "BASE-VARIANT-REF"),
             "ECU-VARIANT": ("ECU-VARIANTS", "ECU-VARIANT", "ECU-VARIANT-REF"),
             "ECU-SHARED-DATA": ("ECU-SHARED-DATAS", "ECU-SHARED-DATA", "ECU-SHARED-DATA-REF")}
DDDS_ORDER = ["DTC-DOPS", "ENV-DATA-DESCS", "DATA-OBJECT-PROPS", "STRUCTURES", "STATIC-FIELDS", "DYNAMIC-LENGTH-FIELDS",
              "DYNAMIC-ENDMARKER-FIELDS", "END-OF-PDU-FIELDS", "MUXS", "ENV-DATAS", "UNIT-SPEC", "TABLES"]


def parent_ref(pr: Dict[str, Any], layer_types: Dict[str, str]) -> str:
    ni = pr.get("not_inherited", {})
    parts = []
    if ni.get("comms"):
        parts.append(X("NOT-INHERITED-DIAG-COMMS", *[X("NOT-INHERITED-DIAG-COMM", X("DIAG-COMM-SNREF", SHORT_NAME=n)) for n in ni["comms"]]))
    if ni.get("vars"):
        parts.append(X("NOT-INHERITED-VARIABLES", *[X("NOT-INHERITED-VARIABLE", X("DIAG-VARIABLE-SNREF", SHORT_NAME=n)) for n in ni["vars"]]))
    if ni.get("dops"):
        parts.append(X("NOT-INHERITED-DOPS", *[X("NOT-INHERITED-DOP", X("DOP-BASE-SNREF", SHORT_NAME=n)) for n in ni["dops"]]))
    if ni.get("tables"):
        parts.append(X("NOT-INHERITED-TABLES", *[X("NOT-INHERITED-TABLE", X("TABLE-SNREF", SHORT_NAME=n)) for n in ni["tables"]]))
    if ni.get("gnrs"):
        parts.append(X("NOT-INHERITED-GLOBAL-NEG-RESPONSES", *[X("NOT-INHERITED-GLOBAL-NEG-RESPONSE", X("GLOBAL-NEG-RESPONSE-SNREF", SHORT_NAME=n)) for n in ni["gnrs"]]))
    return X("PARENT-REF", *parts, ID_REF=pr.get("id", pr["layer"]), DOCREF=pr.get("docref"), DOCTYPE=pr.get("doctype"),
             xsi_type=LAYER_TAG[layer_types[pr["layer"]]][2])


def layer(l: Dict[str, Any], layer_types: Dict[str, str]) -> str:
    name = l["name"]
    lid = l.get("id", name)
    group: Dict[str, List[str]] = {}
    for d in l.get("dops", []):
        tag, xml = dop_any(d, name)
        group.setdefault(tag, []).append(xml)
    if l.get("unit_spec_xml"):
        group["UNIT-SPEC"] = [l["unit_spec_xml"]]
    ddds = ""
    if group:
        inner = ""
        for tag in DDDS_ORDER:
            if tag in group:
                inner += group[tag][0] if tag == "UNIT-SPEC" else X(tag, *group[tag])
        ddds = X("DIAG-DATA-DICTIONARY-SPEC", inner)
    msgs = l.get("msgs", [])

    def coll(tag: str, kind: str) -> str:
        xs = [message(m, name) for m in msgs if m["kind"] == kind]
        return X(tag, *xs) if xs else ""

    fcs = X("FUNCT-CLASSS", *[X("FUNCT-CLASS", names(f if isinstance(f, str) else f["name"], None if isinstance(f, str) else f.get("long_name")),
                                ID=oid(name, f if isinstance(f, str) else f["name"])) for f in l.get("funct_classes", [])]) if l.get("funct_classes") else ""
    svcs = X("DIAG-COMMS", *[service(s, name) for s in l.get("svcs", [])]) if l.get("svcs") else ""
    imports = X("IMPORT-REFS", *[X("IMPORT-REF", ID_REF=i if isinstance(i, str) else i["id"], DOCREF=None if isinstance(i, str) else i.get("docref"),
                                   DOCTYPE=None if isinstance(i, str) else i.get("doctype")) for i in l.get("imports", [])]) if l.get("imports") else ""
    comparams = X("COMPARAM-REFS", *[comparam_ref(c) for c in l.get("comparams", [])]) if l.get("comparams") else ""
    prefs = X("PARENT-REFS", *[parent_ref(p, layer_types) for p in l.get("parents", [])]) if l.get("parents") else ""
    typ = l["type"]
    extra_head = ""
    tail = ""
    if typ == "PROTOCOL":
        tail = X("COMPARAM-SPEC-REF", ID_REF=l["comparam_spec"], DOCREF=l.get("comparam_spec_doc", l["comparam_spec"]), DOCTYPE="COMPARAM-SPEC") + \
            (X("PROT-STACK-SNREF", SHORT_NAME=l["prot_stack"]) if l.get("prot_stack") else "") + prefs
    elif typ == "ECU-SHARED-DATA":
        tail = ""
    else:
        tail = prefs
    body = (names(name if "short_name" not in l else l["short_name"], l.get("long_name"), l.get("desc")) + extra_head + l.get("head_xml", "") + fcs + ddds + svcs +
            coll("REQUESTS", "REQUEST") + coll("POS-RESPONSES", "POS-RESPONSE") + coll("NEG-RESPONSES", "NEG-RESPONSE") +
            coll("GLOBAL-NEG-RESPONSES", "GLOBAL-NEG-RESPONSE") + imports + l.get("mid_xml", "") + comparams + l.get("pre_tail_xml", ""))
    if typ in ("BASE-VARIANT", "ECU-VARIANT"):
        body += l.get("variant_xml", "")
    body += tail + l.get("tail_xml", "")
    return X(LAYER_TAG[typ][1], body, ID=lid)


def comparam_ref(c: Dict[str, Any]) -> str:
    v = ""
    if "value" in c and c["value"] is not None:
        v = T("SIMPLE-VALUE", c["value"])
    elif "complex" in c and c["complex"] is not None:
        v = complex_value(c["complex"])
    return X("COMPARAM-REF", v, T("DESC", None), X("PROTOCOL-SNREF", SHORT_NAME=c["protocol"]) if c.get("protocol") else "",
             X("PROT-STACK-SNREF", SHORT_NAME=c["prot_stack"]) if c.get("prot_stack") else "",
             ID_REF=c["id"], DOCREF=c["docref"], DOCTYPE=c.get("doctype", "COMPARAM-SUBSET"))


def complex_value(vals: List[Any]) -> str:
    return X("COMPLEX-VALUE", *[(complex_value(v) if isinstance(v, list) else (X("SIMPLE-VALUE") if v is None else T("SIMPLE-VALUE", v))) for v in vals]) or "<COMPLEX-VALUE/>"


def container(c: Dict[str, Any]) -> str:
    layer_types = dict(c.get("foreign_layer_types", {}))
    for l in c["layers"]:
        layer_types[l["name"]] = l["type"]
        layer_types[l.get("id", l["name"])] = l["type"]
    groups: Dict[str, List[str]] = {}
    for l in c["layers"]:
        groups.setdefault(LAYER_TAG[l["type"]][0], []).append(layer(l, layer_types))
    inner = names(c["name"], c.get("long_name")) + c.get("head_xml", "")
    for tag in ("PROTOCOLS", "FUNCTIONAL-GROUPS", "ECU-SHARED-DATAS", "BASE-VARIANTS", "ECU-VARIANTS"):
        if tag in groups:
            inner += X(tag, *groups[tag])
    return ('<?xml version="1.0" encoding="UTF-8" standalone="no" ?>\n<ODX MODEL-VERSION="2.2.0" ' + XSI + ">" +
            X("DIAG-LAYER-CONTAINER", inner, ID=c.get("id", c["name"])) + "</ODX>")


def comparam_subset(cs: Dict[str, Any]) -> str:
    """cs: {name, category, comparams:[{name, id?, cptype, param_class, usage, dop, default}],
            complex:[{name, subs:[{name, dop, default}|{complex...}], allow_multiple?}], dops:[dop specs]}"""
    name = cs["name"]
    dops = [dop_any(d, name)[1] for d in cs.get("dops", [])]

    def cp(c: Dict[str, Any]) -> str:
        attrs = dict(ID=c.get("id", oid(name, c["name"])), PARAM_CLASS=c.get("param_class", "COM"), CPTYPE=c.get("cptype", "STANDARD"),
                     CPUSAGE=c.get("usage", "TESTER"), DISPLAY_LEVEL=c.get("display_level"))
        if "subs" in c:
            return X("COMPLEX-COMPARAM", names(c["name"], c.get("long_name")), *[cp(s) for s in c["subs"]],
                     X("COMPLEX-PHYSICAL-DEFAULT-VALUE", X("COMPLEX-VALUES", *[complex_value(v) for v in c["default_complex"]])) if c.get("default_complex") else "",
                     ALLOW_MULTIPLE_VALUES=c.get("allow_multiple"), **attrs)
        return X("COMPARAM", names(c["name"], c.get("long_name")), T("PHYSICAL-DEFAULT-VALUE", c.get("default")),
                 X("DATA-OBJECT-PROP-REF", ID_REF=oid(name, c["dop"])), **attrs)

    inner = names(name, cs.get("long_name")) + \
        (X("COMPARAMS", *[cp(c) for c in cs.get("comparams", [])]) if cs.get("comparams") else "") + \
        (X("COMPLEX-COMPARAMS", *[cp(c) for c in cs.get("complex", [])]) if cs.get("complex") else "") + \
        (X("DATA-OBJECT-PROPS", *dops) if dops else "") + cs.get("tail_xml", "")
    return ('<?xml version="1.0" encoding="UTF-8" standalone="no" ?>\n<ODX MODEL-VERSION="2.2.0" ' + XSI + ">" +
            X("COMPARAM-SUBSET", inner, ID=cs.get("id", name), CATEGORY=cs.get("category", "APPLICATION")) + "</ODX>")


def comparam_spec(s: Dict[str, Any]) -> str:
    """s: {name, prot_stacks:[{name, pdu_protocol_type, physical_link_type, subsets:[(id, docref)]}]}"""
    stacks = []
    for ps in s.get("prot_stacks", []):
        stacks.append(X("PROT-STACK", names(ps["name"]), T("PDU-PROTOCOL-TYPE", ps.get("pdu_protocol_type", "ISO_15765_3_on_ISO_15765_2")),
                        T("PHYSICAL-LINK-TYPE", ps.get("physical_link_type", "ISO_11898_2_DWCAN")),
                        X("COMPARAM-SUBSET-REFS", *[X("COMPARAM-SUBSET-REF", ID_REF=i, DOCREF=d, DOCTYPE="COMPARAM-SUBSET") for i, d in ps.get("subsets", [])]),
                        ID=oid(s["name"], ps["name"])))
    inner = names(s["name"]) + (X("PROT-STACKS", *stacks) if stacks else "")
    return ('<?xml version="1.0" encoding="UTF-8" standalone="no" ?>\n<ODX MODEL-VERSION="2.2.0" ' + XSI + ">" +
            X("COMPARAM-SPEC", inner, ID=s.get("id", s["name"])) + "</ODX>")


def db_files(db: Dict[str, Any]) -> Dict[str, str]:
    """db: {containers:[...], comparam_subsets:[...], comparam_specs:[...]} -> {filename: xml}"""
    out: Dict[str, str] = {}
    for c in db.get("containers", []):
        out[c["name"] + ".odx-d"] = container(c)
    for cs in db.get("comparam_subsets", []):
        out[cs["name"] + ".odx-cs"] = comparam_subset(cs)
    for s in db.get("comparam_specs", []):
        out[s["name"] + ".odx-c"] = comparam_spec(s)
    return out


def write_db(db: Dict[str, Any], directory: str) -> List[str]:
    os.makedirs(directory, exist_ok=True)
    paths = []
    for fn, xml in db_files(db).items():
        p = os.path.join(directory, fn)
        with open(p, "w", encoding="utf-8") as f:
            f.write(xml)
        paths.append(p)
    return paths


_SCRATCH: Optional[str] = None


def scratch_dir() -> str:
    """Per-process scratch directory (RAM-backed if possible), removed at interpreter exit."""
    global _SCRATCH
    if _SCRATCH is None or not os.path.isdir(_SCRATCH) or not _SCRATCH.endswith(str(os.getpid())):
        import atexit
        import shutil
        import tempfile
        base = "/dev/shm" if os.path.isdir("/dev/shm") and os.access("/dev/shm", os.W_OK) else None
        d = tempfile.mkdtemp(prefix="odxverif_", suffix="_" + str(os.getpid()), dir=base)
        _SCRATCH = d
        atexit.register(shutil.rmtree, d, True)
    return _SCRATCH


def cleanup_scratch() -> None:
    """Remove this process' scratch directory (pool workers are terminated without running atexit handlers)."""
    global _SCRATCH
    if _SCRATCH is not None and _SCRATCH.endswith("_" + str(os.getpid())):
        import shutil
        shutil.rmtree(_SCRATCH, ignore_errors=True)
    _SCRATCH = None


def load_db(db: Dict[str, Any]) -> Any:
    """Load a spec through the REAL odxtools loader: files are written and read via the public
    Database.add_odx_file() + refresh()."""
    from odxtools.database import Database
    d = Database()
    sd = scratch_dir()
    paths = write_db(db, sd)
    try:
        for p in paths:
            d.add_odx_file(p)
    finally:
        for p in paths:
            try:
                os.unlink(p)
            except OSError:
                pass
    d.refresh()
    return d
