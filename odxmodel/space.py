"""The shared codec state space (DESIGN.md section 4): generators of programs and value alphabets.

Layer A: atomic (one VALUE parameter, IDENTICAL compu method, one diag-coded type)
Layer B: compu (added when refcompu is available)
Layer C: composition (parameter sequences over a template alphabet)
Everything is a deterministic, finite enumeration; alphabets are ordered simplest first.
"""
from __future__ import annotations

import itertools
import struct
from typing import Any, Dict, Iterable, Iterator, List, Optional, Tuple

U8 = {"k": "STD", "base": "A_UINT32", "bits": 8}


def std(base: str, bits: int, enc: Optional[str] = None, hilo: Optional[bool] = None, **kw: Any) -> Dict[str, Any]:
    d: Dict[str, Any] = {"k": "STD", "base": base, "bits": bits}
    if enc is not None:
        d["enc"] = enc
    if hilo is not None:
        d["hilo"] = hilo
    d.update(kw)
    return d


def one_value_program(pid: str, dop: Dict[str, Any], byte: Optional[int], bit: Optional[int], values: List[Any],
                      tags: Tuple[str, ...], follower: bool = False) -> Dict[str, Any]:
    d = dict(dop)
    d["name"] = "d_" + pid
    p: Dict[str, Any] = {"t": "VALUE", "name": "v", "dop": d["name"]}
    if byte is not None:
        p["byte"] = byte
    if bit is not None:
        p["bit"] = bit
    params = [p]
    dops = [d]
    assign = [{"v": v} for v in values]
    if follower:
        dops.append({"name": "u8_" + pid, "dct": U8})
        params.append({"t": "VALUE", "name": "tail", "dop": "u8_" + pid})
        assign = [{"v": v, "tail": 0xA5} for v in values]
    return {"pid": pid, "dops": dops, "params": params, "assign": assign, "tags": list(tags)}


# ---------------------------------------------------------------------------------------------
# integer alphabets
# ---------------------------------------------------------------------------------------------
INT_KINDS: List[Tuple[str, Optional[str]]] = [("A_UINT32", None), ("A_UINT32", "BCD-P"), ("A_UINT32", "BCD-UP"),
                                              ("A_INT32", None), ("A_INT32", "2C"), ("A_INT32", "1C"), ("A_INT32", "SM")]
ORDERS: List[Optional[bool]] = [True, False, None]


def int_candidates(base: str, enc: Optional[str], n: int, all_upto: int, wide: bool = False) -> List[int]:
    """Candidate internal values: ALL values of the n-bit domain (and a margin outside it when `wide`) for
    n <= all_upto, else the boundary set.  The reference decides which are representable."""
    if n <= all_upto:
        lo = -(1 << n) if (base == "A_INT32" or wide) else 0
        hi = (1 << (n + 1 if wide else n))
        if enc in ("BCD-P", "BCD-UP") and not wide:
            hi = min(hi, 10 ** ((n + 3) // 4))
        return list(range(lo, hi + (2 if wide else 0)))
    s = {0, 1, 2, 9, 10, 99, 100, (1 << (n - 1)) - 1, 1 << (n - 1), (1 << n) - 2, (1 << n) - 1,
         int("55" * 8, 16) & ((1 << n) - 1), int("AA" * 8, 16) & ((1 << n) - 1), 10 ** (n // 4) - 1, 10 ** (n // 8) - 1}
    if wide:
        s |= {1 << n, (1 << n) + 1, 1 << 64, (1 << 64) - 1}
    if base == "A_INT32" or wide:
        s |= {-x for x in s} | {-(1 << (n - 1)), -(1 << (n - 1)) - 1, -(1 << n)}
    return sorted(s, key=lambda x: (abs(x), x))


def layer_a_int_units(quick: bool, wide: bool = False) -> List[Tuple[str, List[Dict[str, Any]]]]:
    all_upto = 8 if quick else 12
    lengths = [1, 2, 3, 4, 5, 7, 8, 9, 11, 12, 15, 16, 17, 24, 31, 32, 33, 63, 64] if quick else list(range(1, 65))
    bits = [0, 3, 7] if quick else list(range(8))
    units = []
    for (base, enc), order in itertools.product(INT_KINDS, ORDERS):
        progs = []
        for n in lengths:
            vals = int_candidates(base, enc, n, all_upto, wide)
            for bit in bits:
                for byte in (None, 1):
                    if byte == 1 and (n % 4 or bit not in (0, 3)) and quick:
                        continue
                    pid = f"i_{base[2]}{(enc or 'x').replace('-', '')}_{ {True: 'h', False: 'l', None: 'n'}[order]}_{n}_{bit}_{'a' if byte is None else byte}"
                    progs.append(one_value_program(pid, {"dct": std(base, n, enc, order)}, byte, bit, vals,
                                                   ("int", base, enc or "-", f"n{n}", f"bit{bit}")))
        # split into chunks to balance the pool
        chunk = 200
        for c in range(0, len(progs), chunk):
            units.append((f"A/int/{base}/{enc}/{order}/{c // chunk}", progs[c:c + chunk]))
    return units


MASKS = [0x0F, 0xF0, 0x3C, 0xFF00, 0x0FF0, 0x8001]


def layer_a_mask_units(quick: bool) -> List[Tuple[str, List[Dict[str, Any]]]]:
    progs = []
    for base in ("A_UINT32", "A_INT32", "A_BYTEFIELD"):
        for n in (8, 16, 24):
            for mask in MASKS:
                if mask >> n:
                    continue
                for order in (True, False):
                    if base == "A_BYTEFIELD" and order is False:
                        continue
                    pid = f"m_{base[2]}_{n}_{mask:X}_{'h' if order else 'l'}"
                    # in-mask values only (out-of-mask values are ANDed away by the standard; C02 envelope)
                    bitsset = [i for i in range(n) if mask >> i & 1]
                    vals_i = []
                    for combo in range(1 << min(len(bitsset), 8)):
                        v = 0
                        for j, b in enumerate(bitsset[:8]):
                            if combo >> j & 1:
                                v |= 1 << b
                        vals_i.append(v)
                    if base == "A_INT32":
                        vals_i = [v for v in vals_i if v < (1 << (n - 1))]
                    vals: List[Any] = vals_i
                    if base == "A_BYTEFIELD":
                        vals = [v.to_bytes(n // 8, "big") for v in vals_i]
                    progs.append(one_value_program(pid, {"dct": std(base, n, None, order, mask=mask)}, None, None, vals,
                                                   ("mask", base, f"n{n}")))
    return [("A/mask", progs)]


def f32(x: float) -> float:
    return struct.unpack(">f", struct.pack(">f", x))[0]


FLOATS32 = [0.0, 1.0, -1.0, 1.5, -1.5, 0.5, 2.0, 255.0, 1e10, f32(3.4028234663852886e38), f32(1.1754943508222875e-38),
            f32(1.401298464324817e-45), -f32(1.401298464324817e-45), 65536.0, -0.0, float("inf"), float("-inf"), f32(0.1), 3.0]
FLOATS64 = FLOATS32 + [0.1, 1e300, 2.2250738585072014e-308, 5e-324, 1.7976931348623157e308, -1e-300]


def layer_a_float_units(quick: bool) -> List[Tuple[str, List[Dict[str, Any]]]]:
    progs = []
    for base, vals in (("A_FLOAT32", FLOATS32), ("A_FLOAT64", FLOATS64)):
        for order in ORDERS:
            for byte in (None, 1):
                pid = f"f_{base[-2:]}_{ {True: 'h', False: 'l', None: 'n'}[order]}_{'a' if byte is None else byte}"
                progs.append(one_value_program(pid, {"dct": std(base, 32 if base == "A_FLOAT32" else 64, None, order)}, byte, None,
                                               list(vals), ("float", base)))
    return [("A/float", progs)]


STR_KINDS: List[Tuple[str, Optional[str], str]] = [
    ("A_BYTEFIELD", None, "bytes"), ("A_ASCIISTRING", None, "latin"), ("A_ASCIISTRING", "ISO-8859-1", "latin"),
    ("A_ASCIISTRING", "ISO-8859-2", "latin2"), ("A_ASCIISTRING", "WINDOWS-1252", "cp1252"),
    ("A_UTF8STRING", None, "utf8"), ("A_UTF8STRING", "UTF-8", "utf8"), ("A_UNICODE2STRING", None, "ucs2"),
    ("A_UNICODE2STRING", "UCS-2", "ucs2")]
SYMS = {"bytes": [b"\x00", b"\x41", b"\xff"], "latin": ["A", "z", "\xe9"], "latin2": ["A", "z", "Ł"],
        "cp1252": ["A", "z", "€"], "utf8": ["A", "\xe9", "€"], "ucs2": ["A", "\xe9", "€"]}


def strings_of_bytelen(kind: str, nbytes: int, enc_len: Any) -> List[Any]:
    """all strings over the 3-symbol alphabet whose encoding has exactly nbytes bytes"""
    syms = SYMS[kind]
    out: List[Any] = []
    empty: Any = b"" if kind == "bytes" else ""

    def rec(cur: Any, used: int) -> None:
        if used == nbytes:
            out.append(cur)
            return
        for s in syms:
            l = enc_len(s)
            if used + l <= nbytes:
                rec(cur + s, used + l)

    rec(empty, 0)
    return out


def enc_len_fn(base: str, enc: Optional[str]) -> Any:
    from .refodx import str_codec
    if base == "A_BYTEFIELD":
        return lambda s: len(s)
    codec = str_codec(base, enc, True)
    return lambda s: len(s.encode(codec))


def layer_a_string_units(quick: bool) -> List[Tuple[str, List[Dict[str, Any]]]]:
    progs = []
    for base, enc, kind in STR_KINDS:
        for order in ORDERS:
            for nbits in (8, 16, 24, 32):
                if base == "A_UNICODE2STRING" and nbits % 16:
                    continue
                vals = strings_of_bytelen(kind, nbits // 8, enc_len_fn(base, enc))
                if not vals:
                    continue
                for byte in (None, 1):
                    pid = f"s_{base[2:5]}{(enc or 'x')[:3].replace('-', '')}{(enc or 'x')[-1]}_{ {True: 'h', False: 'l', None: 'n'}[order]}_{nbits}_{'a' if byte is None else byte}"
                    progs.append(one_value_program(pid, {"dct": std(base, nbits, enc, order)}, byte, None, vals, ("string", base, enc or "-")))
    return [("A/string", progs)]


def payloads_upto(kind: str, maxbytes: int, enc_len: Any) -> List[Any]:
    out: List[Any] = []
    for n in range(0, maxbytes + 1):
        out.extend(strings_of_bytelen(kind, n, enc_len))
    return out


def layer_a_minmax_units(quick: bool) -> List[Tuple[str, List[Dict[str, Any]]]]:
    progs = []
    kinds = [("A_BYTEFIELD", None, "bytes"), ("A_ASCIISTRING", None, "latin"), ("A_UTF8STRING", None, "utf8"),
             ("A_UNICODE2STRING", None, "ucs2")]
    syms_override = {"bytes": [b"\x00", b"\x41", b"\xff"], "latin": ["\x00", "A", "\xff"], "utf8": ["\x00", "A", "\xe9"],
                     "ucs2": ["\x00", "A", "\uffff"]}
    for base, enc, kind in kinds:
        SYMS_backup = SYMS[kind]
        SYMS[kind] = syms_override[kind]
        try:
            for term in ("ZERO", "HEX-FF", "END-OF-PDU"):
                for (mn, mx) in ((0, None), (0, 2), (1, 3), (2, 2), (2, 4)):
                    if base == "A_UNICODE2STRING" and (mn % 2 or (mx or 0) % 2):
                        continue  # MIN-/MAX-LENGTH count bytes; odd values make no sense for 16-bit characters
                    unit_b = 2 if base == "A_UNICODE2STRING" else 1
                    top = (mx if mx is not None else 3) + 1
                    vals = payloads_upto(kind, top * 1 if unit_b == 1 else min(top, 4), enc_len_fn(base, enc))
                    for follower in (False, True):
                        if term == "END-OF-PDU" and follower:
                            continue
                        for order in ((True, False) if base == "A_UNICODE2STRING" else (None,)):
                            pid = f"mm_{base[2:5]}_{term[:2]}_{mn}_{mx}_{'f' if follower else 'l'}_{ {True: 'h', False: 'l', None: 'n'}[order]}"
                            dct = {"k": "MINMAX", "base": base, "min": mn, "max": mx, "term": term}
                            if order is not None:
                                dct["hilo"] = order
                            progs.append(one_value_program(pid, {"dct": dct}, None, None, vals, ("minmax", base, term), follower=follower))
        finally:
            SYMS[kind] = SYMS_backup
    return [("A/minmax", progs)]


def layer_a_lead_units(quick: bool) -> List[Tuple[str, List[Dict[str, Any]]]]:
    progs = []
    kinds = [("A_BYTEFIELD", "bytes"), ("A_ASCIISTRING", "latin"), ("A_UTF8STRING", "utf8"), ("A_UNICODE2STRING", "ucs2")]
    for base, kind in kinds:
        for (lbits, bit) in ((4, 0), (4, 4), (8, 0), (16, 0), (12, 2)):
            for order in (True, False):
                vals = payloads_upto(kind, 4 if base != "A_UNICODE2STRING" else 4, enc_len_fn(base, None))
                # a long payload to cross 4-bit limits is C04's business; one 15-byte payload here
                long15: Any = (b"\x41" * 15) if kind == "bytes" else ("A" * 15 if kind != "ucs2" else "A" * 7)
                vals = vals + [long15]
                for follower in (False, True):
                    pid = f"ll_{base[2:5]}_{lbits}_{bit}_{'h' if order else 'l'}_{'f' if follower else 'l'}"
                    dct = {"k": "LEAD", "base": base, "bits": lbits, "hilo": order}
                    progs.append(one_value_program(pid, {"dct": dct}, None, bit or None, vals, ("lead", base, f"l{lbits}"), follower=follower))
    return [("A/lead", progs)]


def layer_a_plen_units(quick: bool) -> List[Tuple[str, List[Dict[str, Any]]]]:
    """LENGTH-KEY declared before its dependant in parameter order; placed before or after it by byte position."""
    progs = []
    kinds: List[Tuple[str, Optional[str], List[Any]]] = [
        ("A_UINT32", None, [0, 1, 255, 256, 65535, 70000, 1 << 31]),
        ("A_INT32", None, [0, 1, -1, 127, 128, -128, -129, 40000]),
        ("A_BYTEFIELD", None, [b"", b"\x41", b"\x00\xff", b"\x01\x02\x03"]),
        ("A_ASCIISTRING", None, ["", "A", "Az", "A\xe9z"]),
        ("A_UTF8STRING", None, ["", "A", "A\xe9", "\u20ac"]),
        ("A_UNICODE2STRING", None, ["", "A", "A€"]),
    ]
    for base, enc, vals in kinds:
        for layout in ("key-first", "key-after-by-position"):
            for order in (True, False):
                pid = f"pl_{base[2:5]}_{layout[4]}_{'h' if order else 'l'}"
                keyid = f"L.LK.{pid}"
                d = {"name": "d_" + pid, "dct": {"k": "PLEN", "base": base, "hilo": order, "key": "lk", "key_id": keyid}}
                kd = {"name": "k_" + pid, "dct": U8}
                if layout == "key-first":
                    params = [{"t": "LENGTH-KEY", "name": "lk", "dop": kd["name"], "id": keyid},
                              {"t": "VALUE", "name": "v", "dop": d["name"]}]
                else:
                    # key declared first but located at byte 5, dependant at byte 0 (max 5 bytes payload)
                    params = [{"t": "LENGTH-KEY", "name": "lk", "dop": kd["name"], "id": keyid, "byte": 5},
                              {"t": "VALUE", "name": "v", "dop": d["name"], "byte": 0}]
                assign: List[Dict[str, Any]] = []
                for v in vals:
                    assign.append({"v": v})
                    # explicit consistent / conflicting keys
                    if isinstance(v, (bytes, str)):
                        n = 8 * len(v) * (2 if base == "A_UNICODE2STRING" else 1)
                        if base == "A_ASCIISTRING":
                            n = 8 * len(v.encode("latin-1"))
                        if base == "A_UTF8STRING":
                            n = 8 * len(v.encode("utf-8"))
                        assign.append({"v": v, "lk": n})
                        assign.append({"v": v, "lk": n + 8})
                    else:
                        assign.append({"v": v, "lk": 32})
                        assign.append({"v": v, "lk": 8})
                progs.append({"pid": pid, "dops": [d, kd], "params": params, "assign": assign, "tags": ["plen", base, layout]})
    return [("A/plen", progs)]


def layer_a_units(quick: bool) -> List[Tuple[str, List[Dict[str, Any]]]]:
    u = []
    u += layer_a_int_units(quick)
    u += layer_a_mask_units(quick)
    u += layer_a_float_units(quick)
    u += layer_a_string_units(quick)
    u += layer_a_minmax_units(quick)
    u += layer_a_lead_units(quick)
    u += layer_a_plen_units(quick)
    return u


# ---------------------------------------------------------------------------------------------
# Layer C placeholder (extended below)
# ---------------------------------------------------------------------------------------------
def library() -> List[Dict[str, Any]]:
    return []


def depth_bounds(quick: bool) -> Dict[str, Any]:
    return {}


def layer_c_units(quick: bool) -> List[Tuple[str, List[Dict[str, Any]]]]:
    return []
