"""The shared codec state space (DESIGN.md section 4): generators of programs and value alphabets.

Layer A: atomic (one VALUE parameter, IDENTICAL compu method, one diag-coded type)
Layer B: compu (added when refcompu is available)
Layer C: composition (parameter sequences over a template alphabet)
Everything is a deterministic, finite enumeration; alphabets are ordered simplest first.
"""
from __future__ import annotations

import itertools
import struct
from typing import Any, Dict, Iterable, Iterator, List, Optional, Tuple

U8 = {"k": "STD", "base": "A_UINT32", "bits": 8}


def std(base: str, bits: int, enc: Optional[str] = None, hilo: Optional[bool] = None, **kw: Any) -> Dict[str, Any]:
    d: Dict[str, Any] = {"k": "STD", "base": base, "bits": bits}
    if enc is not None:
        d["enc"] = enc
    if hilo is not None:
        d["hilo"] = hilo
    d.update(kw)
    return d


def one_value_program(pid: str, dop: Dict[str, Any], byte: Optional[int], bit: Optional[int], values: List[Any],
                      tags: Tuple[str, ...], follower: bool = False) -> Dict[str, Any]:
    d = dict(dop)
    d["name"] = "d_" + pid
    p: Dict[str, Any] = {"t": "VALUE", "name": "v", "dop": d["name"]}
    if byte is not None:
        p["byte"] = byte
    if bit is not None:
        p["bit"] = bit
    params = [p]
    dops = [d]
    assign = [{"v": v} for v in values]
    if follower:
        dops.append({"name": "u8_" + pid, "dct": U8})
        params.append({"t": "VALUE", "name": "tail", "dop": "u8_" + pid})
        assign = [{"v": v, "tail": 0xA5} for v in values]
    return {"pid": pid, "dops": dops, "params": params, "assign": assign, "tags": list(tags)}


# ---------------------------------------------------------------------------------------------
# integer alphabets
# ---------------------------------------------------------------------------------------------
INT_KINDS: List[Tuple[str, Optional[str]]] = [("A_UINT32", None), ("A_UINT32", "BCD-P"), ("A_UINT32", "BCD-UP"),
                                              ("A_INT32", None), ("A_INT32", "2C"), ("A_INT32", "1C"), ("A_INT32", "SM")]
ORDERS: List[Optional[bool]] = [True, False, None]


def int_candidates(base: str, enc: Optional[str], n: int, all_upto: int, wide: bool = False) -> List[int]:
    """Candidate internal values: ALL values of the n-bit domain (and a margin outside it when `wide`) for
    n <= all_upto, else the boundary set.  The reference decides which are representable."""
    if n <= all_upto:
        lo = -(1 << n) if (base == "A_INT32" or wide) else 0
        hi = (1 << (n + 1 if wide else n))
        if enc in ("BCD-P", "BCD-UP") and not wide:
            hi = min(hi, 10 ** ((n + 3) // 4))
        return list(range(lo, hi + (2 if wide else 0)))
    s = {0, 1, 2, 9, 10, 99, 100, (1 << (n - 1)) - 1, 1 << (n - 1), (1 << n) - 2, (1 << n) - 1,
         int("55" * 8, 16) & ((1 << n) - 1), int("AA" * 8, 16) & ((1 << n) - 1), 10 ** (n // 4) - 1, 10 ** (n // 8) - 1}
    if wide:
        s |= {1 << n, (1 << n) + 1, 1 << 64, (1 << 64) - 1}
    if base == "A_INT32" or wide:
        s |= {-x for x in s} | {-(1 << (n - 1)), -(1 << (n - 1)) - 1, -(1 << n)}
    return sorted(s, key=lambda x: (abs(x), x))


def layer_a_int_units(quick: bool, wide: bool = False) -> List[Tuple[str, List[Dict[str, Any]]]]:
    all_upto = 8 if quick else 12
    lengths = [1, 2, 3, 4, 5, 7, 8, 9, 11, 12, 15, 16, 17, 24, 31, 32, 33, 63, 64] if quick else list(range(1, 65))
    bits = [0, 3, 7] if quick else list(range(8))
    units = []
    for (base, enc), order in itertools.product(INT_KINDS, ORDERS):
        progs = []
        for n in lengths:
            vals = int_candidates(base, enc, n, all_upto, wide)
            for bit in bits:
                for byte in (None, 1):
                    if byte == 1 and (n % 4 or bit not in (0, 3)) and quick:
                        continue
                    pid = f"i_{base[2]}{(enc or 'x').replace('-', '')}_{ {True: 'h', False: 'l', None: 'n'}[order]}_{n}_{bit}_{'a' if byte is None else byte}"
                    progs.append(one_value_program(pid, {"dct": std(base, n, enc, order)}, byte, bit, vals,
                                                   ("int", base, enc or "-", f"n{n}", f"bit{bit}")))
        # split into chunks to balance the pool
        chunk = 200
        for c in range(0, len(progs), chunk):
            units.append((f"A/int/{base}/{enc}/{order}/{c // chunk}", progs[c:c + chunk]))
    return units


MASKS = [0x0F, 0xF0, 0x3C, 0xFF00, 0x0FF0, 0x8001, 0x80, 0x10, 0x01]


def layer_a_mask_units(quick: bool) -> List[Tuple[str, List[Dict[str, Any]]]]:
    progs = []
    for base in ("A_UINT32", "A_INT32", "A_BYTEFIELD"):
        for n in (8, 16, 24):
            for mask in MASKS:
                if mask >> n:
                    continue
                for order in (True, False):
                    if base == "A_BYTEFIELD" and order is False:
                        continue
                    pid = f"m_{base[2]}_{n}_{mask:X}_{'h' if order else 'l'}"
                    # in-mask values only (out-of-mask values are ANDed away by the standard; C02 envelope)
                    bitsset = [i for i in range(n) if mask >> i & 1]
                    vals_i = []
                    for combo in range(1 << min(len(bitsset), 8)):
                        v = 0
                        for j, b in enumerate(bitsset[:8]):
                            if combo >> j & 1:
                                v |= 1 << b
                        vals_i.append(v)
                    if base == "A_INT32":
                        vals_i = [v for v in vals_i if v < (1 << (n - 1))]
                    vals: List[Any] = vals_i
                    if base == "A_BYTEFIELD":
                        vals = [v.to_bytes(n // 8, "big") for v in vals_i]
                    progs.append(one_value_program(pid, {"dct": std(base, n, None, order, mask=mask)}, None, None, vals,
                                                   ("mask", base, f"n{n}")))
                    if order and n in (8, 16) and mask in (0x0F, 0x3C, 0x0FF0, 0x8001, 0x80, 0x10, 0x01):
                        # IS-CONDENSED: only the static metadata (C08) has an expectation here; the wire format of
                        # condensed masks is outside the reference's envelope (DontCare)
                        # (odxtools' reading, pinned by its tests: the internal value carries its bits at the mask's positions and
                        # the wire carries them shifted together -- so in-mask values must at least come back unchanged)
                        cvals = list(vals[:4]) + [vals[-1]]
                        progs.append(one_value_program(pid + "_c", {"dct": std(base, n, None, order, mask=mask, condensed=True)}, None, None,
                                                       cvals, ("mask-condensed", base, f"n{n}")))
                        # IS-CONDENSED="false" spelled out means the same as leaving the attribute out
                        progs.append(one_value_program(pid + "_cf", {"dct": std(base, n, None, order, mask=mask, condensed=False)}, None, None,
                                                       vals[:4], ("mask", base, f"n{n}")))
    return [("A/mask", progs)]


def f32(x: float) -> float:
    return struct.unpack(">f", struct.pack(">f", x))[0]


FLOATS32 = [0.0, 1.0, -1.0, 1.5, -1.5, 0.5, 2.0, 255.0, 1e10, f32(3.4028234663852886e38), f32(1.1754943508222875e-38),
            f32(1.401298464324817e-45), -f32(1.401298464324817e-45), 65536.0, -0.0, float("inf"), float("-inf"), f32(0.1), 3.0]
FLOATS64 = FLOATS32 + [0.1, 1e300, 2.2250738585072014e-308, 5e-324, 1.7976931348623157e308, -1e-300]


def layer_a_float_units(quick: bool, wide: bool = False) -> List[Tuple[str, List[Dict[str, Any]]]]:
    progs = []
    extra: List[Any] = [1e39, -1e39, 1e308, 1 << 200, 16777217, 0.1] if wide else []
    for base, vals in (("A_FLOAT32", FLOATS32 + extra), ("A_FLOAT64", FLOATS64 + extra)):
        for order in ORDERS:
            for byte in (None, 1):
                pid = f"f_{base[-2:]}_{ {True: 'h', False: 'l', None: 'n'}[order]}_{'a' if byte is None else byte}"
                progs.append(one_value_program(pid, {"dct": std(base, 32 if base == "A_FLOAT32" else 64, None, order)}, byte, None,
                                               list(vals), ("float", base)))
    # float on the wire, integer physical type: non-finite wire values have no integer image
    lin = {"cat": "LINEAR", "i2p": [{"num": [0, 1], "den": [1]}]}
    for base in ("A_FLOAT32", "A_FLOAT64"):
        progs.append(one_value_program(f"f2i_{base[-2:]}", {"dct": std(base, 32 if base == "A_FLOAT32" else 64), "phys": "A_INT32", "cm": lin}, None, None,
                                       [1, -5, 0, 100000] + ([1 << 40, 1.5] if wide else []), ("float", base + "-to-int")))
    # a 64-bit counter through a LINEAR method: integers between 2^52 and 2^53 are still exact in double precision, but
    # only just (x + 0.5 is not representable there)
    lin1000 = {"cat": "LINEAR", "i2p": [{"num": [1000, 1], "den": [1]}]}
    big = [(1 << 52) + 1, (1 << 52) + 3, (1 << 53) - 1001, (1 << 53) - 1003, 5, 1 << 40]
    progs.append(one_value_program("lin64", {"dct": std("A_UINT32", 64), "phys": "A_UINT32", "cm": lin1000}, None, None,
                                   [x + 1000 for x in big], ("float", "A_UINT32-linear-64bit")))
    return [("A/float", progs)]


STR_KINDS: List[Tuple[str, Optional[str], str]] = [
    ("A_BYTEFIELD", None, "bytes"), ("A_ASCIISTRING", None, "latin"), ("A_ASCIISTRING", "ISO-8859-1", "latin"),
    ("A_ASCIISTRING", "ISO-8859-2", "latin2"), ("A_ASCIISTRING", "WINDOWS-1252", "cp1252"),
    ("A_UTF8STRING", None, "utf8"), ("A_UTF8STRING", "UTF-8", "utf8"), ("A_UNICODE2STRING", None, "ucs2"),
    ("A_UNICODE2STRING", "UCS-2", "ucs2")]
SYMS = {"bytes": [b"\x00", b"\x41", b"\xff"], "latin": ["A", "z", "\xe9"], "latin2": ["A", "z", "Ł"],
        "cp1252": ["A", "z", "€"], "utf8": ["A", "\xe9", "€"], "ucs2": ["A", "\xe9", "€"]}


def strings_of_bytelen(kind: str, nbytes: int, enc_len: Any) -> List[Any]:
    """all strings over the 3-symbol alphabet whose encoding has exactly nbytes bytes"""
    syms = SYMS[kind]
    out: List[Any] = []
    empty: Any = b"" if kind == "bytes" else ""

    def rec(cur: Any, used: int) -> None:
        if used == nbytes:
            out.append(cur)
            return
        for s in syms:
            l = enc_len(s)
            if used + l <= nbytes:
                rec(cur + s, used + l)

    rec(empty, 0)
    return out


def enc_len_fn(base: str, enc: Optional[str]) -> Any:
    from .refodx import str_codec
    if base == "A_BYTEFIELD":
        return lambda s: len(s)
    codec = str_codec(base, enc, True)
    return lambda s: len(s.encode(codec))


def layer_a_string_units(quick: bool, wide: bool = False) -> List[Tuple[str, List[Dict[str, Any]]]]:
    progs = []
    for base, enc, kind in STR_KINDS:
        for order in ORDERS:
            for nbits in (8, 16, 24, 32):
                if base == "A_UNICODE2STRING" and nbits % 16:
                    continue
                vals = strings_of_bytelen(kind, nbits // 8, enc_len_fn(base, enc))
                if not vals:
                    continue
                if wide:
                    # shorter, longer, empty, unencodable
                    vals = vals[:3] + strings_of_bytelen(kind, nbits // 8 - 1, enc_len_fn(base, enc))[:2] + \
                        strings_of_bytelen(kind, nbits // 8 + 1, enc_len_fn(base, enc))[:2] + [vals[0][:0]]
                    if kind != "bytes":
                        vals.append("\u4e2d")
                for byte in (None, 1):
                    pid = f"s_{base[2:5]}{(enc or 'x')[:3].replace('-', '')}{(enc or 'x')[-1]}_{ {True: 'h', False: 'l', None: 'n'}[order]}_{nbits}_{'a' if byte is None else byte}"
                    progs.append(one_value_program(pid, {"dct": std(base, nbits, enc, order)}, byte, None, vals, ("string", base, enc or "-")))
    return [("A/string", progs)]


def payloads_upto(kind: str, maxbytes: int, enc_len: Any) -> List[Any]:
    out: List[Any] = []
    for n in range(0, maxbytes + 1):
        out.extend(strings_of_bytelen(kind, n, enc_len))
    return out


def layer_a_minmax_units(quick: bool) -> List[Tuple[str, List[Dict[str, Any]]]]:
    progs = []
    kinds = [("A_BYTEFIELD", None, "bytes"), ("A_ASCIISTRING", None, "latin"), ("A_UTF8STRING", None, "utf8"),
             ("A_UNICODE2STRING", None, "ucs2"), ("A_ASCIISTRING", "ISO-8859-2", "latin2"), ("A_ASCIISTRING", "WINDOWS-1252", "cp1252"),
             ("A_UNICODE2STRING", "UCS-2", "ucs2")]
    syms_override = {"bytes": [b"\x00", b"\x41", b"\xff"], "latin": ["\x00", "A", "\xff"], "utf8": ["\x00", "A", "\xe9"],
                     "ucs2": ["\x00", "A", "\uffff"], "latin2": ["\x00", "\u0141", "\u02d9"], "cp1252": ["\x00", "\u20ac", "\xff"]}
    for base, enc, kind in kinds:
        SYMS_backup = SYMS[kind]
        SYMS[kind] = syms_override[kind]
        try:
            for term in ("ZERO", "HEX-FF", "END-OF-PDU"):
                for (mn, mx) in ((0, None), (0, 2), (1, 3), (2, 2), (2, 4)):
                    if base == "A_UNICODE2STRING" and (mn % 2 or (mx or 0) % 2):
                        continue  # MIN-/MAX-LENGTH count bytes; odd values make no sense for 16-bit characters
                    unit_b = 2 if base == "A_UNICODE2STRING" else 1
                    top = (mx if mx is not None else 3) + 1
                    vals = payloads_upto(kind, top * 1 if unit_b == 1 else min(top, 4), enc_len_fn(base, enc))
                    for follower in (False, True):
                        if term == "END-OF-PDU" and follower:
                            continue
                        for order in ((True, False, None) if base == "A_UNICODE2STRING" else (None,)):  # None: attribute left out (= high-low)
                            for byte in (None, 1):  # byte 1: the value starts at an odd offset of the PDU
                                if enc is not None and ((mn, mx) not in ((0, None), (2, 4)) or byte == 1):
                                    continue
                                pid = f"mm_{base[2:5]}{(enc or 'x')[-1]}_{term[:2]}_{mn}_{mx}_{'f' if follower else 'l'}_{ {True: 'h', False: 'l', None: 'n'}[order]}_{'a' if byte is None else byte}"
                                dct = {"k": "MINMAX", "base": base, "min": mn, "max": mx, "term": term}
                                if enc is not None:
                                    dct["enc"] = enc
                                if order is not None:
                                    dct["hilo"] = order
                                progs.append(one_value_program(pid, {"dct": dct}, byte, None, vals, ("minmax", base, term), follower=follower))
        finally:
            SYMS[kind] = SYMS_backup
    return [("A/minmax", progs)]


def layer_a_lead_units(quick: bool, wide: bool = False) -> List[Tuple[str, List[Dict[str, Any]]]]:
    progs = []
    kinds = [("A_BYTEFIELD", "bytes", None), ("A_ASCIISTRING", "latin", None), ("A_UTF8STRING", "utf8", None), ("A_UNICODE2STRING", "ucs2", None),
             ("A_ASCIISTRING", "latin2", "ISO-8859-2"), ("A_ASCIISTRING", "cp1252", "WINDOWS-1252"), ("A_UNICODE2STRING", "ucs2", "UCS-2")]
    for base, kind, enc in kinds:
        for (lbits, bit) in ((4, 0), (4, 4), (8, 0), (16, 0), (12, 2)):
            if enc is not None and (lbits, bit) != (8, 0):
                continue
            for order in (True, False, None):
                if order is None and (lbits, bit) not in ((8, 0), (16, 0)):
                    continue  # (attribute left out: the default, high-low, for the plain layouts)
                vals = payloads_upto(kind, 4 if base != "A_UNICODE2STRING" else 4, enc_len_fn(base, enc))
                # a long payload to cross 4-bit limits is C04's business; one 15-byte payload here
                long15: Any = (b"\x41" * 15) if kind == "bytes" else ("A" * 15 if kind != "ucs2" else "A" * 7)
                vals = vals + [long15]
                if wide:
                    u: Any = b"\x41" if kind == "bytes" else "A"
                    vals = vals + [u * 16, u * 255, u * 256, u * 65536]
                for follower in (False, True):
                    pid = f"ll_{base[2:5]}{(enc or 'x')[-1]}_{lbits}_{bit}_{ {True: 'h', False: 'l', None: 'n'}[order]}_{'f' if follower else 'l'}"
                    dct = {"k": "LEAD", "base": base, "bits": lbits}
                    if order is not None:
                        dct["hilo"] = order
                    if enc is not None:
                        dct["enc"] = enc
                    progs.append(one_value_program(pid, {"dct": dct}, None, bit or None, vals, ("lead", base, f"l{lbits}"), follower=follower))
    return [("A/lead", progs)]


def layer_a_plen_units(quick: bool) -> List[Tuple[str, List[Dict[str, Any]]]]:
    """LENGTH-KEY declared before its dependant in parameter order; placed before or after it by byte position."""
    progs = []
    kinds: List[Tuple[str, Optional[str], List[Any]]] = [
        ("A_UINT32", None, [0, 1, 255, 256, 65535, 70000, 1 << 31]),
        ("A_INT32", None, [0, 1, -1, 127, 128, -128, -129, 40000]),
        ("A_BYTEFIELD", None, [b"", b"\x41", b"\x00\xff", b"\x01\x02\x03"]),
        ("A_FLOAT32", None, [1.5, 0.0, -2.0]),  # the length of floats is implied by their type
        ("A_FLOAT64", None, [1.5, 0.0]),
        ("A_ASCIISTRING", None, ["", "A", "Az", "A\xe9z"]),
        ("A_UTF8STRING", None, ["", "A", "A\xe9", "\u20ac"]),
        ("A_UNICODE2STRING", None, ["", "A", "A€"]),
        ("A_ASCIISTRING", "ISO-8859-2", ["", "A", "\u0141z"]),
    ]
    for base, enc, vals in kinds:
        for layout in ("key-first", "key-after-by-position"):
            for order in (True, False, None):
                pid = f"pl_{base[2:5]}{(enc or 'x')[-1]}_{layout[4]}_{ {True: 'h', False: 'l', None: 'n'}[order]}"
                keyid = f"L.LK.{pid}"
                d = {"name": "d_" + pid, "dct": {"k": "PLEN", "base": base, "key": "lk", "key_id": keyid}}
                if order is not None:
                    d["dct"]["hilo"] = order
                if enc is not None:
                    d["dct"]["enc"] = enc
                kd = {"name": "k_" + pid, "dct": U8}
                if layout == "key-first":
                    params = [{"t": "LENGTH-KEY", "name": "lk", "dop": kd["name"], "id": keyid},
                              {"t": "VALUE", "name": "v", "dop": d["name"]}]
                else:
                    # key declared first but located at byte 5, dependant at byte 0 (max 5 bytes payload)
                    params = [{"t": "LENGTH-KEY", "name": "lk", "dop": kd["name"], "id": keyid, "byte": 5},
                              {"t": "VALUE", "name": "v", "dop": d["name"], "byte": 0}]
                assign: List[Dict[str, Any]] = []
                for v in vals:
                    assign.append({"v": v})
                    # explicit consistent / conflicting keys
                    if isinstance(v, (bytes, str)):
                        n = 8 * len(v) * (2 if base == "A_UNICODE2STRING" else 1)
                        if base == "A_ASCIISTRING":
                            n = 8 * len(v)
                        if base == "A_UTF8STRING":
                            n = 8 * len(v.encode("utf-8"))
                        assign.append({"v": v, "lk": n})
                        assign.append({"v": v, "lk": n + 8})
                    else:
                        assign.append({"v": v, "lk": 32})
                        assign.append({"v": v, "lk": 8})
                        assign.append({"v": v, "lk": 0})  # an object of no bits represents zero only
                progs.append({"pid": pid, "dops": [d, kd], "params": params, "assign": assign, "tags": ["plen", base, layout]})
    return [("A/plen", progs)]


def layer_a_units(quick: bool) -> List[Tuple[str, List[Dict[str, Any]]]]:
    u = []
    u += layer_a_int_units(quick)
    u += layer_a_mask_units(quick)
    u += layer_a_float_units(quick)
    u += layer_a_string_units(quick)
    u += layer_a_minmax_units(quick)
    u += layer_a_lead_units(quick)
    u += layer_a_plen_units(quick)
    return u


# ---------------------------------------------------------------------------------------------
# Layer C: composition.  A fixed DOP library + an alphabet of parameter templates; programs are parameter
# sequences explored breadth first (depth bound), each with the product of its templates' value options.
# ---------------------------------------------------------------------------------------------
def P(t: str, name: str, **kw: Any) -> Dict[str, Any]:
    d = {"t": t, "name": name}
    d.update({k: v for k, v in kw.items() if v is not None})
    return d


def library() -> List[Dict[str, Any]]:
    u8 = {"name": "u8", "dct": U8}
    lin = {"cat": "LINEAR", "i2p": [{"num": [1, 2], "den": [1]}]}
    tt = {"cat": "TEXTTABLE", "i2p": [{"lo": 0, "hi": 0, "const": "off"}, {"lo": 1, "hi": 1, "const": "on"},
                                      {"lo": 2, "hi": 3, "const": "auto", "inv": 3}]}
    lib: List[Dict[str, Any]] = [
        u8,
        {"name": "u16", "dct": std("A_UINT32", 16)},
        {"name": "u16l", "dct": std("A_UINT32", 16, None, False)},
        {"name": "u12", "dct": std("A_UINT32", 12)},
        {"name": "u4", "dct": std("A_UINT32", 4)},
        {"name": "u24", "dct": std("A_UINT32", 24)},
        {"name": "i8lin", "dct": std("A_INT32", 8), "phys": "A_INT32", "cm": lin},
        {"name": "tt", "dct": U8, "phys": "A_UNICODE2STRING", "cm": tt},
        {"name": "bz", "dct": {"k": "MINMAX", "base": "A_BYTEFIELD", "min": 0, "max": 3, "term": "ZERO"}},
        {"name": "beop", "dct": {"k": "MINMAX", "base": "A_BYTEFIELD", "min": 1, "max": None, "term": "END-OF-PDU"}},
        {"name": "lead8", "dct": {"k": "LEAD", "base": "A_BYTEFIELD", "bits": 8}},
        {"kind": "struct", "name": "S_flat", "params": [P("VALUE", "a", dop="u8"), P("VALUE", "b", dop="u16")]},
        {"kind": "struct", "name": "S_sub", "params": [P("VALUE", "x", dop="u4", byte=0, bit=0), P("VALUE", "y", dop="u4", byte=0, bit=4),
                                                         P("VALUE", "z", dop="u8", byte=1)]},
        {"kind": "struct", "name": "S_nested", "params": [P("VALUE", "h", dop="u8"), P("VALUE", "inner", dop="S_flat")]},
        {"kind": "struct", "name": "S_sized", "byte_size": 3, "params": [P("VALUE", "a", dop="u8")]},
        {"kind": "struct", "name": "S_item", "params": [P("VALUE", "a", dop="u8"), P("VALUE", "b", dop="u8")]},
        {"kind": "struct", "name": "S_one", "params": [P("VALUE", "a", dop="u8")]},
        {"name": "u8b4", "dct": std("A_UINT32", 8)},
        {"name": "f32lim", "dct": std("A_FLOAT32", 32), "phys": "A_FLOAT32",
         "cm": {"cat": "LINEAR", "i2p": [{"lo": 0, "hi": 100, "num": [0, 1], "den": [1]}]}},
        {"name": "pl_lib", "dct": {"k": "PLEN", "base": "A_BYTEFIELD", "key": "lk", "key_id": "L.LK.S_lk"}},
        {"kind": "struct", "name": "S_lk", "params": [P("LENGTH-KEY", "lk", dop="u8", id="L.LK.S_lk", byte=0), P("VALUE", "v", dop="pl_lib", byte=1)]},
        {"kind": "envdesc", "name": "ed_lib", "param": "dtc", "envdatas": ["env_all", "env_spec"]},
        {"kind": "struct", "name": "S_dtcenv", "params": [P("VALUE", "dtc", dop="dtc3"), P("VALUE", "env", dop="ed_lib")]},
        {"kind": "eopfield", "name": "EOPDE", "of": "S_dtcenv"},
        {"kind": "eopfield", "name": "EOPLK", "of": "S_lk"},
        {"name": "u6", "dct": std("A_UINT32", 6)},
        {"name": "pl_kb2", "dct": {"k": "PLEN", "base": "A_BYTEFIELD", "key": "lk", "key_id": "L.LK.S_kb2"}},
        {"kind": "struct", "name": "S_kb2", "params": [P("LENGTH-KEY", "lk", dop="u6", id="L.LK.S_kb2", bit=2), P("VALUE", "v", dop="pl_kb2")]},
        {"name": "pl_kb4", "dct": {"k": "PLEN", "base": "A_BYTEFIELD", "key": "lk", "key_id": "L.LK.S_kb4"}},
        {"kind": "struct", "name": "S_kb4", "params": [P("LENGTH-KEY", "lk", dop="u8", id="L.LK.S_kb4", bit=4), P("VALUE", "v", dop="pl_kb4")]},
        {"name": "lindef", "dct": U8, "phys": "A_UINT32", "cm": {"cat": "LINEAR", "i2p": [{"lo": 0, "hi": 100, "num": [0, 2], "den": [1]}], "default_phys": 9999}},
        {"kind": "struct", "name": "S_dyn", "params": [P("VALUE", "a", dop="u8"), P("VALUE", "s", dop="bz")]},
        {"kind": "eopfield", "name": "EOPD", "of": "S_dyn"},
        {"kind": "dlfield", "name": "DLD", "of": "S_dyn", "offset": 1, "count": {"byte": 0, "dop": "u8"}},
        {"kind": "emfield", "name": "EMD", "of": "S_dyn", "end_dop": "u8", "term": "255"},
        {"kind": "mux", "name": "MUXD", "byte": 1, "key": {"byte": 0, "dop": "u8"},
         "cases": [{"name": "c0", "lo": 1, "hi": 1, "struct": "S_dyn"}, {"name": "c1", "lo": 2, "hi": 2, "struct": "S_item"}]},
        {"kind": "mux", "name": "MUXo", "byte": 1, "key": {"byte": 0, "dop": "u8"},  # a case with an OPEN lower limit
         "cases": [{"name": "c0", "lo": 1, "hi": 1, "struct": "S_item"}, {"name": "high", "lo": {"v": 10, "type": "OPEN"}, "hi": 20, "struct": "S_one"}]},
        {"kind": "struct", "name": "S_tk", "params": [P("TABLE-KEY", "tk", table="T", id="L.TK.S_tk"), P("TABLE-STRUCT", "ts", key="tk", key_id="L.TK.S_tk")]},
        {"name": "b8", "dct": std("A_BYTEFIELD", 64)},
        {"kind": "struct", "name": "S_lead", "params": [P("VALUE", "v", dop="lead8")]},
        {"kind": "sfield", "name": "SFV", "of": "S_lead", "n": 2, "item_size": 3},  # static field of variable-length items
        # end marker DOP that cannot convert every byte and whose physical values differ from the raw ones: 100 + x on [0, 50]
        {"name": "linlim", "dct": U8, "phys": "A_UINT32", "cm": {"cat": "LINEAR", "i2p": [{"lo": 0, "hi": 50, "num": [100, 1], "den": [1]}]}},
        {"kind": "emfield", "name": "EMT", "of": "S_item", "end_dop": "linlim", "term": "120"},  # the marker is the byte 20 (physical 120)
        {"kind": "sfield", "name": "SF2", "of": "S_item", "n": 2, "item_size": 2},
        {"kind": "sfield", "name": "SF2p", "of": "S_item", "n": 2, "item_size": 3},
        {"kind": "dlfield", "name": "DL1", "of": "S_item", "offset": 1, "count": {"byte": 0, "dop": "u8"}},
        {"kind": "dlfield", "name": "DL2", "of": "S_one", "offset": 2, "count": {"byte": 0, "dop": "u8"}},
        {"kind": "eopfield", "name": "EOP", "of": "S_item"},
        {"kind": "emfield", "name": "EM", "of": "S_item", "end_dop": "u8", "term": "255"},
        {"kind": "mux", "name": "MUXd", "byte": 1, "key": {"byte": 0, "dop": "u8"},
         "cases": [{"name": "c0", "lo": 0, "hi": 1, "struct": "S_item"}, {"name": "c1", "lo": 2, "hi": 5, "struct": "S_flat"}],
         "default": {"name": "dflt", "struct": "S_one"}},
        {"kind": "mux", "name": "MUXn", "byte": 1, "key": {"byte": 0, "dop": "u8"},
         "cases": [{"name": "c0", "lo": 1, "hi": 1, "struct": "S_item"}, {"name": "c1", "lo": 2, "hi": 5, "struct": "S_flat"}]},
        {"kind": "mux", "name": "MUXe", "byte": 1, "key": {"byte": 0, "dop": "u8"},
         "cases": [{"name": "c0", "lo": 1, "hi": 1, "struct": "S_item"}, {"name": "c1", "lo": 2, "hi": 5}],
         "default": {"name": "dflt", "struct": "S_one"}},
        {"kind": "mux", "name": "MUXf", "byte": 1, "key": {"byte": 0, "dop": "u8"},
         "cases": [{"name": "c0", "lo": 0, "hi": 1, "struct": "S_one"}, {"name": "c1", "lo": 2, "hi": 5, "struct": "S_item"}],
         "default": {"name": "dflt"}},
        {"kind": "table", "name": "T", "key_dop": "u8",
         "rows": [{"name": "r1", "key": 1, "struct": "S_item"}, {"name": "r2", "key": 2, "dop": "u16"}, {"name": "r3", "key": 3, "struct": "S_flat"}]},
        {"kind": "dtcdop", "name": "dtc3", "dct": std("A_UINT32", 24), "dtcs": [{"name": "P0001", "code": 1}, {"name": "P1234", "code": 0x123456}, {"name": "P0000", "code": 0}]},  # (a trouble code of zero is legal)
        {"kind": "dtcdop", "name": "dtc3b", "dct": std("A_UINT32", 24), "dtcs": [{"name": "B0001", "code": 0x0B0001}, {"name": "B0002", "code": 0x0B0002}]},
        {"kind": "dtcdop", "name": "dtc3l", "dct": std("A_UINT32", 24), "dtcs": [{"name": "L0001", "code": 0x0C0001}],
         "linked": [{"dop": "dtc3b", "not_inherited": ["B0002"]}]},  # inherits B0001 from dtc3b
        {"kind": "envdata", "name": "env_all", "all": True, "params": [P("VALUE", "e_all", dop="u8")]},
        {"kind": "envdata", "name": "env_spec", "dtcs": [0x123456], "params": [P("VALUE", "e_spec", dop="u16")]},
    ]
    return lib


def _item(a: int, b: int) -> Dict[str, int]:
    return {"a": a, "b": b}


def templates() -> Dict[str, Any]:
    """name -> function(i, envname) -> dict(params, options, size (static bytes | None), last_only, needs_cursor,
    rel: list of (param index, relative byte offset) for params that need an explicit position)"""
    T: Dict[str, Any] = {}

    def reg(name: str, size: Optional[int], options: Any, params: Any, last_only: bool = False, rel: Any = None,
            response_only: bool = False, dyn_end: bool = False) -> None:
        T[name] = dict(name=name, size=size, options=options, params=params, last_only=last_only, rel=rel or [],
                       response_only=response_only, dyn_end=dyn_end)

    reg("CC8", 1, lambda i: [{}], lambda i: [P("CODED-CONST", f"cc{i}", dct=U8, value=0x22)])
    reg("CC16L", 2, lambda i: [{}], lambda i: [P("CODED-CONST", f"ccl{i}", dct=std("A_UINT32", 16, None, False), value=0x1234)])
    reg("CCNIB", 1, lambda i: [{}], lambda i: [P("CODED-CONST", f"nl{i}", dct=std("A_UINT32", 4), value=0xA, bit=0),
                                               P("CODED-CONST", f"nh{i}", dct=std("A_UINT32", 4), value=0x5, bit=4)], rel=[(0, 0), (1, 0)])
    reg("CCMM", None, lambda i: [{}], lambda i: [P("CODED-CONST", f"cm{i}", dct={"k": "MINMAX", "base": "A_ASCIISTRING", "min": 1, "max": 4, "term": "ZERO"}, value="AB")])
    reg("CCME", None, lambda i: [{}], lambda i: [P("CODED-CONST", f"ce{i}", dct={"k": "MINMAX", "base": "A_ASCIISTRING", "min": 1, "max": 4, "term": "END-OF-PDU"}, value="AB")],
        last_only=True)  # a constant that ends the message (and is part of its constant prefix)
    reg("CNV", 1, lambda i: [{f"vn{i}": 0}, {f"vn{i}": 3}, {f"vn{i}": 15}],  # a constant nibble and a free nibble in one byte
        lambda i: [P("CODED-CONST", f"cn{i}", dct=std("A_UINT32", 4), value=0x5, bit=4), P("VALUE", f"vn{i}", dop="u4", bit=0)], rel=[(0, 0), (1, 0)])
    reg("PC", 1, lambda i: [{}], lambda i: [P("PHYS-CONST", f"pc{i}", dop="i8lin", const=7)])
    reg("V8", 1, lambda i: [{f"v{i}": 0}, {f"v{i}": 1}, {f"v{i}": 255}], lambda i: [P("VALUE", f"v{i}", dop="u8")])
    reg("V12b", 2, lambda i: [{f"w{i}": 0}, {f"w{i}": 0xABC}, {f"w{i}": 0xFFF}], lambda i: [P("VALUE", f"w{i}", dop="u12", bit=3)])
    reg("VLIN", 1, lambda i: [{f"l{i}": 1}, {f"l{i}": -255}, {f"l{i}": 255}], lambda i: [P("VALUE", f"l{i}", dop="i8lin")])
    reg("VDEF", 1, lambda i: [{}, {f"d{i}": 9}, {f"d{i}": 0}], lambda i: [P("VALUE", f"d{i}", dop="u8", default=7)])
    reg("VTT", 1, lambda i: [{f"t{i}": "off"}, {f"t{i}": "auto"}], lambda i: [P("VALUE", f"t{i}", dop="tt")])
    reg("RES8", 1, lambda i: [{}], lambda i: [P("RESERVED", f"r{i}", bits=8)])
    reg("RES72", 9, lambda i: [{}], lambda i: [P("RESERVED", f"rw{i}", bits=72)])  # wider than any integer the bit packer extracts in one piece
    reg("RES68b", 10, lambda i: [{}], lambda i: [P("RESERVED", f"rv{i}", bits=72, bit=4)])  # wide, at a bit position, spilling into a tenth byte
    reg("RES8b4", 2, lambda i: [{}], lambda i: [P("RESERVED", f"rb{i}", bits=8, bit=4)])  # 8 bits at bit 4: two bytes
    reg("RES4", 1, lambda i: [{}], lambda i: [P("RESERVED", f"rh{i}", bits=4, bit=4)])
    reg("V8b4", 2, lambda i: [{f"vb{i}": 0}, {f"vb{i}": 0xA5}, {f"vb{i}": 255}], lambda i: [P("VALUE", f"vb{i}", dop="u8b4", bit=4)])
    reg("VF32", 4, lambda i: [{f"vf{i}": 1.5}, {f"vf{i}": 100.0}, {f"vf{i}": 0.0}], lambda i: [P("VALUE", f"vf{i}", dop="f32lim")])
    reg("SLK", None, lambda i: [{f"slk{i}": {"v": b"\x01\x02"}}, {f"slk{i}": {"v": b""}}, {f"slk{i}": {"v": b"\x07", "lk": 8}}], lambda i: [P("VALUE", f"slk{i}", dop="S_lk")])
    reg("SYS", 1, lambda i: [{f"s{i}": 30}, {f"s{i}": 0}], lambda i: [P("SYSTEM", f"s{i}", dop="u8", sysparam="SECOND")])
    # every predefined SYSPARAM kind: none is required, so each must be omittable (the value then comes from the clock / user)
    for kind, dopn, size, val in (("TIMESTAMP", "b8", 8, b"\x00\x00\x01\x02\x03\x04\x05\x06"), ("MINUTE", "u8", 1, 59), ("HOUR", "u8", 1, 23), ("TIMEZONE", "u16", 2, 120),
                                  ("DAY", "u8", 1, 31), ("WEEK", "u8", 1, 53), ("MONTH", "u8", 1, 12), ("YEAR", "u16", 2, 2026), ("CENTURY", "u8", 1, 20),
                                  ("TESTERID", "b8", 8, b"odxtools"), ("USERID", "lead8", None, b"me")):
        reg({"TIMESTAMP": "SYTS", "TIMEZONE": "SYTZ"}.get(kind, "SY" + kind[:4]), size, (lambda kind, val: lambda i: [{f"y{kind[:3].lower()}{i}": val}])(kind, val),
            (lambda kind, dopn: lambda i: [P("SYSTEM", f"y{kind[:3].lower()}{i}", dop=dopn, sysparam=kind)])(kind, dopn))
    reg("LK", None, lambda i: [{f"lv{i}": b""}, {f"lv{i}": b"\x01\x02"}, {f"lv{i}": b"\x09", f"lk{i}": 8}],
        lambda i: [P("LENGTH-KEY", f"lk{i}", dop="u8", id=f"L.LK.@PID@.{i}"), P("VALUE", f"lv{i}", dop=f"@PLEN@{i}")])
    reg("LKSAME", None, lambda i: [{f"in{i}": {"v": b"\x01"}, f"ov{i}": b"\x02\x03"}, {f"in{i}": {"v": b""}, f"ov{i}": b"\x07"}, {f"in{i}": {"v": b"\x01\x02"}, f"ov{i}": b""},
                                   {f"in{i}": {"v": b"\x01\x02", "lk": 16}, f"ov{i}": b"\x07"}],  # inner key given explicitly, outer one implied
        lambda i: [P("LENGTH-KEY", "lk", dop="u8", id=f"L.LK.@PID@.{i}"), P("VALUE", f"in{i}", dop="S_lk"), P("VALUE", f"ov{i}", dop=f"@PLENSAME@{i}")])
    # the same with an integer behind the nested structure: a key value that leaks changes the width of the integer silently
    reg("LKSAMI", None, lambda i: [{f"ini{i}": {"v": b"\x01\x02", "lk": 16}, f"ovi{i}": 0x56}, {f"ini{i}": {"v": b"\x01"}, f"ovi{i}": 0x1234},
                                   {f"ini{i}": {"v": b"", "lk": 0}, f"ovi{i}": 7}],
        lambda i: [P("LENGTH-KEY", "lk", dop="u8", id=f"L.LK.@PID@.{i}"), P("VALUE", f"ini{i}", dop="S_lk"), P("VALUE", f"ovi{i}", dop=f"@PLENSAMI@{i}")])
    reg("MUXo", None, lambda i: [{f"mo{i}": ("c0", _item(1, 2))}, {f"mo{i}": ("high", {"a": 4})}, {f"mo{i}": (15, {"a": 4})}], lambda i: [P("VALUE", f"mo{i}", dop="MUXo")])
    reg("TKSAME", None, lambda i: [{f"tin{i}": {"ts": ("r2", 0x1234)}, f"tout{i}": ("r1", _item(1, 2))}, {f"tin{i}": {"ts": ("r1", _item(3, 4))}, f"tout{i}": ("r2", 7)},
                                   {f"tin{i}": {"ts": ("r3", {"a": 9, "b": 0xBEEF})}, f"tout{i}": ("r3", {"a": 1, "b": 2})},
                                   {f"tin{i}": {"ts": ("r2", 0x1234), "tk": "r2"}, f"tout{i}": ("r1", _item(1, 2))}],
        lambda i: [P("TABLE-KEY", "tk", table="T", id=f"L.TK.@PID@.{i}"), P("VALUE", f"tin{i}", dop="S_tk"), P("TABLE-STRUCT", f"tout{i}", key="tk", key_id=f"L.TK.@PID@.{i}")])
    reg("TKS", None, lambda i: [{f"ts{i}": ("r1", _item(1, 2))}, {f"ts{i}": ("r2", 0x1234)}, {f"ts{i}": ("r3", {"a": 9, "b": 0xBEEF}), f"tk{i}": "r3"}],
        lambda i: [P("TABLE-KEY", f"tk{i}", table="T", id=f"L.TK.@PID@.{i}"), P("TABLE-STRUCT", f"ts{i}", key=f"tk{i}", key_id=f"L.TK.@PID@.{i}")])
    reg("TKSN", None, lambda i: [{f"tn{i}": ("r1", _item(1, 2))}, {f"tn{i}": ("r2", 0x1234)}],  # the table is referenced by short name
        lambda i: [P("TABLE-KEY", f"tkn{i}", table="T", snref=True, id=f"L.TK.@PID@.{i}"), P("TABLE-STRUCT", f"tn{i}", key=f"tkn{i}", key_id=f"L.TK.@PID@.{i}")])
    reg("TKSROW", None, lambda i: [{f"tsr{i}": ("r2", 0x1234)}],
        lambda i: [P("TABLE-KEY", f"tkr{i}", table="T", row="r2", id=f"L.TK.@PID@.{i}"), P("TABLE-STRUCT", f"tsr{i}", key=f"tkr{i}", key_id=f"L.TK.@PID@.{i}")])
    reg("SFLAT", 3, lambda i: [{f"sf{i}": {"a": 1, "b": 0x1234}}, {f"sf{i}": {"a": 255, "b": 0}}], lambda i: [P("VALUE", f"sf{i}", dop="S_flat")])
    reg("SSUB", 2, lambda i: [{f"ss{i}": {"x": 1, "y": 2, "z": 3}}, {f"ss{i}": {"x": 15, "y": 0, "z": 255}}], lambda i: [P("VALUE", f"ss{i}", dop="S_sub")])
    reg("SNEST", 4, lambda i: [{f"sn{i}": {"h": 7, "inner": {"a": 1, "b": 0x1234}}}], lambda i: [P("VALUE", f"sn{i}", dop="S_nested")])
    reg("SSIZED", 3, lambda i: [{f"sz{i}": {"a": 9}}], lambda i: [P("VALUE", f"sz{i}", dop="S_sized")])
    reg("SF2", 4, lambda i: [{f"fa{i}": [_item(1, 2), _item(3, 4)]}], lambda i: [P("VALUE", f"fa{i}", dop="SF2")])
    reg("SF2p", 6, lambda i: [{f"fp{i}": [_item(1, 2), _item(3, 4)]}], lambda i: [P("VALUE", f"fp{i}", dop="SF2p")])
    reg("DL1", None, lambda i: [{f"dl{i}": []}, {f"dl{i}": [_item(1, 2)]}, {f"dl{i}": [_item(1, 2), _item(3, 255)]}], lambda i: [P("VALUE", f"dl{i}", dop="DL1")])
    reg("DL2", None, lambda i: [{f"dm{i}": []}, {f"dm{i}": [{"a": 5}, {"a": 6}]}], lambda i: [P("VALUE", f"dm{i}", dop="DL2")])
    reg("EOP", None, lambda i: [{f"eo{i}": []}, {f"eo{i}": [_item(1, 2)]}, {f"eo{i}": [_item(1, 2), _item(255, 4)]}], lambda i: [P("VALUE", f"eo{i}", dop="EOP")], last_only=True)
    reg("EMLAST", None, lambda i: [{f"em{i}": []}, {f"em{i}": [_item(1, 2), _item(3, 4)]}], lambda i: [P("VALUE", f"em{i}", dop="EM")], last_only=True)
    reg("EMCC", None, lambda i: [{f"en{i}": []}, {f"en{i}": [_item(1, 2)]}],
        lambda i: [P("VALUE", f"en{i}", dop="EM"), P("CODED-CONST", f"mk{i}", dct=U8, value=255)], dyn_end=True)
    reg("MUXd", None, lambda i: [{f"mx{i}": ("c0", _item(1, 2))}, {f"mx{i}": ("c1", {"a": 3, "b": 0x1234})}, {f"mx{i}": ("dflt", {"a": 4})},
                                 {f"mx{i}": (1, _item(1, 2))}, {f"mx{i}": (5, {"a": 3, "b": 0x1234})}, {f"mx{i}": (9, {"a": 4})}],
        lambda i: [P("VALUE", f"mx{i}", dop="MUXd")])
    reg("MUXf", None, lambda i: [{f"mf{i}": ("c0", {"a": 4})}, {f"mf{i}": (1, {"a": 4})}, {f"mf{i}": (0, {"a": 4})}, {f"mf{i}": (5, _item(1, 2))},
                                 {f"mf{i}": (2, _item(1, 2))}, {f"mf{i}": (9, {})}], lambda i: [P("VALUE", f"mf{i}", dop="MUXf")])
    reg("MUXn", None, lambda i: [{f"my{i}": ("c0", _item(1, 2))}, {f"my{i}": ("c1", {"a": 3, "b": 0x1234})}, {f"my{i}": (9, {"a": 4})}], lambda i: [P("VALUE", f"my{i}", dop="MUXn")])
    reg("MUXe", None, lambda i: [{f"mz{i}": ("c0", _item(1, 2))}, {f"mz{i}": ("c1", {})}, {f"mz{i}": ("dflt", {"a": 4})}],
        lambda i: [P("VALUE", f"mz{i}", dop="MUXe")])
    def _d(a: int, sv: bytes) -> Dict[str, Any]:
        return {"a": a, "s": sv}

    reg("SDYN", None, lambda i: [{f"sd{i}": _d(1, b"")}, {f"sd{i}": _d(2, b"\x41")}, {f"sd{i}": _d(3, b"\x41\x42\x43")}], lambda i: [P("VALUE", f"sd{i}", dop="S_dyn")])
    reg("EOPD", None, lambda i: [{f"ed{i}": []}, {f"ed{i}": [_d(1, b""), _d(2, b"\x41")]}, {f"ed{i}": [_d(1, b"\x41\x42\x43"), _d(2, b""), _d(3, b"\x41")]}],
        lambda i: [P("VALUE", f"ed{i}", dop="EOPD")], last_only=True)
    reg("DLD", None, lambda i: [{f"dd{i}": [_d(1, b"\x41"), _d(2, b"")]}, {f"dd{i}": [_d(1, b"\x41\x42\x43")]}], lambda i: [P("VALUE", f"dd{i}", dop="DLD")])
    reg("EMD", None, lambda i: [{f"emd{i}": [_d(1, b"\x41"), _d(2, b"")]}, {f"emd{i}": [_d(7, b"")]}], lambda i: [P("VALUE", f"emd{i}", dop="EMD")], last_only=True)
    reg("MUXD", None, lambda i: [{f"mxd{i}": ("c0", _d(1, b"\x41"))}, {f"mxd{i}": ("c0", _d(1, b""))}, {f"mxd{i}": ("c1", _item(1, 2))}], lambda i: [P("VALUE", f"mxd{i}", dop="MUXD")])
    reg("EOPDE", None, lambda i: [{f"ede{i}": [{"dtc": 1, "env": {"e_all": 5}}, {"dtc": 0x123456, "env": {"e_all": 6, "e_spec": 0x1234}}]},
                                  {f"ede{i}": [{"dtc": 0x123456, "env": {"e_all": 6, "e_spec": 0x1234}}, {"dtc": 1, "env": {"e_all": 5}}, {"dtc": 1, "env": {"e_all": 7}}]}],
        lambda i: [P("VALUE", f"ede{i}", dop="EOPDE")], last_only=True)
    reg("EOPLK", None, lambda i: [{f"elk{i}": [{"v": b"\x01\x02"}, {"v": b""}, {"v": b"\x03"}]}, {f"elk{i}": [{"v": b"\x09"}]}],
        lambda i: [P("VALUE", f"elk{i}", dop="EOPLK")], last_only=True)
    reg("SKB2", None, lambda i: [{f"kb{i}": {"v": b"\x01\x02\x03\x04"}}, {f"kb{i}": {"v": b""}}, {f"kb{i}": {"v": b"\x07"}}], lambda i: [P("VALUE", f"kb{i}", dop="S_kb2")])
    reg("SKB4", None, lambda i: [{f"kc{i}": {"v": b"\x01\x02"}}, {f"kc{i}": {"v": b""}}], lambda i: [P("VALUE", f"kc{i}", dop="S_kb4")])
    reg("VLDEF", 1, lambda i: [{f"vd{i}": 0}, {f"vd{i}": 200}], lambda i: [P("VALUE", f"vd{i}", dop="lindef")])
    reg("DTC", 3, lambda i: [{f"dt{i}": 0x123456}, {f"dt{i}": "P0001"}], lambda i: [P("VALUE", f"dt{i}", dop="dtc3")])
    reg("DTCL", 3, lambda i: [{f"dl{i}": 0x0C0001}, {f"dl{i}": 0x0B0001}, {f"dl{i}": "B0001"}], lambda i: [P("VALUE", f"dl{i}", dop="dtc3l")])
    reg("DTCENV", None, lambda i: [{f"dtc{i}": 1, f"env{i}": {"e_all": 5}}, {f"dtc{i}": 0x123456, f"env{i}": {"e_all": 5, "e_spec": 0x1234}}, {f"dtc{i}": 0, f"env{i}": {"e_all": 7}}],
        lambda i: [P("VALUE", f"dtc{i}", dop="dtc3"), P("VALUE", f"env{i}", dop=f"@ENV@{i}")])
    reg("DTCENVR", None, lambda i: [{f"dtr{i}": 1, f"envr{i}": {"e_all": 5}}, {f"dtr{i}": 0x123456, f"envr{i}": {"e_all": 5, "e_spec": 0x1234}}],
        lambda i: [P("VALUE", f"dtr{i}", dop="dtc3"), P("VALUE", f"envr{i}", dop=f"@ENVR@{i}")])
    reg("BZ", None, lambda i: [{f"bz{i}": b""}, {f"bz{i}": b"\x41"}, {f"bz{i}": b"\x41\x42\x43"}], lambda i: [P("VALUE", f"bz{i}", dop="bz")])
    reg("BEOP", None, lambda i: [{f"be{i}": b"\x41"}, {f"be{i}": b"\x00\x41\xff"}], lambda i: [P("VALUE", f"be{i}", dop="beop")], last_only=True)
    reg("LEAD", None, lambda i: [{f"ld{i}": b""}, {f"ld{i}": b"\x41\x42"}], lambda i: [P("VALUE", f"ld{i}", dop="lead8")])
    reg("SFV", 6, lambda i: [{f"sv{i}": [{"v": b""}, {"v": b"\x41\x42"}]}, {f"sv{i}": [{"v": b"\x41"}, {"v": b""}]}], lambda i: [P("VALUE", f"sv{i}", dop="SFV")])
    reg("EMT", None, lambda i: [{f"et{i}": []}, {f"et{i}": [_item(250, 2)]}, {f"et{i}": [_item(0, 2), _item(120, 4)]}], lambda i: [P("VALUE", f"et{i}", dop="EMT")], last_only=True)
    reg("EMTC", None, lambda i: [{f"eu{i}": []}, {f"eu{i}": [_item(250, 2)]}, {f"eu{i}": [_item(120, 2), _item(200, 4)]}],
        lambda i: [P("VALUE", f"eu{i}", dop="EMT"), P("CODED-CONST", f"mt{i}", dct=U8, value=20)], dyn_end=True)
    reg("TKS2", None, lambda i: [{f"tsa{i}": ("r1", _item(1, 2)), f"tsb{i}": ("r1", _item(3, 4))}, {f"tsa{i}": ("r2", 0x1234), f"tsb{i}": ("r2", 7)}],
        lambda i: [P("TABLE-KEY", f"tq{i}", table="T", id=f"L.TK.@PID@.{i}"), P("TABLE-STRUCT", f"tsa{i}", key=f"tq{i}", key_id=f"L.TK.@PID@.{i}"),
                   P("TABLE-STRUCT", f"tsb{i}", key=f"tq{i}", key_id=f"L.TK.@PID@.{i}")])
    reg("MRP02", 2, lambda i: [{}], lambda i: [P("MATCHING-REQUEST-PARAM", f"mt{i}", rq_byte=0, len=2)], response_only=True)
    reg("NRC4", 1, lambda i: [{f"nq{i}": 1}, {f"nq{i}": 3}],
        lambda i: [P("VALUE", f"nq{i}", dop="u4", bit=0), P("NRC-CONST", f"nrd{i}", dct=std("A_UINT32", 4), values=[1, 3], bit=0)],
        rel=[(0, 0), (1, 0)], response_only=True)
    reg("NRCHN", 1, lambda i: [{f"nh{i}": 0x10}, {f"nh{i}": 0x2F}, {f"nh{i}": 0x31}],  # 0x31: the low nibble looks allowed, the constant's (upper) nibble is not
        lambda i: [P("VALUE", f"nh{i}", dop="u8"), P("NRC-CONST", f"nrh{i}", dct=std("A_UINT32", 4), values=[1, 2], bit=4)],
        rel=[(0, 0), (1, 0)], response_only=True)
    reg("MRP1", 1, lambda i: [{}], lambda i: [P("MATCHING-REQUEST-PARAM", f"mr{i}", rq_byte=0, len=1)], response_only=True)
    reg("MRP2", 2, lambda i: [{}], lambda i: [P("MATCHING-REQUEST-PARAM", f"ms{i}", rq_byte=1, len=2)], response_only=True)
    reg("NRCV", 1, lambda i: [{f"nv{i}": 0x11}, {f"nv{i}": 0x31}],
        lambda i: [P("NRC-CONST", f"nrc{i}", dct=U8, values=[0x11, 0x31]), P("VALUE", f"nv{i}", dop="u8")], rel=[(0, 0), (1, 0)], response_only=True)
    return T


SIGMA_FULL = ["CC8", "CC16L", "CCNIB", "PC", "V8", "V12b", "V8b4", "VF32", "SLK", "VLIN", "VDEF", "VTT", "RES8", "RES4", "SYS", "LK", "TKS", "TKSROW", "SFLAT",
              "SSUB", "SNEST", "SSIZED", "SF2", "SF2p", "DL1", "DL2", "EOP", "EMLAST", "EMCC", "MUXd", "MUXn", "MUXe", "MUXf", "SDYN", "EOPD", "DLD", "EMD", "MUXD", "EOPDE", "EOPLK", "SKB2", "SKB4", "VLDEF", "DTC", "DTCENV", "BZ", "BEOP", "LEAD", "SFV", "EMT", "EMTC", "TKS2", "CCMM", "CCME", "LKSAME", "LKSAMI", "RES72", "MUXo", "TKSAME", "DTCL", "TKSN", "RES68b", "RES8b4", "DTCENVR", "CNV"]
SIGMA_SYS = ["SYTS", "SYMINU", "SYHOUR", "SYTZ", "SYDAY", "SYWEEK", "SYMONT", "SYYEAR", "SYCENT", "SYTEST", "SYUSER"]
SIGMA_3 = ["CC8", "V8", "V12b", "V8b4", "VDEF", "RES8", "LK", "TKS", "SFLAT", "SSIZED", "SF2p", "DL1", "EOP", "MUXd", "DTCENV", "BZ", "SDYN", "EOPD"]
SIGMA_4 = ["CC8", "V12b", "SSIZED", "DL1", "MUXd", "BZ"]
MODES = ["auto", "at", "hole"]


def depth_bounds(quick: bool) -> Dict[str, Any]:
    return {"depth<=2": f"{len(SIGMA_FULL)} templates x modes {MODES}", "depth3": f"{len(SIGMA_3)} templates x [auto, hole]",
            "depth4": "not in quick" if quick else f"{len(SIGMA_4)} templates, auto", "overlap_programs": "pairs with the second element placed on the first (C02 only)"}


def build_program(seq: List[Tuple[str, str]], kind: str = "REQUEST", request: Optional[bytes] = None,
                  max_assign: int = 48) -> Optional[Dict[str, Any]]:
    """seq: list of (template name, mode). Returns None if the sequence is ill-formed by the REFERENCE rules."""
    T = templates()
    if [t for t, _ in seq].count("LKSAME") + [t for t, _ in seq].count("LKSAMI") > 1 or [t for t, _ in seq].count("TKSAME") > 1:
        return None  # its outer key has a fixed short name: twice in one message would be a duplicate name
    ml = {"auto": "a", "at": "e", "hole": "h", "overlap": "o", "far": "f", "zero": "z"}
    pid = ("q" if kind == "REQUEST" else "p") + "_" + "_".join(f"{t}{ml[m]}" for t, m in seq)
    pid = pid.replace("-", "")
    params: List[Dict[str, Any]] = []
    dops: List[Dict[str, Any]] = []
    option_sets: List[List[Dict[str, Any]]] = []
    cursor: Optional[int] = 0
    prev_start: Optional[int] = 0
    tags = ["prog", "+".join(t for t, _ in seq), "modes:" + "".join(ml[m] for _, m in seq)]
    for idx, (tn, mode) in enumerate(seq):
        t = T[tn]
        last = idx == len(seq) - 1
        if t["last_only"] and not last:
            return None
        if t["last_only"] and mode == "hole":
            return None  # an (possibly empty) end-of-PDU object after a hole has no defined encoding
        if t["response_only"] and kind == "REQUEST":
            return None
        ps = [dict(p) for p in t["params"](idx)]
        # positions
        if (mode not in ("auto", "far", "zero")) or t["rel"]:
            if cursor is None and not (mode in ("far", "zero") and not t["rel"]):
                return None
        if mode == "auto":
            start = cursor
        elif mode == "at":
            start = cursor
        elif mode == "hole":
            start = cursor + 1  # type: ignore[operator]
        elif mode == "far":
            if cursor is not None and cursor > 12:
                return None
            start = 12  # an explicit BYTE-POSITION well behind everything else (bytes in between are undescribed)
        elif mode == "zero":
            start = 0  # an explicit BYTE-POSITION in front of what was listed before
        elif mode == "overlap":
            if prev_start is None:
                return None
            start = prev_start
        else:
            raise ValueError(mode)
        if mode in ("at", "hole", "overlap", "far", "zero"):
            if t["rel"]:
                for (pi, off) in t["rel"]:
                    ps[pi]["byte"] = start + off  # type: ignore[operator]
            else:
                ps[0]["byte"] = start
        elif t["rel"]:
            for (pi, off) in t["rel"]:
                ps[pi]["byte"] = start + off  # type: ignore[operator]
        # per-program DOPs (PLEN dependants and env-data descriptions refer to sibling parameters)
        for p in ps:
            if p.get("id"):
                p["id"] = p["id"].replace("@PID@", pid)
            if p.get("key_id"):
                p["key_id"] = p["key_id"].replace("@PID@", pid)
            if isinstance(p.get("dop"), str) and p["dop"].startswith("@PLEN@"):
                dn = f"pl_{pid}_{idx}"
                dops.append({"name": dn, "dct": {"k": "PLEN", "base": "A_BYTEFIELD", "key": f"lk{idx}", "key_id": f"L.LK.{pid}.{idx}"}})
                p["dop"] = dn
            if isinstance(p.get("dop"), str) and p["dop"].startswith("@PLENSAME@"):  # the outer key has the name of the nested structure's key
                dn = f"pls_{pid}_{idx}"
                dops.append({"name": dn, "dct": {"k": "PLEN", "base": "A_BYTEFIELD", "key": "lk", "key_id": f"L.LK.{pid}.{idx}"}})
                p["dop"] = dn
            if isinstance(p.get("dop"), str) and p["dop"].startswith("@PLENSAMI@"):
                dn = f"pli_{pid}_{idx}"
                dops.append({"name": dn, "dct": {"k": "PLEN", "base": "A_UINT32", "key": "lk", "key_id": f"L.LK.{pid}.{idx}"}})
                p["dop"] = dn
            if isinstance(p.get("dop"), str) and p["dop"].startswith("@ENVR@"):  # ALL-VALUE environment data listed last
                dn = f"edr_{pid}_{idx}"
                dops.append({"kind": "envdesc", "name": dn, "param": f"dtr{idx}", "envdatas": ["env_spec", "env_all"]})
                p["dop"] = dn
            if isinstance(p.get("dop"), str) and p["dop"].startswith("@ENV@"):
                dn = f"ed_{pid}_{idx}"
                dops.append({"kind": "envdesc", "name": dn, "param": f"dtc{idx}", "envdatas": ["env_all", "env_spec"]})
                p["dop"] = dn
        params.extend(ps)
        option_sets.append(t["options"](idx))
        prev_start = start
        if t["size"] is not None and start is not None:
            nxt = start + t["size"]
            cursor = max(cursor, nxt) if mode == "overlap" and cursor is not None else nxt
        else:
            cursor = None
    assign: List[Dict[str, Any]] = []
    for combo in itertools.product(*option_sets):
        d: Dict[str, Any] = {}
        for c in combo:
            d.update(c)
        assign.append(d)
        if len(assign) >= max_assign:
            break
    prog = {"pid": pid, "dops": dops, "params": params, "assign": assign, "tags": tags, "library": True, "kind": kind}
    if request is not None:
        prog["request"] = request
    return prog


def templates_static_last_only(name: str) -> bool:
    return bool(templates()[name]["last_only"])


def layer_c_programs(quick: bool, overlap: bool = False) -> List[Dict[str, Any]]:
    progs: List[Dict[str, Any]] = []
    seen = set()

    def add(seq: List[Tuple[str, str]], **kw: Any) -> None:
        p = build_program(seq, **kw)
        if p is not None and p["pid"] not in seen:
            seen.add(p["pid"])
            progs.append(p)

    if overlap:
        for a in SIGMA_FULL:
            for b in ("CC8", "V8", "V12b", "RES8", "RES4", "CCNIB", "SFLAT", "SSUB"):
                add([(a, "auto"), (b, "overlap")])
        return progs
    # depth 1 and 2 over the full alphabet x modes
    for a in SIGMA_FULL:
        for ma in MODES:
            add([(a, ma)])
            for b in SIGMA_FULL:
                for mb in MODES:
                    if quick and ma != "auto" and mb != "auto":
                        continue
                    add([(a, ma), (b, mb)])
    # depth 3
    for a in SIGMA_3:
        for b in SIGMA_3:
            for c in SIGMA_3:
                for modes in ((("auto",) * 3,) if quick else (("auto",) * 3, ("auto", "hole", "auto"), ("hole", "auto", "hole"))):
                    add([(a, modes[0]), (b, modes[1]), (c, modes[2])], max_assign=12 if quick else 27)
    if not quick:
        for seq in itertools.product(SIGMA_4, repeat=4):
            add([(t, "auto") for t in seq], max_assign=16)
    # explicit positions that do not follow the listing order: a follower far behind a (possibly dynamic) object, and an
    # object placed in front of an earlier-listed far parameter, followed by a cursor-positioned parameter
    for t in SIGMA_FULL:
        add([("CC8", "auto"), (t, "auto"), ("V8", "far")])
        if not templates_static_last_only(t):
            add([("V8", "far"), (t, "zero"), ("V8", "auto")])
            add([("CC8", "far"), (t, "zero"), ("V12b", "auto")])
    for t in SIGMA_SYS:
        add([(t, "auto")])
        add([("CC8", "auto"), (t, "auto")])
    # responses
    rq = bytes([0x22, 0xF1, 0x90])
    for body in (["V8"], ["SFLAT"], ["MUXd"], ["DL1"], ["BZ"], ["V8", "EOP"]):
        for mr in ("MRP1", "MRP2"):
            add([("CC8", "auto"), (mr, "auto")] + [(b, "auto") for b in body], kind="POS-RESPONSE", request=rq)
            add([("CC8", "auto"), (mr, "at")] + [(b, "auto") for b in body], kind="POS-RESPONSE", request=rq)
    for body in (["V8"], ["EOP"]):
        add([("CC8", "auto"), ("MRP02", "auto")] + [(b, "auto") for b in body], kind="POS-RESPONSE", request=rq)  # straddles the request's constant prefix
    for tail in ([], [("V8", "auto")], [("BZ", "auto")]):
        add([("CC8", "auto"), ("MRP1", "auto"), ("NRC4", "auto")] + tail, kind="NEG-RESPONSE", request=rq)
        add([("CC8", "auto"), ("NRCV", "auto")] + tail, kind="NEG-RESPONSE", request=rq)
        add([("CC8", "auto"), ("MRP1", "auto"), ("NRCHN", "auto")] + tail, kind="NEG-RESPONSE", request=rq)
    add([("CC8", "auto"), ("MRP1", "auto"), ("NRCV", "auto")], kind="NEG-RESPONSE", request=rq)
    add([("CC8", "auto"), ("MRP1", "at"), ("NRCV", "at")], kind="NEG-RESPONSE", request=rq)
    return progs


def layer_c_units(quick: bool, overlap: bool = False) -> List[Tuple[str, List[Dict[str, Any]]]]:
    progs = layer_c_programs(quick, overlap)
    chunk = 150
    return [(f"C/{'overlap/' if overlap else ''}{c // chunk}", progs[c:c + chunk]) for c in range(0, len(progs), chunk)]


# ---------------------------------------------------------------------------------------------
# Layer B: compu.  One VALUE parameter whose DOP has an integer internal type and a compu method drawn from
# C07's configuration space; physical values = images of ALL internal values under the exact reference
# (+ neighbours), so that the wire-level checks see every compu category end to end.
# ---------------------------------------------------------------------------------------------
def layer_b_units(quick: bool) -> List[Tuple[str, List[Dict[str, Any]]]]:
    from checks import c07
    from . import refcompu as RC
    from .emit_compu import INTERNAL_TYPES
    methods: List[Any] = []
    for gen in (c07.gen_linear, c07.gen_scale_linear, c07.gen_tab_intp, c07.gen_rat_func, c07.gen_scale_rat_func, c07.gen_texttable):
        ms = [m for m in gen(True) if m[0] in ("u8", "i8") and "default_int" not in m[2]]
        methods += ms[::7] if quick else ms
    # piecewise linear methods whose coefficients are not exactly representable in binary floating point: the segments meet
    # at their common boundary only up to rounding (0.1*7 vs 0.3*7-1.4), so exact comparisons in the library show
    cl = lambda v: {"v": v, "type": "CLOSED"}  # noqa: E731
    for a, b, c, x0, x1 in ((0.1, 0.3, -1.4, 7, 20), (0.1, 0.2, -3.0, 30, 60), (0.7, 0.1, 4.2, 7, 50), (1.1, 0.3, 2.4, 3, 40)):
        for pt in ("A_FLOAT64", "A_FLOAT32"):
            methods.append(("u8", pt, {"cat": "SCALE-LINEAR", "i2p": [{"lo": cl(0), "hi": cl(x0), "num": [0, a], "den": [1]},
                                                                     {"lo": cl(x0), "hi": cl(x1), "num": [c, b], "den": [1]}]}))
    # a linear function whose coefficients are tiny but exact (2^-40 over 2^-40 is the identity; -3*2^-40 over 2^-41 is -6x):
    # the magnitude of the factor alone says nothing about the function
    t40, t41 = 2.0 ** -40, 2.0 ** -41
    methods.append(("u8", "A_FLOAT64", {"cat": "LINEAR", "i2p": [{"num": [0, t40], "den": [t40]}]}))
    methods.append(("i8", "A_FLOAT32", {"cat": "LINEAR", "i2p": [{"num": [0, t40], "den": [t40]}]}))
    methods.append(("u8", "A_FLOAT64", {"cat": "LINEAR", "i2p": [{"num": [t40, -3 * t40], "den": [t41]}]}))
    methods.append(("u8", "A_FLOAT64", {"cat": "SCALE-LINEAR", "i2p": [{"lo": cl(0), "hi": cl(100), "num": [0, t40], "den": [t40]},
                                                                   {"lo": cl(100), "hi": cl(255), "num": [-100 * t40, 2 * t40], "den": [t40]}]}))
    # explicit inverse scales of which the first covers everything and a later one disagrees with it: the scales are consulted
    # in the order listed, so what was decoded from a PDU must encode back to it (judged by C03 without the reference)
    inf = {"v": None, "type": "INFINITE"}
    for pt in ("A_INT32", "A_FLOAT32"):
        for b in (10, 40):
            methods.append(("u8", pt, {"cat": "SCALE-RAT-FUNC", "i2p": [{"lo": cl(0), "hi": cl(255), "num": [0, 1], "den": [1]}],
                                       "p2i": [{"lo": cl(0), "hi": cl(255), "num": [0, 1], "den": [1]},
                                               {"lo": cl(b), "hi": inf, "num": [-b // 2, 1], "den": [1]}]}))
    progs = []
    for idx, (it, pt, cm) in enumerate(methods):
        dct = INTERNAL_TYPES[it]
        base = dct["base"]
        internals = range(0, 256) if it == "u8" else range(-128, 128)
        vals: List[Any] = []
        seen = set()
        for x in internals:
            p = RC.int_to_phys(cm, base, pt, x)
            if p is RC.INVALID or p is RC.DONT_CARE:
                continue
            cands = [p]
            if isinstance(p, int) and not isinstance(p, bool):
                cands += [p + 1, p - 1] if x % 16 == 0 else []
            elif isinstance(p, float):
                cands += [p + 0.5] if x % 16 == 0 else []
            for c in cands:
                k = repr(c)
                if k not in seen:
                    seen.add(k)
                    vals.append(c)
        if not vals:
            continue
        pid = f"b{idx}_{cm['cat'].replace('-', '')}_{it}_{pt[2:5]}"
        d = {"name": "d_" + pid, "dct": dct, "phys": pt, "cm": cm}
        progs.append({"pid": pid, "dops": [d], "params": [{"t": "VALUE", "name": "v", "dop": d["name"]}],
                      "assign": [{"v": v} for v in vals], "tags": ["compu", cm["cat"], it, pt]})
    chunk = 40
    return [(f"B/{c // chunk}", progs[c:c + chunk]) for c in range(0, len(progs), chunk)]
