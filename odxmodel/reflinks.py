"""Independent reference model for ODX reference resolution (property C10).  No odxtools import.

Interprets the *world* dicts of odxmodel.emit_links.  Rules (DESIGN.md 5/C10, ISO 22901-1 7.3.13 / 7.3.2.4):

ODXLINK (ID-REF):
  * an identifiable object lives in the document fragments of the element defining it: a diag layer object in
    (container, CONTAINER) and (layer, LAYER); objects of a comparam subset/spec in that document;
  * a reference WITH DOCREF/DOCTYPE is looked up in exactly that fragment; one WITHOUT in the fragments of the
    referring element, innermost first (layer, then container);
  * IMPORT-REF: the IDs of the imported ECU-SHARED-DATA behave, for references made from the importing layer, as if
    they were defined in the importing layer (visible in its layer and container fragment) but never replace an ID
    that is already defined there; they are invisible to layers that do not import;
  * no match -> the reference must fail ("FAIL").
SNREF:
  * resolved in the named collection of the *inherited view* of the context layer (own objects override inherited
    ones of the same short name; NOT-INHERITED-* removes inherited names; higher-priority parents win), in the
    enclosing parameter list (TABLE-KEY-SNREF), in the rows of the referenced table (TABLE-ROW-SNREF), in the
    PROT-STACKs of the protocol's COMPARAM-SPEC, in the protocols among the ancestors;
  * exactly one candidate of the expected type, otherwise FAIL.
Three-valued: outcomes are ("BIND", marker) | ("FAIL", why) | ("DONTCARE", why).  DON'T-CARE where ODX forbids the
input or the standard is not explicit (see the comments at each `DONTCARE`).
"""
from __future__ import annotations

from typing import Any, Dict, Iterable, List, Optional, Tuple

Outcome = Tuple[str, str]

PRIO = {"PROTOCOL": 1, "FUNCTIONAL-GROUP": 2, "BASE-VARIANT": 3, "ECU-VARIANT": 4, "ECU-SHARED-DATA": 100}

# DDDS object kind -> collection
COLL = {"dop": "dops", "dtcdop": "dtcdops", "struct": "structs", "envdata": "envdatas", "envdesc": "envdescs",
        "sfield": "sfields", "dlfield": "dlfields", "emfield": "emfields", "eopfield": "eopfields", "mux": "muxs",
        "table": "tables"}
# all DOP-BASE collections searched by DOP-SNREF
DOPBASE_COLLS = ["dtcdops", "envdescs", "dops", "structs", "sfields", "dlfields", "emfields", "eopfields", "muxs", "envdatas"]
# which NOT-INHERITED-* list applies to which collection
NI_KEY = {c: "dops" for c in DOPBASE_COLLS}
NI_KEY["tables"] = "tables"
NI_KEY["comms"] = "comms"

SN_COLLS = {"dop": DOPBASE_COLLS, "table": ["tables"], "struct": ["structs"], "rowdop": ["dops"], "basicstruct": ["structs"],
            "envdesc": ["envdescs"], "diagcomm": ["comms"]}


def _is_ref(d: Dict[str, Any]) -> bool:
    return "ref" in d or "snref" in d


class Model:

    def __init__(self, world: Dict[str, Any]):
        self.w = world
        self.layers: Dict[str, Dict[str, Any]] = {}
        self.container_of: Dict[str, str] = {}
        self.frags: Dict[Tuple[str, str], Dict[str, List[Dict[str, Any]]]] = {}
        self.by_marker: Dict[str, Tuple[Dict[str, Any], Optional[str]]] = {}
        self._mixed_parents: Dict[Tuple[str, str], set] = {}
        self.kind_tag: Dict[int, str] = {}
        for c in world.get("containers", []):
            cf = (c["sn"], "CONTAINER")
            self._define([cf], c, None)
            for l in c["layers"]:
                self.layers[l["sn"]] = l
                self.container_of[l["sn"]] = c["sn"]
                fr = [cf, (l["sn"], "LAYER")]
                self._define(fr, l, l["sn"])
                self._walk(l, fr, l["sn"])
        for s in world.get("subsets", []):
            fr = [(s["sn"], "COMPARAM-SUBSET")]
            self._define(fr, s, None)
            self._walk(s, fr, None)
        for s in world.get("specs", []):
            fr = [(s["sn"], "COMPARAM-SPEC")]
            self._define(fr, s, None)
            self._walk(s, fr, None)

    # -- index ---------------------------------------------------------------------------------
    def _define(self, frags: List[Tuple[str, str]], o: Dict[str, Any], layer: Optional[str]) -> None:
        for f in frags:
            self.frags.setdefault(f, {}).setdefault(o["id"], []).append(o)
        if "m" in o:
            self.by_marker[o["m"]] = (o, layer)

    def _walk(self, node: Any, frags: List[Tuple[str, str]], layer: Optional[str], key: str = "") -> None:
        """every dict below a layer / document that has an "id" is an identifiable object of that layer"""
        if isinstance(node, dict):
            for k, v in node.items():
                if k == "layers":
                    continue
                self._walk_child(v, frags, layer, k)
        elif isinstance(node, list):
            for v in node:
                self._walk_child(v, frags, layer, key)

    def _walk_child(self, v: Any, frags: List[Tuple[str, str]], layer: Optional[str], key: str = "") -> None:
        if isinstance(v, dict):
            if _is_ref(v):
                return
            # the kind of an object: its explicit kind / parameter type, else the collection it is listed in
            self.kind_tag[id(v)] = v.get("k") or v.get("t") or key
            if "id" in v:
                self._define(frags, v, layer)
            elif "m" in v:
                self.by_marker[v["m"]] = (v, layer)
            self._walk(v, frags, layer, key)
        elif isinstance(v, list):
            self._walk(v, frags, layer, key)

    def layer_frags(self, layer_sn: str) -> List[Tuple[str, str]]:
        """innermost first"""
        return [(layer_sn, "LAYER"), (self.container_of[layer_sn], "CONTAINER")]

    def owner_frags(self, owner: Any) -> List[Tuple[str, str]]:
        kind, sn = owner
        if kind == "layer":
            return self.layer_frags(sn)
        return [(sn, "COMPARAM-SUBSET" if kind == "subset" else "COMPARAM-SPEC")]

    # -- imports -------------------------------------------------------------------------------
    def imported_layers(self, layer_sn: str) -> Tuple[List[str], Optional[Outcome]]:
        """-> (short names of the imported ECU-SHARED-DATA layers, failure outcome of an unresolvable IMPORT-REF)"""
        out: List[str] = []
        for r in self.layers[layer_sn].get("imports", []):
            res = self.idref(("layer", layer_sn), r, with_imports=False)
            if res[0] != "BIND":
                return out, res
            o, _ = self.by_marker[res[1]]
            if o.get("type") != "ECU-SHARED-DATA":
                return out, ("FAIL", "IMPORT-REF does not name an ECU-SHARED-DATA")
            out.append(o["sn"])
        return out, None

    def _imported_defs(self, layer_sn: str, local_id: str) -> List[Dict[str, Any]]:
        imps, _ = self.imported_layers(layer_sn)
        found: List[Dict[str, Any]] = []
        for i in imps:
            for o in self.frags.get((i, "LAYER"), {}).get(local_id, []):
                if not any(o is f for f in found):
                    found.append(o)
        return found

    def ancestors(self, layer_sn: str) -> List[str]:
        """transitive parents (resolvable PARENT-REFs only), nearest first"""
        out: List[str] = []
        todo = [layer_sn]
        while todo:
            cur = todo.pop(0)
            for p in self.layers[cur].get("parents", []):
                res = self.idref(("layer", cur), p["ref"], dontcares=False)
                if res[0] == "BIND":
                    sn = self.by_marker[res[1]][0]["sn"]
                    if sn not in out and sn != layer_sn:
                        out.append(sn)
                        todo.append(sn)
        return out

    # -- ODXLINK -------------------------------------------------------------------------------
    def idref(self, owner: Any, ref: Dict[str, Any], with_imports: bool = True, dontcares: bool = True) -> Outcome:
        doc = ref.get("doc")
        own = self.owner_frags(owner)
        lid = ref["ref"]
        # spellings which are not well-formed ODXLINKs
        if lid is None:
            return ("FAIL", "the reference element has no ID-REF: it names nothing")
        if doc and doc[0] is None:
            # DOCTYPE without DOCREF: "absent DOCREF" could be read as fragment-relative; odxtools rejects the element
            return ("DONTCARE", "DOCTYPE without DOCREF")
        if doc and doc[1] is None:
            return ("FAIL", "DOCREF without DOCTYPE: the referenced document fragment cannot be identified")
        frs = [tuple(doc)] if doc else own
        importer = owner[1] if owner[0] == "layer" and with_imports else None
        for fr in frs:
            if fr not in self.frags:
                continue  # unknown document fragment: nothing can be found there
            cands = list(self.frags[fr].get(lid, []))
            if len(cands) > 1:
                # ODX forbids duplicate IDs inside one document; odxtools keeps the last one it sees
                return ("DONTCARE", f"ID {lid} is defined {len(cands)} times in fragment {fr}")
            if len(cands) == 1:
                return ("BIND", cands[0]["m"])
            # imported IDs: as if defined in the importing layer, i.e. in ITS fragments, for ITS references
            if importer is not None and fr in own:
                imp = self._imported_defs(importer, lid)
                if len(imp) > 1:
                    return ("DONTCARE", f"ID {lid} is provided by several imported layers")
                if len(imp) == 1:
                    return ("BIND", imp[0]["m"])
        # not found.  Two situations in which the standard / the property text are not explicit:
        if not dontcares:
            return ("FAIL", f"no object with ID {lid} in {frs}")
        if doc and tuple(doc)[1] == "LAYER" and tuple(doc)[0] in self.layers and owner != ("layer", tuple(doc)[0]):
            if self._imported_defs(tuple(doc)[0], lid):
                return ("DONTCARE", "DOCREF to an importing layer for an ID which that layer only imports")
        if owner[0] == "layer":
            for a in self.ancestors(owner[1]):
                if (not doc or tuple(doc) in self.layer_frags(a)) and self._imported_defs(a, lid):
                    return ("DONTCARE", "ID imported by an ancestor layer (is an import inherited?)")
        return ("FAIL", f"no object with ID {lid} in {frs}")

    # -- inheritance view ----------------------------------------------------------------------
    def local_objs(self, layer_sn: str, coll: str) -> List[Dict[str, Any]]:
        l = self.layers[layer_sn]
        if coll == "comms":
            out = []
            for c in l.get("comms", []):
                if c["k"] == "commref":
                    res = self.idref(("layer", layer_sn), c["ref"])
                    if res[0] == "BIND":
                        out.append(self.by_marker[res[1]][0])
                else:
                    out.append(c)
            return out
        return [o for o in l.get("ddds", []) if COLL[o["k"]] == coll]

    def view(self, layer_sn: str, coll: str) -> Dict[str, List[Dict[str, Any]]]:
        """short name -> candidate objects visible in the layer after value inheritance (a list with more than
        one entry means: not unique)"""
        l = self.layers[layer_sn]
        inherited: Dict[str, Tuple[int, List[Dict[str, Any]]]] = {}
        mixed: set = set()
        for p in l.get("parents", []):
            res = self.idref(("layer", layer_sn), p["ref"])
            if res[0] != "BIND":
                continue
            pl = self.by_marker[res[1]][0]
            prio = PRIO[pl["type"]]
            ni = set(p.get("ni", {}).get(NI_KEY[coll], []))
            for sn, objs in self.view(pl["sn"], coll).items():
                if sn in ni:
                    continue
                if sn in inherited and inherited[sn][0] != prio:
                    mixed.add(sn)  # offered by parents of different types (see snref: don't care unless overridden locally)
                if sn not in inherited or inherited[sn][0] < prio:
                    inherited[sn] = (prio, list(objs))
                elif inherited[sn][0] == prio:
                    merged = inherited[sn][1] + [o for o in objs if not any(o is x for x in inherited[sn][1])]
                    inherited[sn] = (prio, merged)
        self._mixed_parents.setdefault((layer_sn, coll), set()).update(mixed)
        res2: Dict[str, List[Dict[str, Any]]] = {sn: objs for sn, (_, objs) in inherited.items()}
        local: Dict[str, List[Dict[str, Any]]] = {}
        for o in self.local_objs(layer_sn, coll):
            local.setdefault(o["sn"], []).append(o)
        res2.update(local)
        return res2

    def _local_duplicates(self, layer_sn: str, colls: Iterable[str], name: str) -> bool:
        """two objects of the same short name in ONE collection of ONE layer (anywhere in the hierarchy of layer_sn)"""
        for l in [layer_sn] + self.ancestors(layer_sn):
            for c in colls:
                if sum(1 for o in self.local_objs(l, c) if o["sn"] == name) > 1:
                    return True
        return False

    def _conflict_above(self, layer_sn: str, colls: Iterable[str], name: str) -> bool:
        """a proper ancestor of layer_sn (or layer_sn itself while it overrides the name locally) sees the name as several
        different objects inherited from parents of equal priority"""
        for l in [layer_sn] + self.ancestors(layer_sn):
            for c in colls:
                inherited_only = dict(self.view(l, c))
                local = [o for o in self.local_objs(l, c) if o["sn"] == name]
                if l == layer_sn and not local:
                    continue  # the context layer itself: the ambiguity is the reference's own problem (FAIL)
                if local:
                    continue  # overridden in that layer: no conflict there
                if len(inherited_only.get(name, [])) > 1:
                    return True
        return False

    def _parents_compete(self, layer_sn: str, colls: Iterable[str], name: str) -> bool:
        """somewhere on the way up from layer_sn the name is inherited from parents of different types and not overridden
        by a layer closer to layer_sn"""
        for c in colls:
            chain = [layer_sn]
            seen = set()
            while chain:
                cur = chain.pop(0)
                if cur in seen:
                    continue
                seen.add(cur)
                if any(o["sn"] == name for o in self.local_objs(cur, c)):
                    continue  # overridden here: whatever happens above does not matter for this path
                self.view(cur, c)
                if name in self._mixed_parents.get((cur, c), set()):
                    return True
                l = self.layers[cur]
                for p in l.get("parents", []):
                    if name in p.get("ni", {}).get(NI_KEY[c], []):
                        continue
                    res = self.idref(("layer", cur), p["ref"], dontcares=False)
                    if res[0] == "BIND":
                        chain.append(self.by_marker[res[1]][0]["sn"])
        return False

    def _imports_offer(self, layer_sn: str, colls: Iterable[str], name: str) -> bool:
        imps, _ = self.imported_layers(layer_sn)
        for i in imps:
            for c in colls:
                if any(o["sn"] == name for o in self.local_objs(i, c)):
                    return True
        return False

    # -- SNREF ---------------------------------------------------------------------------------
    def snref(self, ctx_layer: str, probe: Dict[str, Any]) -> Outcome:
        kind = probe["kind"]
        name = probe["name"]
        if kind in SN_COLLS:
            colls = SN_COLLS[kind]
            if self._imports_offer(ctx_layer, colls, name):
                # does an SNREF see the objects of an imported ECU-SHARED-DATA?  The standard is not explicit.
                return ("DONTCARE", "an imported layer offers an object of that short name")
            if self._local_duplicates(ctx_layer, colls, name):
                # ODX forbids two objects of one short name in one collection of a layer (like duplicate IDs in one
                # document); odxtools keeps the last one in hierarchy layers
                return ("DONTCARE", "two objects of that short name in one collection of one layer")
            cands: List[Tuple[Dict[str, Any], str]] = []
            for c in colls:
                for o in self.view(ctx_layer, c).get(name, []):
                    cands.append((o, c))
            if self._conflict_above(ctx_layer, colls, name):
                # an ancestor inherits the name as different objects from two parents of equal priority: that layer cannot be
                # built (value-inheritance conflict, property C09) whatever the reference itself would find
                return ("DONTCARE", "unresolvable inheritance conflict in an ancestor layer")
            if self._parents_compete(ctx_layer, colls, name):
                # the same short name inherited from an ECU-SHARED-DATA parent and from a parent of another type: which one
                # wins (odxtools: the shared data) is not stated by the property
                return ("DONTCARE", "short name offered by parents of different layer types")
            if not cands:
                return ("FAIL", f"no {kind} named {name} visible in {ctx_layer}")
            if len(cands) > 1:
                # also when the candidates sit in different DOP-BASE collections (own STRUCTURE "N" and inherited
                # DATA-OBJECT-PROP "N"): overriding works per collection, both are visible, the name is not unique
                return ("FAIL", f"{len(cands)} objects named {name} visible in {ctx_layer}")
            return ("BIND", cands[0][0]["m"])
        if kind == "tablekey":
            cands2 = [p for p in probe["params"] if p["sn"] == name]
            if len(cands2) != 1:
                return ("FAIL", f"{len(cands2)} parameters named {name} in the enclosing parameter list")
            if cands2[0]["t"] != "TABLE-KEY":
                return ("FAIL", f"parameter {name} is a {cands2[0]['t']}, not a TABLE-KEY")
            return ("BIND", cands2[0]["m"])
        if kind == "tablerow":
            tref = probe["table"]
            if "snref" in tref:
                tres = self.snref(ctx_layer, {"kind": "table", "name": tref["snref"]})
            else:
                tres = self.idref(("layer", probe["owner"]), tref)
            if tres[0] != "BIND":
                return tres
            table, tlayer = self.by_marker[tres[1]]
            rows: List[Dict[str, Any]] = []
            for r in table.get("rows", []):
                if "rowref" in r:
                    rres = self.idref(("layer", tlayer), r["rowref"])
                    if rres[0] != "BIND":
                        return rres
                    rows.append(self.by_marker[rres[1]][0])
                else:
                    rows.append(r)
            cands3 = [r for r in rows if r["sn"] == name]
            if len(cands3) != 1:
                return ("FAIL", f"{len(cands3)} rows named {name} in table {table['sn']}")
            return ("BIND", cands3[0]["m"])
        if kind == "protocol":
            cands4 = [a for a in [ctx_layer] + self.ancestors(ctx_layer) if self.layers[a]["type"] == "PROTOCOL" and a == name]
            if len(cands4) != 1:
                return ("FAIL", f"{len(cands4)} protocols named {name} among {ctx_layer} and its ancestors")
            return ("BIND", self.layers[cands4[0]]["m"])
        if kind == "protstack":
            sres = self.idref(("layer", probe["owner"]), self.layers[probe["owner"]]["comparam_spec"])
            if sres[0] != "BIND":
                return sres
            spec = self.by_marker[sres[1]][0]
            cands5 = [s for s in spec.get("stacks", []) if s["sn"] == name]
            if len(cands5) != 1:
                return ("FAIL", f"{len(cands5)} PROT-STACKs named {name} in {spec['sn']}")
            return ("BIND", cands5[0]["m"])
        raise ValueError(kind)

    def lookup(self, owner: Any, ref: Dict[str, Any], accept: Optional[List[str]] = None) -> Outcome:
        """what the link database of the loaded database (public API: Database.odxlinks) yields for a reference written
        in `owner`: the fragment rules of idref() without import visibility (imports extend the ID pool only while the
        importing layer resolves its own references); ("WRONGKIND", marker) if an `accept` list is given and the object
        found is of another kind"""
        res = self.idref(tuple(owner), ref, with_imports=False, dontcares=False)
        if res[0] == "BIND" and accept:
            tag = self.kind_tag.get(id(self.by_marker[res[1]][0]), "")
            if tag not in accept:
                return ("WRONGKIND", res[1])
        return res

    # -- probes --------------------------------------------------------------------------------
    def expect(self, probe: Dict[str, Any]) -> Outcome:
        """outcome of the probe reference after loading"""
        if probe["mode"] == "id":
            owner = tuple(probe["owner"])
            if owner[0] == "layer":
                _, bad = self.imported_layers(owner[1])
                if bad is not None and bad[0] == "FAIL":
                    return bad
            res = self.idref(owner, probe["ref"])
            if res[0] == "BIND" and probe.get("accept"):
                # a typed reference: the nearest fragment that holds the ID decides; an object of another kind there
                # is not the object the reference names -> the reference cannot be resolved
                o = self.by_marker[res[1]][0]
                tag = self.kind_tag.get(id(o), "")
                if tag not in probe["accept"]:
                    return ("FAIL", f"the object carrying the ID in the deciding fragment is a {tag}, expected one of {sorted(probe['accept'])}")
            return res
        return self.snref(probe["owner"], probe)

    def expect_retargeted(self, probe: Dict[str, Any], target: str) -> Outcome:
        """outcome of an SNREF probe after retarget_snrefs(database, <target layer>): references owned by the
        target layer or one of its ancestors are resolved in the target's view, all others keep their binding"""
        if probe["owner"] == target or probe["owner"] in self.ancestors(target):
            return self.snref(target, probe)
        return self.snref(probe["owner"], probe)

    def retarget_scope(self, target: str) -> List[str]:
        return [target] + self.ancestors(target)
