"""ODX emission for C15 (communication parameters): COMPARAM-SUBSET, COMPARAM-SPEC, COMPARAM-REFs and batches of layer
hierarchies.  No odxtools import except inside load_files().

Checked against the parser (ComparamInstance.from_et, Comparam.from_et, ComplexComparam.from_et, ComparamSubset.from_et,
ComparamSpec.from_et, ProtStack.from_et, ProtocolRaw.from_et); differences to emit.comparam_ref / emit.comparam_subset:

* an OMITTED value must be written as an EMPTY element (<SIMPLE-VALUE/>): the schema (and the parser: odxrequire of
  COMPLEX-VALUE when neither VALUE nor SIMPLE-VALUE is present) requires the value choice to exist.  emit.comparam_ref
  writes no value element at all for value=None, which the strict-mode loader rejects; emit.complex_value already
  writes <SIMPLE-VALUE/> for None (that is also what odxtools' own PDX writer does for a None sub-value).
* every COMPARAM-REF gets a DESC with a unique marker so that the instance a layer ends up with can be identified even
  when its value is omitted (ComparamInstance.description is parsed from DESC).
* element order inside COMPARAM-REF follows the schema: value, DESC, PROTOCOL-SNREF, PROT-STACK-SNREF (the parser uses
  find(), so the order is immaterial to it).
* COMPLEX-PHYSICAL-DEFAULT-VALUE is not emitted: ComparamInstance.get_subvalue only consults the sub-parameters' own
  PHYSICAL-DEFAULT-VALUE (emit.comparam_subset wraps it in COMPLEX-VALUES, which the parser reads as one more nesting
  level than odxtools' writer produces -- irrelevant here, mentioned for whoever needs it).
* PHYSICAL-DEFAULT-VALUE is mandatory for the parser (odxrequire) -- always emitted.
"""
from __future__ import annotations

import functools
import os
from typing import Any, Dict, List, Optional, Sequence, Tuple

from . import refcomparam as ref
from .emit import T, X, XSI, container, names, scratch_dir

HEAD = '<?xml version="1.0" encoding="UTF-8" standalone="no" ?>\n<ODX MODEL-VERSION="2.2.0" ' + XSI + ">"


def _dop(name: str, base: str, bits: Optional[int], subset: str = ref.SUBSET) -> str:
    if base == "A_UINT32":
        dct = X("DIAG-CODED-TYPE", T("BIT-LENGTH", bits), xsi_type="STANDARD-LENGTH-TYPE", BASE_DATA_TYPE=base)
    else:
        dct = X("DIAG-CODED-TYPE", T("MAX-LENGTH", 64), T("MIN-LENGTH", 0), xsi_type="MIN-MAX-LENGTH-TYPE",
                BASE_DATA_TYPE=base, TERMINATION="END-OF-PDU")
    return X("DATA-OBJECT-PROP", names(name), X("COMPU-METHOD", T("CATEGORY", "IDENTICAL")), dct,
             X("PHYSICAL-TYPE", BASE_DATA_TYPE=base), ID=f"{subset}.{name}")


def _comparam(name: str, default: str, text: bool = False, param_class: str = "COM", subset: str = ref.SUBSET) -> str:
    return X("COMPARAM", names(name, name[3:]), T("PHYSICAL-DEFAULT-VALUE", default),
             X("DATA-OBJECT-PROP-REF", ID_REF=f"{subset}.{'D_TXT' if text else 'D_U32'}"),
             ID=f"{subset}.{name}", PARAM_CLASS=param_class, CPTYPE="STANDARD", CPUSAGE="ECU-COMM")


def _complex_comparam(name: str, subs: Any, top: bool = False, subset: str = ref.SUBSET, rev: int = 0) -> str:
    """COMPLEX-COMPARAM; a sub-parameter (name, [..]) is a nested COMPLEX-COMPARAM."""
    children = [(_comparam(s, ref.rev_text(d, rev), param_class="UNIQUE_ID", subset=subset) if isinstance(d, str)
                 else _complex_comparam(s, d, subset=subset, rev=rev)) for s, d in subs]
    return X("COMPLEX-COMPARAM", names(name, name[3:]), *children, ID=f"{subset}.{name}", PARAM_CLASS="UNIQUE_ID",
             CPTYPE="STANDARD", CPUSAGE="ECU-COMM", ALLOW_MULTIPLE_VALUES=(True if top else None))


@functools.lru_cache(maxsize=None)
def subset_xml(variant: str = "flat", rev: int = 0) -> str:
    """The COMPARAM-SUBSET with every parameter the typed accessors read (ref.SIMPLE, ref.COMPLEX); `variant` selects
    the specification of the complex parameter (ref.VARIANTS: flat / nested COMPLEX-COMPARAM first / nested later)."""
    simple = [_comparam(n, ref.rev_text(d["default"], rev), bool(d.get("text"))) for n, d in ref.SIMPLE.items() if ref.subset_of(n) == ref.SUBSET]
    cx = [_complex_comparam(n, ref.complex_subs(n, variant), top=True, rev=rev) for n in ref.COMPLEX if ref.subset_of(n) == ref.SUBSET]
    inner = (names(ref.SUBSET) + X("COMPARAMS", *simple) + X("COMPLEX-COMPARAMS", *cx) +
             X("DATA-OBJECT-PROPS", _dop("D_U32", "A_UINT32", 32), _dop("D_TXT", "A_UTF8STRING", None)))
    return HEAD + X("COMPARAM-SUBSET", inner, ID=ref.SUBSET, CATEGORY="TRANSPORT") + "</ODX>"


@functools.lru_cache(maxsize=None)
def subset_b_xml() -> str:
    """A second COMPARAM-SUBSET whose specifications have the SAME SHORT NAMES as specifications of the first one but
    other IDs, defaults and (the complex one) other sub-parameters (ref: the `name@B` parameters)."""
    b = ref.SUBSET_B
    simple = [_comparam(ref.short_name(n), d["default"], subset=b) for n, d in ref.SIMPLE.items() if ref.subset_of(n) == b]
    cx = [_complex_comparam(ref.short_name(n), ref.complex_subs(n), top=True, subset=b) for n in ref.COMPLEX if ref.subset_of(n) == b]
    inner = (names(b) + X("COMPARAMS", *simple) + X("COMPLEX-COMPARAMS", *cx) +
             X("DATA-OBJECT-PROPS", _dop("D_U32", "A_UINT32", 32, b)))
    return HEAD + X("COMPARAM-SUBSET", inner, ID=b, CATEGORY="TRANSPORT") + "</ODX>"


@functools.lru_cache(maxsize=None)
def cspec_xml() -> str:
    ps = X("PROT-STACK", names(ref.PSTACK), T("PDU-PROTOCOL-TYPE", "ISO_15765_3_on_ISO_15765_2"),
           T("PHYSICAL-LINK-TYPE", "ISO_11898_2_DWCAN"),
           X("COMPARAM-SUBSET-REFS", *[X("COMPARAM-SUBSET-REF", ID_REF=sn, DOCREF=sn, DOCTYPE="COMPARAM-SUBSET")
                                       for sn in (ref.SUBSET, ref.SUBSET_B)]),
           ID=f"{ref.CSPEC}.{ref.PSTACK}")
    return HEAD + X("COMPARAM-SPEC", names(ref.CSPEC) + X("PROT-STACKS", ps), ID=ref.CSPEC) + "</ODX>"


def simple_value(v: Optional[str]) -> str:
    return "<SIMPLE-VALUE/>" if v is None or v == "" else T("SIMPLE-VALUE", v)


def complex_value_xml(slots: Sequence[Any]) -> str:
    return "<COMPLEX-VALUE>" + "".join(complex_value_xml(s) if isinstance(s, (list, tuple)) else simple_value(s) for s in slots) + \
        "</COMPLEX-VALUE>"


def comparam_ref_xml(inst: Dict[str, Any], prefix: str = "") -> str:
    """inst: {param, proto, pstack?, value | subs, tag} (refcomparam.make_instances).  Both qualifiers may be present
    (schema order: PROTOCOL-SNREF, then PROT-STACK-SNREF)."""
    if "subs" in inst:
        v = complex_value_xml(inst["subs"])
    else:
        v = simple_value(inst.get("value"))
    return X("COMPARAM-REF", v, X("DESC", T("p", inst["tag"])),
             X("PROTOCOL-SNREF", SHORT_NAME=prefix + inst["proto"]) if inst.get("proto") else "",
             X("PROT-STACK-SNREF", SHORT_NAME=inst["pstack"]) if inst.get("pstack") else "",
             ID_REF=ref.spec_id(inst["param"]), DOCREF=ref.subset_of(inst["param"]), DOCTYPE="COMPARAM-SUBSET")


def hierarchy_layers(types: Sequence[str], parents: Sequence[Sequence[int]], local: Sequence[Sequence[Dict[str, Any]]],
                     prefix: str = "", reverse_parent_refs: bool = False) -> List[Dict[str, Any]]:
    """Layer specs (for emit.container) of one hierarchy.  The qualifier names P1 / P2 always name an existing PROTOCOL
    layer of the database: protocols the hierarchy itself does not have are added as unconnected layers."""
    lnames = ref.layer_names(types, prefix)
    out: List[Dict[str, Any]] = []
    for i, t in enumerate(types):
        l: Dict[str, Any] = {"type": t, "name": lnames[i]}
        if t == ref.PROT:
            l["comparam_spec"] = ref.CSPEC
            l["prot_stack"] = ref.PSTACK
        if local[i]:
            l["mid_xml"] = X("COMPARAM-REFS", *[comparam_ref_xml(inst, prefix) for inst in local[i]])
        ps = list(parents[i])
        if reverse_parent_refs:
            ps.reverse()
        if ps:
            l["parents"] = [{"layer": lnames[p]} for p in ps]
        out.append(l)
    for q in ("P1", "P2"):
        if prefix + q not in lnames:
            out.append({"type": ref.PROT, "name": prefix + q, "comparam_spec": ref.CSPEC, "prot_stack": ref.PSTACK})
    return out


def split_files(case: Dict[str, Any], children_first: bool, prefix: str = "h0_") -> Dict[str, str]:
    """ONE hierarchy with every layer in a DIAG-LAYER-CONTAINER (file) of its own; PARENT-REFs carry DOCREF / DOCTYPE=CONTAINER.
    The order of the returned files is the order in which they are added to the database: parents' containers first
    (children_first=False) or last."""
    types, parents, local = case["types"], case["parents"], case["local"]
    layers = hierarchy_layers(types, parents, local, prefix, bool(case.get("reverse")))
    cname = {l["name"]: "DLC_" + l["name"] for l in layers}
    ltypes = {l["name"]: l["type"] for l in layers}
    for l in layers:
        for pr in l.get("parents", []):
            pr["docref"] = cname[pr["layer"]]
            pr["doctype"] = "CONTAINER"
    order = list(reversed(layers)) if children_first else list(layers)
    out: Dict[str, str] = {}
    for l in order:
        out[cname[l["name"]] + ".odx-d"] = container({"name": cname[l["name"]], "layers": [l], "foreign_layer_types": ltypes})
    out[ref.SUBSET + ".odx-cs"] = subset_xml(case.get("variant", "flat"), int(case.get("subset_rev", 0)))
    out[ref.SUBSET_B + ".odx-cs"] = subset_b_xml()
    out[ref.CSPEC + ".odx-c"] = cspec_xml()
    return out


def batch_files(elements: Sequence[Dict[str, Any]]) -> Dict[str, str]:
    """elements: [{types, parents, local, reverse?, variant?}] -> {file name: xml}; element k gets the name prefix h<k>_.
    All elements of a batch use the same subset variant (one COMPARAM-SUBSET per database)."""
    variants = {(e.get("variant", "flat"), int(e.get("subset_rev", 0))) for e in elements}
    assert len(variants) == 1, variants
    variant, rev = variants.pop()
    layers: List[Dict[str, Any]] = []
    for k, e in enumerate(elements):
        layers.extend(hierarchy_layers(e["types"], e["parents"], e["local"], f"h{k}_", bool(e.get("reverse"))))
    return {"DLC15.odx-d": container({"name": "DLC15", "layers": layers}),
            ref.SUBSET + ".odx-cs": subset_xml(variant, rev), ref.SUBSET_B + ".odx-cs": subset_b_xml(), ref.CSPEC + ".odx-c": cspec_xml()}


def load_files(files: Dict[str, str]) -> Any:
    """Write the files and load them through the real public loader (Database.add_odx_file + refresh)."""
    from odxtools.database import Database
    d = Database()
    sd = scratch_dir()
    paths = []
    try:
        for fn, xml in files.items():
            p = os.path.join(sd, fn)
            with open(p, "w", encoding="utf-8") as f:
                f.write(xml)
            paths.append(p)
        for p in paths:
            d.add_odx_file(p)
    finally:
        for p in paths:
            try:
                os.unlink(p)
            except OSError:
                pass
    d.refresh()
    return d


def load_batch(elements: Sequence[Dict[str, Any]]) -> Any:
    return load_files(batch_files(elements))
