"""Exact-arithmetic reference for ODX compu methods (ISO 22901-1 section 7.3.6.6).  No odxtools import.

A compu method is described by the same dict the emitter takes (odxmodel/emit.py `compu_method`, plus the
key `default_int` understood by odxmodel/emit_compu.py):

    {"cat": "IDENTICAL"}
    {"cat": "LINEAR" | "SCALE-LINEAR", "i2p": [scale, ...]}        scale: {lo?, hi?, num: [n0, n1?], den?: [d0], inv?}
    {"cat": "TAB-INTP", "i2p": [{"lo": x, "const": y}, ...]}        (x strictly increasing)
    {"cat": "RAT-FUNC" | "SCALE-RAT-FUNC", "i2p": [scale, ...], "p2i"?: [scale, ...]}   scale: {lo?, hi?, num, den?}
    {"cat": "TEXTTABLE", "i2p": [{lo?, hi?, const: "text", inv?}, ...], "default_phys"?, "default_inv"?, "default_int"?}
    {"cat": "COMPUCODE", "progcode": True}
    limit: None | value | {"v": value | None, "type": "CLOSED" | "OPEN" | "INFINITE" | None}

Types are ODX names ("A_UINT32", "A_INT32", "A_FLOAT32", "A_FLOAT64", string types, "A_BYTEFIELD").

All arithmetic is done with fractions.Fraction.  The oracle is three-valued:

  * validity predicates return True (MUST be declared valid), False (MUST NOT) or None (DON'T-CARE);
  * conversions return an `Accept` (set of admissible results), INVALID or DONT_CARE.

DON'T-CAREs (where the standard is silent or odxtools documents a deliberate reading):
  exact rounding ties of integer results (either neighbour), a scale with only one of LOWER-/UPPER-LIMIT
  outside TEXTTABLE, values matched by several scales with different results (overlapping ranges),
  a zero slope without COMPU-INVERSE-VALUE, python floats handed to integer types and python ints handed to
  float types, physical values on/near a physical boundary derived from an OPEN internal limit, physical
  validity of anything that is not provably the image of a valid internal value under a monotone continuous
  (piecewise linear) or declared-inverse (rational) method, TEXTTABLE defaults in the reverse direction,
  physical validity of integer values of magnitude >= 2^53 in the arithmetic categories (odxtools evaluates the
  formulas in double precision; conversions are compared with relative tolerance 1e-9 there).  Limits and internal
  values are compared exactly (integers of any size).
"""
from __future__ import annotations

import json
import math
from fractions import Fraction as F
from typing import Any, Dict, List, Optional, Sequence, Tuple, Union

INT_TYPES = ("A_UINT32", "A_INT32")
FLOAT_TYPES = ("A_FLOAT32", "A_FLOAT64")
STR_TYPES = ("A_UNICODE2STRING", "A_UTF8STRING", "A_ASCIISTRING")
BYTES_TYPES = ("A_BYTEFIELD",)
NUM_TYPES = INT_TYPES + FLOAT_TYPES

REL_TOL = F(1, 10**9)
HALF = F(1, 2)


class _Sentinel:

    def __init__(self, name: str) -> None:
        self.name = name

    def __repr__(self) -> str:
        return self.name


INVALID = _Sentinel("INVALID")
DONT_CARE = _Sentinel("DONT_CARE")


def is_num(v: Any) -> bool:
    return isinstance(v, (int, float, F)) and not isinstance(v, bool) and not (isinstance(v, float) and not math.isfinite(v))


def admissible(typ: str, v: Any) -> Optional[bool]:
    """Does the python value v have an admissible type for the ODX type?  None = DON'T-CARE."""
    if isinstance(v, bool):
        return None
    if typ in INT_TYPES:
        if isinstance(v, int):
            return True
        if isinstance(v, float):
            return None  # odxtools has no uniform policy (LINEAR rejects, TAB-INTP accepts)
        return False
    if typ in FLOAT_TYPES:
        if isinstance(v, float):
            return True if math.isfinite(v) else None
        if isinstance(v, int):
            return None
        return False
    if typ in STR_TYPES:
        return isinstance(v, str)
    if typ in BYTES_TYPES:
        return isinstance(v, (bytes, bytearray))
    return None


def _tol(x: F) -> F:
    return REL_TOL * max(F(1), abs(x))


class Accept:
    """Set of admissible results of one conversion.

    alts: exact alternatives; each a Fraction, a ("range", lo, hi) triple of Fractions (any value in the
    closed range), a str or bytes.  integral: the result type is an integer type, i.e. the result must be an
    integer nearest to (one of) the exact alternative(s); both neighbours are accepted at exact ties."""

    def __init__(self, alts: Sequence[Any], integral: bool = False, abs_tol: Any = 0) -> None:
        self.alts = list(alts)
        self.integral = integral
        # additional absolute tolerance of an ill-conditioned double precision evaluation (cancellation), see
        # RefCompu.p2i_tolerance
        self.abs_tol = abs_tol

    def __repr__(self) -> str:
        def s(a: Any) -> str:
            if isinstance(a, F):
                return str(a)
            if isinstance(a, tuple):
                return f"[{a[1]}..{a[2]}]"
            return repr(a)
        return ("nearest-int of " if self.integral else "") + " | ".join(s(a) for a in self.alts)

    def ok(self, got: Any, exact: bool = False) -> bool:
        """got is an admissible result (exact=True: without the floating point tolerance)"""
        for a in self.alts:
            if isinstance(a, (str, bytes, bytearray)):
                if isinstance(a, str):
                    if isinstance(got, str) and got == a:
                        return True
                elif isinstance(got, (bytes, bytearray)) and bytes(got) == bytes(a):
                    return True
                continue
            if not is_num(got):
                continue
            g = F(got)
            lo, hi = (a[1], a[2]) if isinstance(a, tuple) else (a, a)
            if self.integral:
                if g.denominator != 1:
                    continue
                if lo - HALF <= g <= hi + HALF or (not exact and lo - HALF - _tol(lo) - self.abs_tol <= g <= hi + HALF + _tol(hi) + self.abs_tol):
                    return True
            else:
                if lo <= g <= hi or (not exact and lo - _tol(lo) - self.abs_tol <= g <= hi + _tol(hi) + self.abs_tol):
                    return True
        return False

    def has_tie(self) -> bool:
        """Some alternative is (numerically indistinguishable from) an exact rounding tie."""
        if not self.integral:
            return False
        for a in self.alts:
            for v in ((a[1], a[2]) if isinstance(a, tuple) else (a,)):
                if isinstance(v, F):
                    if v.denominator < 10**8:
                        # a fraction with a small denominator is either exactly a tie or farther than 1e-9 from one
                        if v.denominator == 2:
                            return True
                        continue
                    frac = v - math.floor(v)
                    if abs(frac - HALF) <= _tol(v):
                        return True
        return False

    def unique(self) -> Optional[Any]:
        """The single admissible python value, if there is exactly one (no tie, no range, one alternative)."""
        vals = set()
        for a in self.alts:
            if isinstance(a, tuple):
                if a[1] != a[2]:
                    return None
                a = a[1]
            if isinstance(a, F):
                if self.integral:
                    if self.has_tie():
                        return None
                    vals.add(math.floor(a + HALF))
                else:
                    vals.add(a)
            else:
                vals.add(a if isinstance(a, str) else bytes(a))
        if len(vals) != 1:
            return None
        v = vals.pop()
        if isinstance(v, F):
            return int(v) if v.denominator == 1 and self.integral else float(v)
        return v

    def canonical(self) -> Any:
        """A representative python value (first alternative, ties to even)."""
        a = self.alts[0]
        if isinstance(a, tuple):
            a = a[1]
        if isinstance(a, F):
            if self.integral:
                return round(a)
            return float(a)
        return a


# ---------------------------------------------------------------------------------------------
# limits and scales
# ---------------------------------------------------------------------------------------------
Lim = Optional[Tuple[Optional[F], str]]


def _lim(l: Any) -> Lim:
    """-> None (absent) | (value or None, "CLOSED" | "OPEN" | "INFINITE")"""
    if l is None:
        return None
    if isinstance(l, dict):
        v, t = l.get("v"), l.get("type")
        if v is None and t is None:
            return None
    else:
        v, t = l, None
    if t == "INFINITE":
        return (None, "INFINITE")
    if v is None:
        return (None, "UNSPECIFIED")  # a limit without a value that is not INFINITE: not defined
    return (F(v), t or "CLOSED")


def _lower_ok(l: Lim, x: F) -> Optional[bool]:
    if l is None or l[1] == "INFINITE":
        return True
    if l[1] == "UNSPECIFIED":
        return None
    return x > l[0] if l[1] == "OPEN" else x >= l[0]


def _upper_ok(l: Lim, x: F) -> Optional[bool]:
    if l is None or l[1] == "INFINITE":
        return True
    if l[1] == "UNSPECIFIED":
        return None
    return x < l[0] if l[1] == "OPEN" else x <= l[0]


def _and3(a: Optional[bool], b: Optional[bool]) -> Optional[bool]:
    if a is False or b is False:
        return False
    if a is None or b is None:
        return None
    return True


def scale_applies(s: Dict[str, Any], x: F, texttable: bool = False) -> Optional[bool]:
    """Is x inside the limits of the scale?  (7.3.6.6.1: without UPPER-LIMIT the scale is the point LOWER-LIMIT)"""
    lo, hi = _lim(s.get("lo")), _lim(s.get("hi"))
    if lo is None and hi is None:
        return True
    if hi is None:
        if texttable and lo[1] == "CLOSED":
            return x == lo[0]
        return None  # odxtools reads a lone limit of a numeric scale as a half line; the standard as a point
    if lo is None:
        return None  # the standard does not say
    return _and3(_lower_ok(lo, x), _upper_ok(hi, x))


class _CScale:
    """a scale with its limits parsed once"""
    __slots__ = ("s", "lo", "hi", "texttable", "num", "den")

    def __init__(self, s: Dict[str, Any], texttable: bool = False) -> None:
        self.s = s
        self.lo, self.hi = _lim(s.get("lo")), _lim(s.get("hi"))
        self.texttable = texttable
        self.num = [F(c) for c in s.get("num") or []]
        self.den = [F(c) for c in (s.get("den") or [1])]

    def applies(self, x: F) -> Optional[bool]:
        lo, hi = self.lo, self.hi
        if lo is None and hi is None:
            return True
        if hi is None:
            if self.texttable and lo[1] == "CLOSED":
                return x == lo[0]
            return None
        if lo is None:
            return None
        return _and3(_lower_ok(lo, x), _upper_ok(hi, x))


def _poly(coeffs: Sequence[Any], x: F) -> F:
    r = F(0)
    for c in reversed(list(coeffs)):
        r = r * x + F(c)
    return r


def _coef(x: Any) -> F:
    """A coefficient as the description states it: the XML carries the shortest decimal text of a float (0.1), and that
    decimal number -- not its nearest binary double -- is what the description means."""
    if isinstance(x, float) and x == x and x not in (float("inf"), float("-inf")):
        return F(repr(x))
    return F(x)


class _Piece:
    """One linear piece f(x) = (n0 + n1 x) / d0 on the limits of its scale."""

    def __init__(self, s: Dict[str, Any]) -> None:
        self.s = s
        num = s["num"]
        den = s.get("den") or [1]
        self.n0 = _coef(num[0])
        self.n1 = _coef(num[1]) if len(num) > 1 else F(0)
        self.d0 = _coef(den[0])
        self.slope = self.n1 / self.d0
        self.lo, self.hi = _lim(s.get("lo")), _lim(s.get("hi"))
        self.inv = None if s.get("inv") is None else F(s["inv"])
        self._hull = self._compute_hull()
        self._hull_claim = (None, None) if (self.slope == 0 and (self.fin_lo() is None or self.fin_hi() is None)) else self._hull
        self._open_ends = [self.f(l[0]) for l in (self.lo, self.hi) if l is not None and l[1] == "OPEN"]

    def f(self, x: F) -> F:
        return (self.n0 + self.n1 * x) / self.d0

    def finv(self, p: F) -> F:
        return (p * self.d0 - self.n0) / self.n1

    def applies(self, x: F) -> Optional[bool]:
        lo, hi = self.lo, self.hi
        if lo is None and hi is None:
            return True
        if lo is None or hi is None:
            return None
        return _and3(_lower_ok(lo, x), _upper_ok(hi, x))

    def fin_lo(self) -> Optional[F]:
        return self.lo[0] if self.lo is not None and self.lo[1] in ("CLOSED", "OPEN") else None

    def fin_hi(self) -> Optional[F]:
        return self.hi[0] if self.hi is not None and self.hi[1] in ("CLOSED", "OPEN") else None

    def hull(self) -> Tuple[Optional[F], Optional[F]]:
        """closed hull of the exact image of the closed internal interval (None = unbounded)"""
        return self._hull

    def _compute_hull(self) -> Tuple[Optional[F], Optional[F]]:
        a, b = self.fin_lo(), self.fin_hi()
        if self.slope == 0:
            c = self.f(F(0))
            return (c, c)
        ya = None if a is None else self.f(a)
        yb = None if b is None else self.f(b)
        return (ya, yb) if self.slope > 0 else (yb, ya)

    def hull_claim(self) -> Tuple[Optional[F], Optional[F]]:
        """the hull used to claim that a physical value MUST NOT be valid: a constant piece whose internal domain is
        not bounded on both sides has no derived physical limits in odxtools (every value is accepted and mapped to
        the inverse value); the standard does not speak about it -> no claim"""
        return self._hull_claim

    def open_ends(self) -> List[F]:
        """exact physical values of the finite OPEN internal limits"""
        return self._open_ends


# ---------------------------------------------------------------------------------------------
# the reference compu method
# ---------------------------------------------------------------------------------------------
class RefCompu:

    def __init__(self, cm: Dict[str, Any], internal_type: str, physical_type: str) -> None:
        self.cm = cm
        self.cat = cm["cat"]
        self.it = internal_type
        self.pt = physical_type
        self.p_int = physical_type in INT_TYPES
        self.i_int = internal_type in INT_TYPES
        self.pieces: List[_Piece] = []
        self.points: List[Tuple[F, F]] = []
        self._vi_memo: Dict[Any, Optional[bool]] = {}
        self._i2p_memo: Dict[Any, Any] = {}
        tt = self.cat == "TEXTTABLE"
        self.cs_i2p = [_CScale(s, tt) for s in cm.get("i2p") or []] if self.cat != "TAB-INTP" else []
        self.cs_p2i = [_CScale(s) for s in cm.get("p2i") or []]
        if self.cat in ("LINEAR", "SCALE-LINEAR"):
            self.pieces = [_Piece(s) for s in cm["i2p"]]
        elif self.cat == "TAB-INTP":
            self.points = [(F(s["lo"] if not isinstance(s["lo"], dict) else s["lo"]["v"]), F(s["const"])) for s in cm["i2p"]]
        self.monotone_continuous = self._monotone_continuous()
        self.injective = self._injective()

    # ---- structure ---------------------------------------------------------------------------
    def _monotone_continuous(self) -> bool:
        """piecewise linear, continuous on a connected domain, all slopes of one sign (or zero with an inverse value)"""
        if self.cat == "IDENTICAL":
            return True
        if self.cat in ("LINEAR", "SCALE-LINEAR"):
            ps = self.pieces
            if not ps:
                return False
            signs = {(p.slope > 0) - (p.slope < 0) for p in ps} - {0}
            if len(signs) > 1:
                return False
            for p in ps:
                if p.slope == 0 and p.inv is None:
                    return False
                if (p.lo is None) != (p.hi is None):
                    return False
                if (p.lo is not None and p.lo[1] == "UNSPECIFIED") or (p.hi is not None and p.hi[1] == "UNSPECIFIED"):
                    return False
            for a, b in zip(ps, ps[1:]):
                xa, xb = a.fin_hi(), b.fin_lo()
                if xa is None or xb is None or xa != xb:
                    return False
                if a.hi[1] == "OPEN" and b.lo[1] == "OPEN":
                    return False  # the common point belongs to neither scale
                if a.f(xa) != b.f(xb):
                    return False
            return True
        if self.cat == "TAB-INTP":
            ys = [y for _, y in self.points]
            xs = [x for x, _ in self.points]
            if len(ys) < 2 or any(x1 <= x0 for x0, x1 in zip(xs, xs[1:])):
                return False
            up = all(b >= a for a, b in zip(ys, ys[1:]))
            down = all(b <= a for a, b in zip(ys, ys[1:]))
            return up or down
        return False

    def _injective(self) -> bool:
        """The property's notion: real-valued physical type, or integer physical type with integer internal type
        and |slope| >= 1 everywhere; for piecewise methods additionally strictly monotone and continuous; for
        rational methods: affine with the declared inverse being the exact inverse function; text tables:
        distinct texts, no overlapping scales."""
        if self.cat == "IDENTICAL":
            return True
        if self.cat in ("LINEAR", "SCALE-LINEAR"):
            if not self.monotone_continuous or any(p.slope == 0 for p in self.pieces):
                return False
            if self.p_int:
                return self.i_int and all(abs(p.slope) >= 1 for p in self.pieces)
            return True
        if self.cat == "TAB-INTP":
            if not self.monotone_continuous:
                return False
            slopes = [(y1 - y0) / (x1 - x0) for (x0, y0), (x1, y1) in zip(self.points, self.points[1:])]
            if any(s == 0 for s in slopes):
                return False
            if self.p_int:
                return self.i_int and all(abs(s) >= 1 for s in slopes)
            return True
        if self.cat in ("RAT-FUNC", "SCALE-RAT-FUNC"):
            i2p, p2i = self.cm.get("i2p") or [], self.cm.get("p2i")
            if len(i2p) != 1 or not p2i or len(p2i) != 1:
                return False
            a, b = i2p[0], p2i[0]
            if len(a["num"]) > 2 or len(a.get("den") or [1]) > 1 or len(b["num"]) > 2 or len(b.get("den") or [1]) > 1:
                return False
            pa, pb = _Piece(a), _Piece(b)
            if pa.slope == 0:
                return False
            if any(pb.f(pa.f(F(x))) != x for x in (0, 1, 2)):
                return False
            if self.p_int:
                return self.i_int and abs(pa.slope) >= 1
            return True
        if self.cat == "TEXTTABLE":
            scales = self.cm.get("i2p") or []
            texts = [s.get("const") for s in scales]
            if len(set(texts)) != len(texts):
                return False
            if self.cm.get("default_phys") in texts:
                return False
            return not self._tt_overlap()
        return False

    def _tt_overlap(self) -> bool:
        scales = self.cm.get("i2p") or []
        pts = set()
        for s in scales:
            for l in (_lim(s.get("lo")), _lim(s.get("hi"))):
                if l is not None and l[0] is not None:
                    pts.update((l[0] - 1, l[0], l[0] + 1, l[0] + HALF, l[0] - HALF))
        for x in pts:
            if sum(1 for s in scales if scale_applies(s, x, True) is not False) > 1:
                return True
        return False

    # ---- internal side -----------------------------------------------------------------------
    def _applicable(self, scales: Sequence[Dict[str, Any]], x: F, texttable: bool = False) -> Tuple[List[int], bool]:
        """-> (indices of scales that certainly apply, whether some scale's applicability is DON'T-CARE)"""
        yes, unsure = [], False
        cs = self.cs_p2i if scales is self.cm.get("p2i") else self.cs_i2p
        for i, c in enumerate(cs):
            r = c.applies(x)
            if r is True:
                yes.append(i)
            elif r is None:
                unsure = True
        return yes, unsure

    def valid_internal(self, x: Any) -> Optional[bool]:
        """MUST (True) / MUST-NOT (False) / DON'T-CARE (None): admissible type and inside the declared scale limits."""
        try:
            k = (type(x), x)
            return self._vi_memo[k]
        except KeyError:
            r = self._vi_memo[k] = self._valid_internal(x)
            return r
        except TypeError:  # unhashable (bytearray)
            return self._valid_internal(x)

    def _valid_internal(self, x: Any) -> Optional[bool]:
        cat = self.cat
        adm = admissible(self.it, x)
        if cat == "COMPUCODE":
            return False
        if adm is False:
            return False
        if cat == "IDENTICAL":
            return adm
        if self.it not in NUM_TYPES:
            return None
        if adm is None:
            if not is_num(x):
                return None
            inside = self._inside_internal(F(x))
            return False if inside is False else None
        return self._inside_internal(F(x))

    def _inside_internal(self, x: F) -> Optional[bool]:
        cat = self.cat
        if cat in ("LINEAR", "SCALE-LINEAR"):
            yes, unsure = self._applicable(self.cm["i2p"], x)
            return True if yes else (None if unsure else False)
        if cat == "TAB-INTP":
            return self.points[0][0] <= x <= self.points[-1][0]
        if cat in ("RAT-FUNC", "SCALE-RAT-FUNC"):
            yes, unsure = self._applicable(self.cm["i2p"], x)
            if not yes:
                return None if unsure else False
            s = self.cm["i2p"][yes[0]]
            if _poly(s.get("den") or [1], x) == 0:
                return None  # the formula is undefined here
            return True
        if cat == "TEXTTABLE":
            yes, unsure = self._applicable(self.cm["i2p"], x, True)
            if len(yes) == 1 and not unsure:
                return True
            if yes or unsure:
                return None  # overlapping ranges
            return None if self.cm.get("default_phys") is not None else False
        return None

    def int_to_phys_accept(self, x: Any) -> Union[Accept, _Sentinel]:
        """The admissible results of converting the internal value x: Accept | INVALID | DONT_CARE."""
        try:
            k = (type(x), x)
            return self._i2p_memo[k]
        except KeyError:
            r = self._i2p_memo[k] = self._int_to_phys_accept(x)
            return r
        except TypeError:
            return self._int_to_phys_accept(x)

    def _int_to_phys_accept(self, x: Any) -> Union[Accept, _Sentinel]:
        v = self.valid_internal(x)
        if v is False:
            return INVALID
        cat = self.cat
        if cat == "IDENTICAL":
            if v is None:
                return DONT_CARE
            if is_num(x):
                return Accept([F(x)], self.p_int)
            return Accept([x])
        if not is_num(x) or admissible(self.it, x) is not True:
            return DONT_CARE
        X = F(x)
        if cat == "TEXTTABLE":
            yes, unsure = self._applicable(self.cm["i2p"], X, True)
            if unsure or len(yes) > 1:
                return DONT_CARE
            if len(yes) == 1:
                return Accept([self.cm["i2p"][yes[0]]["const"]])
            if self.cm.get("default_phys") is not None:
                return Accept([self.cm["default_phys"]])
            return INVALID
        if v is None:
            return DONT_CARE
        if cat in ("LINEAR", "SCALE-LINEAR"):
            yes, unsure = self._applicable(self.cm["i2p"], X)
            vals = {self.pieces[i].f(X) for i in yes}
            if unsure or len(vals) != 1:
                return DONT_CARE
            return Accept([vals.pop()], self.p_int)
        if cat == "TAB-INTP":
            for (x0, y0), (x1, y1) in zip(self.points, self.points[1:]):
                if x0 <= X <= x1:
                    return Accept([y0 + (X - x0) * (y1 - y0) / (x1 - x0)], self.p_int)
            return INVALID
        if cat in ("RAT-FUNC", "SCALE-RAT-FUNC"):
            yes, unsure = self._applicable(self.cm["i2p"], X)
            vals = set()
            for i in yes:
                s = self.cm["i2p"][i]
                d = _poly(s.get("den") or [1], X)
                if d == 0:
                    return DONT_CARE
                vals.add(_poly(s["num"], X) / d)
            if unsure or len(vals) != 1:
                return DONT_CARE
            return Accept([vals.pop()], self.p_int)
        return DONT_CARE

    # ---- physical side -----------------------------------------------------------------------
    def _near(self, p: F, e: F) -> bool:
        """p cannot be told apart from the boundary value e after rounding to the physical type"""
        if self.p_int:
            if e.denominator == 1:
                return p == e
            return abs(p - e) < 1
        return abs(p - e) <= _tol(e)

    def _outside(self, p: F, hull: Tuple[Optional[F], Optional[F]]) -> bool:
        lo, hi = hull
        slack = HALF if self.p_int else 0
        if lo is not None and p < lo - slack and p < lo - slack - _tol(lo):
            return True
        if hi is not None and p > hi + slack and p > hi + slack + _tol(hi):
            return True
        return False

    def _int_candidates(self, xr: F, width: F, snap: Sequence[F] = ()) -> Optional[List[F]]:
        """internal candidates around the exact pre-image xr (integer internal types: all integers within width;
        float internal types: xr itself and the scale limits within width -- an image computed in floating point may
        lie a rounding error beside the exact image of the limit)"""
        if not self.i_int:
            return [xr] + [b for b in snap if abs(b - xr) <= width]
        lo, hi = math.ceil(xr - width), math.floor(xr + width)
        if hi - lo > 64:
            return None
        return [F(i) for i in range(lo, hi + 1)]

    def _is_image(self, p: F) -> Optional[bool]:
        """Is p an admissible image of an internal value that MUST be valid?  (piecewise linear categories)"""
        unsure = False
        cands: List[F] = []
        if self.cat in ("LINEAR", "SCALE-LINEAR"):
            for pc in self.pieces:
                if self._outside(p, pc.hull()):
                    continue
                if pc.slope != 0:
                    # (real-valued physical type: the pre-image is known up to the floating point tolerance of p)
                    w = (HALF / abs(pc.slope) + 1) if self.p_int else _tol(p) / abs(pc.slope)
                    c = self._int_candidates(pc.finv(p), w, [b for b in (pc.fin_lo(), pc.fin_hi()) if b is not None])
                    if c is None:
                        unsure = True
                    else:
                        cands.extend(c)
                else:
                    for v in (pc.fin_lo(), pc.fin_hi(), pc.inv):
                        if v is not None:
                            cands.extend([v, v + 1, v - 1])
                    if pc.fin_lo() is None and pc.fin_hi() is None:
                        cands.extend([F(0), F(1)])
        elif self.cat == "TAB-INTP":
            for (x0, y0), (x1, y1) in zip(self.points, self.points[1:]):
                if self._outside(p, (min(y0, y1), max(y0, y1))):
                    continue
                if y0 != y1:
                    s = (y1 - y0) / (x1 - x0)
                    w = (HALF / abs(s) + 1) if self.p_int else _tol(p) / abs(s)
                    c = self._int_candidates(x0 + (p - y0) / s, w, [x0, x1])
                    if c is None:
                        unsure = True
                    else:
                        cands.extend(c)
                else:
                    cands.extend([x0, x1])
        for x in cands:
            xv: Any = int(x) if self.i_int else float(x)
            if self.i_int and x.denominator != 1:
                continue
            if self.valid_internal(xv) is True:
                acc = self.int_to_phys_accept(xv)
                if isinstance(acc, Accept) and acc.ok(p, exact=self.p_int):
                    if acc.has_tie():
                        unsure = True  # p is the image only under one of the two admissible tie resolutions
                    else:
                        return True
        return None if unsure else False

    @staticmethod
    def _outside_exact(p: F, hull: Tuple[Optional[F], Optional[F]]) -> bool:
        lo, hi = hull
        return (lo is not None and p < lo) or (hi is not None and p > hi)

    def valid_physical_image(self, x: Any, p: Any) -> Optional[bool]:
        """p is the physical value an implementation COMPUTED for the internal value x.  True: it MUST be declared valid
        (x must be valid, p is its image up to the rounding tolerance -- also when floating point put it a rounding error
        beyond the exact physical range -- and the method is monotone continuous piecewise linear); else None."""
        if self.cat not in ("LINEAR", "SCALE-LINEAR", "TAB-INTP") or not self.monotone_continuous:
            return None
        if not is_num(p) or admissible(self.pt, p) is not True or self.valid_internal(x) is not True:
            return None
        acc = self.int_to_phys_accept(x)
        if not isinstance(acc, Accept) or acc.has_tie() or not acc.ok(p):
            return None
        P = F(p)
        if self.p_int and abs(P) >= 2**53:
            return None
        if any(self._near(P, e) for pc in self.pieces for e in pc.open_ends()):
            return None
        return True

    def valid_physical(self, p: Any) -> Optional[bool]:
        """True: p MUST be declared valid (it is the image of a valid internal value under a monotone continuous
        piecewise-linear method / lies inside the declared inverse of a rational method / is a unique table text);
        False: MUST NOT (outside the physical range, on an exactly representable OPEN boundary of an injective
        method, text not in the table); None: DON'T-CARE."""
        cat = self.cat
        adm = admissible(self.pt, p)
        if cat == "COMPUCODE":
            return False
        if cat == "IDENTICAL":
            return adm if adm is not False else None
        if cat == "TEXTTABLE":
            if not isinstance(p, str):
                return None
            n = sum(1 for s in self.cm.get("i2p") or [] if s.get("const") == p)
            if n == 1 and p != self.cm.get("default_phys"):
                return True
            return None
        if not is_num(p):
            return False if adm is False else None
        P = F(p)
        if cat in ("LINEAR", "SCALE-LINEAR", "TAB-INTP"):
            if cat == "TAB-INTP":
                ys = [y for _, y in self.points]
                hulls = [(min(ys), max(ys))]
                open_ends: List[F] = []
            else:
                hulls = [pc.hull_claim() for pc in self.pieces]
                open_ends = [e for pc in self.pieces for e in pc.open_ends()]
            if all(self._outside(P, h) for h in hulls):
                return False
            if self.p_int and abs(P) >= 2**53:
                return None  # odxtools evaluates the formulas in double precision: no claim about images beyond 2^53
            if any(self._near(P, e) for e in open_ends):
                # MUST NOT only exactly ON an exactly representable OPEN boundary (a value one rounding error beside a
                # boundary that has no exact binary representation is DON'T-CARE)
                if self.injective and any(P == e for e in open_ends) and \
                        all(e.denominator == 1 or not self.p_int for e in open_ends) and self._is_image(P) is False:
                    return False
                return None
            if adm is not True:
                return None
            if not self.p_int and all(self._outside_exact(P, h) for h in hulls):
                return None  # a rounding error outside the exact range: only claimed for computed images (valid_physical_image)
            if self.monotone_continuous and self._is_image(P) is True:
                return True
            return None
        if cat in ("RAT-FUNC", "SCALE-RAT-FUNC"):
            p2i = self.cm.get("p2i")
            if not p2i:
                return None
            yes, unsure = self._applicable(p2i, P)
            if not yes:
                return None if unsure else False
            if adm is not True:
                return None
            if _poly(p2i[yes[0]].get("den") or [1], P) == 0:
                return None
            return True
        return None

    def p2i_tolerance(self, p: Any) -> F:
        """Absolute error a double precision evaluation of (p*d0 - n0)/n1 may show because of cancellation: 1e-13 (about
        450 ulp) of the magnitude of the intermediate terms, divided by |n1|; the largest over the linear pieces."""
        if not self.pieces or not is_num(p):
            return F(0)
        P = F(p)
        return max([F(1, 10**13) * (abs(P * pc.d0) + abs(pc.n0)) / abs(pc.n1) for pc in self.pieces if pc.n1 != 0] or [F(0)])

    def phys_to_int_accept(self, p: Any) -> Union[Accept, _Sentinel]:
        """The admissible results of converting p (only meaningful for values that are declared valid)."""
        cat = self.cat
        if cat == "COMPUCODE":
            return INVALID
        if cat == "IDENTICAL":
            if admissible(self.pt, p) is not True:
                return DONT_CARE
            if is_num(p):
                return Accept([F(p)], self.i_int)
            return Accept([p])
        if cat == "TEXTTABLE":
            if not isinstance(p, str):
                return DONT_CARE
            scales = [s for s in self.cm.get("i2p") or [] if s.get("const") == p]
            if len(scales) > 1 or p == self.cm.get("default_phys"):
                return DONT_CARE
            if not scales:
                return DONT_CARE if self.cm.get("default_int") is not None else INVALID
            s = scales[0]
            if s.get("inv") is not None:
                return Accept([F(s["inv"])], self.i_int)
            lo, hi = _lim(s.get("lo")), _lim(s.get("hi"))
            if lo is not None and lo[1] == "CLOSED" and (hi is None or (hi[1] == "CLOSED" and hi[0] == lo[0])):
                return Accept([lo[0]], self.i_int)
            return DONT_CARE  # a range without COMPU-INVERSE-VALUE: which member is not defined
        if not is_num(p):
            return DONT_CARE
        P = F(p)
        if cat in ("LINEAR", "SCALE-LINEAR"):
            alts: List[Any] = []
            for pc in self.pieces:
                # (a constant piece on a half line: odxtools derives a one-sided physical range, see hull_claim)
                if self._outside(P, pc.hull_claim() if pc.slope == 0 else pc.hull()):
                    continue
                if pc.slope != 0:
                    alts.append(pc.finv(P))
                elif pc.inv is not None:
                    alts.append(pc.inv)
                else:
                    return DONT_CARE
            return Accept(alts, self.i_int, self.p2i_tolerance(p)) if alts else INVALID
        if cat == "TAB-INTP":
            alts = []
            for (x0, y0), (x1, y1) in zip(self.points, self.points[1:]):
                if self._outside(P, (min(y0, y1), max(y0, y1))):
                    continue
                if y0 == y1:
                    alts.append(("range", x0, x1))
                else:
                    xr = x0 + (P - y0) * (x1 - x0) / (y1 - y0)
                    alts.append(min(max(xr, x0), x1))
            return Accept(alts, self.i_int) if alts else INVALID
        if cat in ("RAT-FUNC", "SCALE-RAT-FUNC"):
            p2i = self.cm.get("p2i")
            if not p2i:
                return INVALID
            yes, unsure = self._applicable(p2i, P)
            vals = set()
            for i in yes:
                s = p2i[i]
                d = _poly(s.get("den") or [1], P)
                if d == 0:
                    return DONT_CARE
                vals.add(_poly(s["num"], P) / d)
            if unsure or len(vals) > 1:
                return DONT_CARE
            if not vals:
                return INVALID
            return Accept([vals.pop()], self.i_int)
        return DONT_CARE


# ---------------------------------------------------------------------------------------------
# functional API (cached compilation)
# ---------------------------------------------------------------------------------------------
_CACHE: Dict[str, RefCompu] = {}


def compile_cm(cm_spec: Dict[str, Any], internal_type: str, physical_type: str) -> RefCompu:
    key = json.dumps([cm_spec, internal_type, physical_type], sort_keys=True, default=repr)
    r = _CACHE.get(key)
    if r is None:
        if len(_CACHE) > 4096:
            _CACHE.clear()
        r = _CACHE[key] = RefCompu(cm_spec, internal_type, physical_type)
    return r


def _value(acc: Union[Accept, _Sentinel]) -> Any:
    return acc.canonical() if isinstance(acc, Accept) else acc


def int_to_phys(cm_spec: Dict[str, Any], internal_type: str, physical_type: str, x: Any) -> Any:
    """-> python value (integer results rounded to nearest, ties to even) | INVALID | DONT_CARE"""
    return _value(compile_cm(cm_spec, internal_type, physical_type).int_to_phys_accept(x))


def phys_to_int(cm_spec: Dict[str, Any], internal_type: str, physical_type: str, p: Any) -> Any:
    return _value(compile_cm(cm_spec, internal_type, physical_type).phys_to_int_accept(p))


def int_to_phys_accept(cm_spec: Dict[str, Any], internal_type: str, physical_type: str, x: Any) -> Union[Accept, _Sentinel]:
    return compile_cm(cm_spec, internal_type, physical_type).int_to_phys_accept(x)


def phys_to_int_accept(cm_spec: Dict[str, Any], internal_type: str, physical_type: str, p: Any) -> Union[Accept, _Sentinel]:
    return compile_cm(cm_spec, internal_type, physical_type).phys_to_int_accept(p)


def valid_internal(cm_spec: Dict[str, Any], internal_type: str, physical_type: str, x: Any) -> Optional[bool]:
    return compile_cm(cm_spec, internal_type, physical_type).valid_internal(x)


def valid_physical(cm_spec: Dict[str, Any], internal_type: str, physical_type: str, p: Any) -> Optional[bool]:
    return compile_cm(cm_spec, internal_type, physical_type).valid_physical(p)


def valid_physical_image(cm_spec: Dict[str, Any], internal_type: str, physical_type: str, x: Any, p: Any) -> Optional[bool]:
    return compile_cm(cm_spec, internal_type, physical_type).valid_physical_image(x, p)


def is_injective(cm_spec: Dict[str, Any], internal_type: str, physical_type: str) -> bool:
    return compile_cm(cm_spec, internal_type, physical_type).injective


def is_monotone_continuous(cm_spec: Dict[str, Any], internal_type: str, physical_type: str) -> bool:
    return compile_cm(cm_spec, internal_type, physical_type).monotone_continuous
