"""C18 inputs: base databases (somersault.pdx + three generated ones) and the XML edit alphabet.

No odxtools import.  A database is a dict {file name: XML text} of its ODX documents (.odx-d / .odx-cs /
.odx-c); edits are applied with xml.etree to the .odx-d documents and yield a new dict, which the check
writes to emit.scratch_dir() and loads through the real loader.  Everything here is deterministic.

DOP edits (the DATA-OBJECT-PROP is edited IN PLACE, every referring PARAM stays textually identical):
                  dop-bit-length | dop-data-type | dop-compu-category   (every DATA-OBJECT-PROP of every layer)
edit alphabet (DESIGN 5/C18):
  service edits : delete | add (copy, new name, new request, new constant request prefix) | rename (same request)
  parameter edits (every PARAM of every REQUEST / POS-RESPONSE / NEG-RESPONSE):
                  byte-position | bit-length | coded-value | semantic | data-type | linked-dop
An edit that does not apply to a target (e.g. coded-value of a VALUE parameter) raises NotApplicable(reason).
"""
from __future__ import annotations

import copy
import zipfile
import xml.etree.ElementTree as ET
from typing import Any, Dict, List, Optional, Tuple

from odxmodel import emit

XSI_NS = "http://www.w3.org/2001/XMLSchema-instance"
XSI_TYPE = "{%s}type" % XSI_NS
ET.register_namespace("xsi", XSI_NS)

Files = Dict[str, str]

SERVICE_EDITS = ["delete", "add", "rename"]
DOP_EDITS = ["dop-bit-length", "dop-data-type", "dop-compu-category"]
PARAM_EDITS = ["byte-position", "byte-position-remove", "byte-position-add", "bit-length", "coded-value", "semantic", "data-type", "linked-dop"]
MSG_COLLECTIONS = [("REQUESTS", "REQUEST"), ("POS-RESPONSES", "POS-RESPONSE"), ("NEG-RESPONSES", "NEG-RESPONSE")]
LAYER_TAGS = ["PROTOCOL", "FUNCTIONAL-GROUP", "BASE-VARIANT", "ECU-VARIANT", "ECU-SHARED-DATA"]
# every parameter kind that links a DOP (odxtools: ParameterWithDOP subclasses)
DOP_PARAM_KINDS = ("VALUE", "PHYS-CONST", "SYSTEM", "LENGTH-KEY")
SUFFIX_COPY = "_c18copy"
SUFFIX_REN = "_c18ren"
SUFFIX_DOP = "_c18"


class NotApplicable(Exception):
    pass


# ---------------------------------------------------------------------------------------------
# generated base databases
# ---------------------------------------------------------------------------------------------
def U(bits: int, base: str = "A_UINT32") -> Dict[str, Any]:
    return {"k": "STD", "base": base, "bits": bits}


def cc(name: str, value: int, byte: Optional[int], bits: int = 8, bit: Optional[int] = None, semantic: Optional[str] = None,
       base: str = "A_UINT32") -> Dict[str, Any]:
    return {"t": "CODED-CONST", "name": name, "value": value, "byte": byte, "bit": bit, "dct": U(bits, base), "semantic": semantic}


def val(name: str, dop: str, byte: Optional[int] = None, **kw: Any) -> Dict[str, Any]:
    d = {"t": "VALUE", "name": name, "dop": dop, "byte": byte}
    d.update(kw)
    return d


def mrp(name: str, byte: int, rq_byte: int, length: int) -> Dict[str, Any]:
    return {"t": "MATCHING-REQUEST-PARAM", "name": name, "byte": byte, "rq_byte": rq_byte, "len": length}


def spec_flat() -> Dict[str, Any]:
    """One base variant, three services, multi-byte and sub-byte constant prefixes, NRC-CONST, PHYS-CONST, RESERVED,
    a parameter without BYTE-POSITION, a shared negative response, an unreferenced response, services with two positive /
    two negative responses, LENGTH-KEY parameters (request and response) with the values they size, a SYSTEM parameter."""
    dops = [{"name": "u8", "dct": U(8)}, {"name": "u8b", "dct": U(8)}, {"name": "u16", "dct": U(16)},
            {"name": "s8", "dct": U(8, "A_INT32")}, {"name": "u4", "dct": U(4)},
            {"name": "u32", "dct": U(32)}, {"name": "u32b", "dct": U(32)},
            {"name": "str4", "dct": {"k": "STD", "base": "A_ASCIISTRING", "bits": 32}, "phys": "A_UNICODE2STRING"},
            {"name": "str4b", "dct": {"k": "STD", "base": "A_ASCIISTRING", "bits": 32}, "phys": "A_UNICODE2STRING"},
            {"name": "f32", "dct": {"k": "STD", "base": "A_FLOAT32", "bits": 32}, "phys": "A_FLOAT32"},
            {"name": "f32b", "dct": {"k": "STD", "base": "A_FLOAT32", "bits": 32}, "phys": "A_FLOAT32"},
            {"name": "blob", "dct": {"k": "PLEN", "base": "A_BYTEFIELD", "key_id": "BVF.RQ_var.len"}, "phys": "A_BYTEFIELD"},
            {"name": "rblob", "dct": {"k": "PLEN", "base": "A_BYTEFIELD", "key_id": "BVF.PR_var.rlen"}, "phys": "A_BYTEFIELD"}]
    msgs = [
        {"kind": "REQUEST", "name": "RQ_read", "params": [cc("sid", 0x22, 0, semantic="SERVICE-ID"), cc("did", 0x0102, 1, bits=16, semantic="ID")]},
        {"kind": "POS-RESPONSE", "name": "PR_read", "params": [cc("sid", 0x62, 0, semantic="SERVICE-ID"), mrp("did", 1, 1, 2),
                                                               val("data", "u16", 3, semantic="DATA")]},
        {"kind": "REQUEST", "name": "RQ_write", "params": [cc("sid", 0x2E, 0), val("val", "u8", 1, default=7),
                                                           {"t": "PHYS-CONST", "name": "magic", "byte": 2, "dop": "s8", "const": -3}]},
        {"kind": "POS-RESPONSE", "name": "PR_write", "params": [cc("sid", 0x6E, 0)]},
        {"kind": "NEG-RESPONSE", "name": "NR_gen", "params": [cc("sid", 0x7F, 0), mrp("rq_sid", 1, 0, 1),
                                                              {"t": "NRC-CONST", "name": "nrc", "byte": 2, "values": [0x10, 0x11, 0x12], "dct": U(8)}]},
        {"kind": "REQUEST", "name": "RQ_reset", "params": [cc("sid", 0x11, 0), cc("sub", 0x1, 1, bits=4, bit=4), val("mode", "u4", 1, bit=0),
                                                           {"t": "RESERVED", "name": "rsv", "byte": 2, "bits": 8}, val("tail", "u8")]},
        {"kind": "POS-RESPONSE", "name": "PR_unused", "params": [cc("sid", 0x51, 0), val("x", "u8", 1)]},
        {"kind": "POS-RESPONSE", "name": "PR_read_long", "params": [cc("sid", 0x62, 0, semantic="SERVICE-ID"), mrp("did", 1, 1, 2),
                                                                    val("data", "u16", 3, semantic="DATA"), val("more", "u8b", 5)]},
        {"kind": "NEG-RESPONSE", "name": "NR_busy", "params": [cc("sid", 0x7F, 0), mrp("rq_sid", 1, 0, 1), cc("nrc", 0x21, 2)]},
        # PHYSICAL-DEFAULT-VALUEs that CPython does not intern (big integers, string, float): two separately loaded
        # inputs hold EQUAL but not IDENTICAL objects
        {"kind": "REQUEST", "name": "RQ_defs", "params": [cc("sid", 0x30, 0), val("d1000", "u16", 1, default=1000), val("d70000", "u32", 3, default=70000),
                                                          val("dstr", "str4", 7, default="abcd"), val("dflt", "f32", 11, default=1.5)]},
        {"kind": "POS-RESPONSE", "name": "PR_defs", "params": [cc("sid", 0x70, 0), val("e1000", "u16", 1, default=1000), val("estr", "str4b", 3, default="wxyz"),
                                                               val("eflt", "f32b", 7, default=-2.25)]},
        # LENGTH-KEY + a value whose length it determines (PARAM-LENGTH-INFO-TYPE), SYSTEM parameter
        {"kind": "REQUEST", "name": "RQ_var", "params": [cc("sid", 0x2F, 0), {"t": "LENGTH-KEY", "name": "len", "byte": 1, "dop": "u8", "id": "BVF.RQ_var.len",
                                                                             "semantic": "LENGTH"},
                                                         val("blob", "blob", 2)]},
        {"kind": "POS-RESPONSE", "name": "PR_var", "params": [cc("sid", 0x6F, 0), {"t": "SYSTEM", "name": "when", "byte": 1, "dop": "u8", "sysparam": "SECOND"},
                                                              {"t": "LENGTH-KEY", "name": "rlen", "byte": 2, "dop": "u8b", "id": "BVF.PR_var.rlen"},
                                                              val("rblob", "rblob", 3)]},
    ]
    svcs = [{"name": "read", "request": "RQ_read", "pos": ["PR_read", "PR_read_long"], "neg": ["NR_gen"], "semantic": "DATA-READ"},
            {"name": "write", "request": "RQ_write", "pos": ["PR_write"], "neg": ["NR_gen", "NR_busy"], "semantic": "DATA-WRITE"},
            {"name": "reset", "request": "RQ_reset"},
            {"name": "var", "request": "RQ_var", "pos": ["PR_var"], "neg": ["NR_gen"]},
            {"name": "defs", "request": "RQ_defs", "pos": ["PR_defs"], "neg": ["NR_gen"]}]
    layer = {"type": "BASE-VARIANT", "name": "BVF", "dops": dops, "msgs": msgs, "svcs": svcs}
    return {"containers": [{"name": "c18flat", "layers": [layer]}]}


def spec_tree() -> Dict[str, Any]:
    """protocol -> base variant -> two ECU variants with value inheritance, NOT-INHERITED services and DOPs,
    layer-local services / DOPs and communication parameters at three levels (one overridden, none duplicated)."""
    subset = {"name": "C18CS", "dops": [{"name": "cpu16", "dct": U(16)}],
              "comparams": [{"name": "CP_A", "dop": "cpu16", "default": 1}, {"name": "CP_B", "dop": "cpu16", "default": 2},
                            {"name": "CP_C", "dop": "cpu16", "default": 3}, {"name": "CP_D", "dop": "cpu16", "default": 4}]}
    cspec = {"name": "C18CSPEC", "prot_stacks": [{"name": "PS", "subsets": [("C18CS", "C18CS")]}]}

    def cp(name: str, value: int) -> Dict[str, Any]:
        return {"id": "C18CS." + name, "docref": "C18CS", "value": value, "protocol": "TP"}

    proto = {"type": "PROTOCOL", "name": "TP", "comparam_spec": "C18CSPEC", "prot_stack": "PS",
             "dops": [{"name": "pu8", "dct": U(8)}],
             "msgs": [{"kind": "REQUEST", "name": "RQ_tp", "params": [cc("sid", 0x3E, 0), cc("sub", 0, 1)]},
                      {"kind": "POS-RESPONSE", "name": "PR_tp", "params": [cc("sid", 0x7E, 0), val("st", "pu8", 1)]}],
             "svcs": [{"name": "tp", "request": "RQ_tp", "pos": ["PR_tp"]}],
             "comparams": [cp("CP_A", 10), cp("CP_B", 20)]}
    base = {"type": "BASE-VARIANT", "name": "TB", "parents": [{"layer": "TP"}],
            "dops": [{"name": "bu8", "dct": U(8)}, {"name": "bu16", "dct": U(16)}, {"name": "bu8alt", "dct": U(8)}],
            "msgs": [{"kind": "REQUEST", "name": "RQ_a", "params": [cc("sid", 0x21, 0), val("p", "bu8", 1)]},
                     {"kind": "POS-RESPONSE", "name": "PR_a", "params": [cc("sid", 0x61, 0), val("r", "bu16", 1)]},
                     {"kind": "REQUEST", "name": "RQ_b", "params": [cc("sid", 0x23, 0), val("q", "bu8", 1, semantic="DATA")]},
                     {"kind": "POS-RESPONSE", "name": "PR_b", "params": [cc("sid", 0x63, 0)]},
                     {"kind": "NEG-RESPONSE", "name": "NR_t", "params": [cc("sid", 0x7F, 0), mrp("rq_sid", 1, 0, 1), val("code", "bu8", 2)]}],
            "svcs": [{"name": "svc_a", "request": "RQ_a", "pos": ["PR_a"], "neg": ["NR_t"]},
                     {"name": "svc_b", "request": "RQ_b", "pos": ["PR_b"], "neg": ["NR_t"]}],
            # CP_C twice: once for protocol TP, once without PROTOCOL-SNREF (two different communication parameters)
            "comparams": [cp("CP_B", 21), cp("CP_C", 30), {"id": "C18CS.CP_C", "docref": "C18CS", "value": 31}]}
    e1 = {"type": "ECU-VARIANT", "name": "TE1", "parents": [{"layer": "TB", "not_inherited": {"comms": ["svc_b"], "dops": ["bu8alt"]}}],
          "dops": [{"name": "e1u8", "dct": U(8)}, {"name": "e1u16", "dct": U(16)}]}
    e2 = {"type": "ECU-VARIANT", "name": "TE2", "parents": [{"layer": "TB"}],
          "msgs": [{"kind": "REQUEST", "name": "RQ_c", "params": [cc("sid", 0x25, 0), val("z", "bu8", 1, snref=True)]},
                   {"kind": "POS-RESPONSE", "name": "PR_c", "params": [cc("sid", 0x65, 0), mrp("z", 1, 1, 1)]}],
          "svcs": [{"name": "svc_c", "request": "RQ_c", "pos": ["PR_c"]}],
          "comparams": [cp("CP_D", 40)]}
    return {"containers": [{"name": "c18tree", "layers": [proto, base, e1, e2]}], "comparam_subsets": [subset], "comparam_specs": [cspec]}


def spec_single() -> Dict[str, Any]:
    """A base variant with exactly ONE service (deleting it leaves empty layers), an ECU variant that inherits it and
    one that does not inherit it by short name (the reference has to be renamed with the service)."""
    solo = {"type": "BASE-VARIANT", "name": "SOLO", "dops": [{"name": "d8", "dct": U(8)}, {"name": "d8x", "dct": U(8)}],
            "msgs": [{"kind": "REQUEST", "name": "RQ_only", "params": [cc("sid", 0x31, 0), cc("sub", 0x01, 1), val("arg", "d8", 2)]},
                     {"kind": "POS-RESPONSE", "name": "PR_only", "params": [cc("sid", 0x71, 0), val("res", "d8", 1)]}],
            "svcs": [{"name": "only", "request": "RQ_only", "pos": ["PR_only"]}]}
    v1 = {"type": "ECU-VARIANT", "name": "SOLOV", "parents": [{"layer": "SOLO"}]}
    v2 = {"type": "ECU-VARIANT", "name": "SOLON", "parents": [{"layer": "SOLO", "not_inherited": {"comms": ["only"]}}],
          "msgs": [{"kind": "REQUEST", "name": "RQ_mine", "params": [cc("sid", 0x32, 0)]}],
          "svcs": [{"name": "mine", "request": "RQ_mine"}]}
    return {"containers": [{"name": "c18single", "layers": [solo, v1, v2]}]}


def spec_shared() -> Dict[str, Any]:
    """Two containers (two ODX-D documents): protocol -> base variant -> ECU variant with communication parameters in the
    first, an ECU-SHARED-DATA layer (DOPs and one service, no communication parameters possible) in the SECOND one, so
    that the shared-data layer comes after layers with communication parameters in the database's layer list.  The base
    variant inherits from the shared data."""
    subset = {"name": "C18SS", "dops": [{"name": "cpu16", "dct": U(16)}],
              "comparams": [{"name": "CP_A", "dop": "cpu16", "default": 1}, {"name": "CP_B", "dop": "cpu16", "default": 2},
                            {"name": "CP_C", "dop": "cpu16", "default": 3}]}
    cspec = {"name": "C18SSPEC", "prot_stacks": [{"name": "PS", "subsets": [("C18SS", "C18SS")]}]}

    def cp(name: str, value: int) -> Dict[str, Any]:
        return {"id": "C18SS." + name, "docref": "C18SS", "value": value, "protocol": "SP"}

    proto = {"type": "PROTOCOL", "name": "SP", "comparam_spec": "C18SSPEC", "prot_stack": "PS", "comparams": [cp("CP_A", 10), cp("CP_B", 20)]}
    base = {"type": "BASE-VARIANT", "name": "SB",
            "parents": [{"layer": "SP"}, {"layer": "SD", "docref": "c18shared_b", "doctype": "CONTAINER"}],
            "dops": [{"name": "sb8", "dct": U(8)}, {"name": "sb8x", "dct": U(8)}],
            "msgs": [{"kind": "REQUEST", "name": "RQ_x", "params": [cc("sid", 0x27, 0), val("lvl", "sb8", 1)]},
                     {"kind": "POS-RESPONSE", "name": "PR_x", "params": [cc("sid", 0x67, 0), mrp("lvl", 1, 1, 1)]}],
            "svcs": [{"name": "svc_x", "request": "RQ_x", "pos": ["PR_x"]}],
            "comparams": [cp("CP_C", 30)]}
    ecu = {"type": "ECU-VARIANT", "name": "SE", "parents": [{"layer": "SB"}], "dops": [{"name": "se8", "dct": U(8)}]}
    shared = {"type": "ECU-SHARED-DATA", "name": "SD", "dops": [{"name": "sd8", "dct": U(8)}, {"name": "sd16", "dct": U(16)}, {"name": "sd8x", "dct": U(8)}],
              "msgs": [{"kind": "REQUEST", "name": "RQ_s", "params": [cc("sid", 0x28, 0), val("w", "sd8", 1)]},
                       {"kind": "POS-RESPONSE", "name": "PR_s", "params": [cc("sid", 0x68, 0), val("v", "sd16", 1)]}],
              "svcs": [{"name": "svc_s", "request": "RQ_s", "pos": ["PR_s"]}]}
    return {"containers": [{"name": "c18shared_a", "layers": [proto, base, ecu], "foreign_layer_types": {"SD": "ECU-SHARED-DATA"}},
                           {"name": "c18shared_b", "layers": [shared]}],
            "comparam_subsets": [subset], "comparam_specs": [cspec]}


AWKWARD_NAMES = ["2x_flips", "return", "index", "count", "copy", "get", "plain"]


def spec_names() -> Dict[str, Any]:
    """Services whose short names cannot be python identifiers or collide with list attributes (digit-leading, keyword,
    `index` / `count` / `copy` / `get`), in a base variant called `class` inherited by an ECU variant called `2nd`.
    Every service has its own request and positive response with a constant, a VALUE and a MATCHING-REQUEST-PARAM, so
    that every parameter edit applies to every awkward name."""
    msgs: List[Dict[str, Any]] = []
    svcs: List[Dict[str, Any]] = []
    for i, n in enumerate(AWKWARD_NAMES):
        msgs.append({"kind": "REQUEST", "name": f"RQ_{i}", "params": [cc("sid", 0x40 + i, 0, semantic="SERVICE-ID"), val("arg", "n8", 1)]})
        msgs.append({"kind": "POS-RESPONSE", "name": f"PR_{i}", "params": [cc("sid", 0x80 + i, 0), mrp("arg", 1, 1, 1), val("res", "n16", 2)]})
        svcs.append({"name": n, "request": f"RQ_{i}", "pos": [f"PR_{i}"]})
    base = {"type": "BASE-VARIANT", "name": "class", "dops": [{"name": "n8", "dct": U(8)}, {"name": "n8b", "dct": U(8)}, {"name": "n16", "dct": U(16)},
                                                              {"name": "n16b", "dct": U(16)}, {"name": "unused", "dct": U(8)}],
            "msgs": msgs, "svcs": svcs}
    ecu = {"type": "ECU-VARIANT", "name": "2nd", "parents": [{"layer": "class", "not_inherited": {"comms": ["count"]}}]}
    return {"containers": [{"name": "c18names", "layers": [base, ecu]}]}


def spec_override() -> Dict[str, Any]:
    """An ECU variant that OVERRIDES an inherited service: own DIAG-SERVICE of the same short name with own request and
    responses (same content, own IDs), next to an ECU variant that simply inherits.  The database has no DOP at all, so
    that a comparison against a copy whose container is renamed has an exact answer too (the identity of a DOP includes
    its document).  A RESERVED parameter ends the constant request prefix early: edits behind it keep the prefix."""

    def msgs(n: int) -> List[Dict[str, Any]]:
        return [{"kind": "REQUEST", "name": f"RQ_{n}", "params": [cc("sid", 0x50 + n, 0, semantic="SERVICE-ID"), {"t": "RESERVED", "name": "rsv", "byte": 1, "bits": 8},
                                                               cc("tail", 4 + n, 2, semantic="T"), cc("wide", 0x0102, 3, bits=16)]},
                {"kind": "POS-RESPONSE", "name": f"PR_{n}", "params": [cc("sid", 0x90 + n, 0), mrp("echo", 1, 1, 1), cc("status", n, 2)]},
                {"kind": "NEG-RESPONSE", "name": f"NR_{n}", "params": [cc("sid", 0x7F, 0), mrp("rq_sid", 1, 0, 1),
                                                                       {"t": "NRC-CONST", "name": "code", "byte": 2, "values": [0x22, 0x31], "dct": U(8)}]}]

    def svc(n: int) -> Dict[str, Any]:
        return {"name": f"s{n}", "request": f"RQ_{n}", "pos": [f"PR_{n}"], "neg": [f"NR_{n}"]}

    ob = {"type": "BASE-VARIANT", "name": "OB", "msgs": msgs(1) + msgs(2), "svcs": [svc(1), svc(2)]}
    oe1 = {"type": "ECU-VARIANT", "name": "OE1", "parents": [{"layer": "OB"}], "msgs": msgs(1), "svcs": [svc(1)]}
    oe2 = {"type": "ECU-VARIANT", "name": "OE2", "parents": [{"layer": "OB"}]}
    return {"containers": [{"name": "c18override", "layers": [ob, oe1, oe2]}]}


def spec_prefixes(order: Tuple[int, ...]) -> Dict[str, Any]:
    """Three services whose constant request prefixes are proper prefixes of each other (10 / 1000 / 100000), listed in
    the given order; a RESERVED parameter ends every prefix."""
    msgs: List[Dict[str, Any]] = []
    svcs: List[Dict[str, Any]] = []
    for n in order:
        consts = [cc("sid", 0x10, 0, semantic="SERVICE-ID")] + [cc(f"sub{i}", 0, i) for i in range(1, n + 1)]
        msgs.append({"kind": "REQUEST", "name": f"RQ_p{n}", "params": consts + [{"t": "RESERVED", "name": "rsv", "byte": n + 1, "bits": 8},
                                                                               cc("tail", 0x40 + n, n + 2)]})
        msgs.append({"kind": "POS-RESPONSE", "name": f"PR_p{n}", "params": [cc("sid", 0x50, 0), cc("which", n, 1)]})
        svcs.append({"name": f"p{n}", "request": f"RQ_p{n}", "pos": [f"PR_p{n}"]})
    return {"containers": [{"name": "c18prefixes", "layers": [{"type": "BASE-VARIANT", "name": "PX", "msgs": msgs, "svcs": svcs}]}]}


PREFIX_DBS = {"prefixes_" + "".join(map(str, o)): o for o in ((0, 1, 2), (0, 2, 1), (1, 0, 2), (1, 2, 0), (2, 0, 1), (2, 1, 0))}

GENERATED = {"override": spec_override, "names": spec_names, "flat": spec_flat, "tree": spec_tree, "single": spec_single, "shared": spec_shared}


for _n, _o in PREFIX_DBS.items():
    GENERATED[_n] = (lambda o=_o: spec_prefixes(o))


def pdx_files(path: str) -> Files:
    """The ODX documents of a PDX archive as {name: text} (the same members the real loader reads)."""
    out: Files = {}
    with zipfile.ZipFile(path) as z:
        for n in z.namelist():
            suffix = n.rsplit(".", 1)[-1].lower() if "." in n else ""
            if suffix.startswith("odx"):
                out[n] = z.read(n).decode("utf-8")
    return out


def pdx_aux(path: str) -> Dict[str, bytes]:
    """The other members of a PDX archive (index.xml, auxiliary files such as job code)."""
    out: Dict[str, bytes] = {}
    with zipfile.ZipFile(path) as z:
        for n in z.namelist():
            suffix = n.rsplit(".", 1)[-1].lower() if "." in n else ""
            if not suffix.startswith("odx"):
                out[n] = z.read(n)
    return out


def base_aux(db_id: str, repo: str) -> Dict[str, bytes]:
    if db_id in GENERATED:
        return {}
    return pdx_aux(repo + "/examples/" + db_id + ".pdx")


def base_files(db_id: str, repo: str) -> Files:
    if db_id in GENERATED:
        return emit.db_files(GENERATED[db_id]())
    if db_id == "somersault":
        return pdx_files(repo + "/examples/somersault.pdx")
    if db_id == "somersault_modified":
        return pdx_files(repo + "/examples/somersault_modified.pdx")
    raise KeyError(db_id)


# ---------------------------------------------------------------------------------------------
# XML helpers
# ---------------------------------------------------------------------------------------------
def parse(files: Files) -> Dict[str, ET.Element]:
    return {fn: ET.fromstring(files[fn].encode("utf-8")) for fn in sorted(files) if fn.lower().endswith(".odx-d")}


def serialize(files: Files, trees: Dict[str, ET.Element]) -> Files:
    out = dict(files)
    for fn, root in trees.items():
        out[fn] = '<?xml version="1.0" encoding="UTF-8" standalone="no" ?>\n' + ET.tostring(root, encoding="unicode")
    return out


def layers_of(root: ET.Element) -> List[ET.Element]:
    return [e for tag in LAYER_TAGS for e in root.iter(tag)]


def parent_map(root: ET.Element) -> Dict[ET.Element, ET.Element]:
    return {c: p for p in root.iter() for c in p}


def find_id(trees: Dict[str, ET.Element], tag: str, ident: str) -> Tuple[ET.Element, ET.Element, ET.Element]:
    """-> (element, its layer, its document root)"""
    for fn in sorted(trees):
        for layer in layers_of(trees[fn]):
            for e in layer.iter(tag):
                if e.get("ID") == ident:
                    return e, layer, trees[fn]
    raise KeyError((tag, ident))


def find_message(trees: Dict[str, ET.Element], ident: str) -> Tuple[ET.Element, ET.Element, ET.Element]:
    for _, tag in MSG_COLLECTIONS:
        try:
            return find_id(trees, tag, ident)
        except KeyError:
            pass
    raise KeyError(ident)


def text(e: ET.Element, path: str) -> Optional[str]:
    t = e.findtext(path)
    return None if t is None else t.strip()


def set_text(e: ET.Element, path: str, value: Any) -> None:
    c = e.find(path)
    assert c is not None, path
    c.text = str(value)


def targets(files: Files) -> Tuple[List[str], List[Tuple[str, int]]]:
    """-> (IDs of all DIAG-SERVICEs, (message ID, parameter index) of all request/response parameters), document order"""
    svcs: List[str] = []
    params: List[Tuple[str, int]] = []
    trees = parse(files)
    for fn in sorted(trees):
        for layer in layers_of(trees[fn]):
            for s in layer.findall("DIAG-COMMS/DIAG-SERVICE"):
                svcs.append(s.get("ID") or "")
            for coll, tag in MSG_COLLECTIONS:
                for m in layer.findall(f"{coll}/{tag}"):
                    for i, _ in enumerate(m.findall("PARAMS/PARAM")):
                        params.append((m.get("ID") or "", i))
    return svcs, params


def all_service_names(trees: Dict[str, ET.Element]) -> List[str]:
    return [text(s, "SHORT-NAME") or "" for r in trees.values() for s in r.iter("DIAG-SERVICE")]


# ---------------------------------------------------------------------------------------------
# service edits
# ---------------------------------------------------------------------------------------------
def edit_delete(files: Files, sid: str) -> Tuple[Files, Dict[str, Any]]:
    trees = parse(files)
    svc, _, root = find_id(trees, "DIAG-SERVICE", sid)
    name = text(svc, "SHORT-NAME")
    if all_service_names(trees).count(name or "") != 1:
        raise NotApplicable("service short name is not unique in the database")
    pm = parent_map(root)
    comms = pm[svc]
    comms.remove(svc)
    if len(comms) == 0:
        pm[comms].remove(comms)
    # a consistent deletion also drops the references to the service
    for r in trees.values():
        pmr = parent_map(r)
        for ref in list(r.iter("DIAG-COMM-REF")):
            if ref.get("ID-REF") == sid:
                holder = pmr[ref]
                holder.remove(ref)
                if len(holder) == 0:
                    pmr[holder].remove(holder)
        for ni in list(r.iter("NOT-INHERITED-DIAG-COMM")):
            sn = ni.find("DIAG-COMM-SNREF")
            if sn is not None and sn.get("SHORT-NAME") == name:
                holder = pmr[ni]
                holder.remove(ni)
                if len(holder) == 0:
                    pmr[holder].remove(holder)
    return serialize(files, trees), {"service": name}


def edit_rename(files: Files, sid: str) -> Tuple[Files, Dict[str, Any]]:
    trees = parse(files)
    svc, _, _ = find_id(trees, "DIAG-SERVICE", sid)
    old = text(svc, "SHORT-NAME") or ""
    if all_service_names(trees).count(old) != 1:
        raise NotApplicable("service short name is not unique in the database")
    new = old + SUFFIX_REN
    set_text(svc, "SHORT-NAME", new)
    for r in trees.values():  # a consistent rename also renames the short-name references
        for sn in r.iter("DIAG-COMM-SNREF"):
            if sn.get("SHORT-NAME") == old:
                sn.set("SHORT-NAME", new)
    return serialize(files, trees), {"service": old, "new_name": new}


def first_const(msg: ET.Element) -> Optional[ET.Element]:
    ps = msg.findall("PARAMS/PARAM")
    if ps and ps[0].get(XSI_TYPE) == "CODED-CONST" and std_int_dct(ps[0].find("DIAG-CODED-TYPE")) is not None:
        return ps[0]
    return None


def std_int_dct(dct: Optional[ET.Element]) -> Optional[Tuple[str, int]]:
    """(base type, bit length) of a plain big-endian integer STANDARD-LENGTH-TYPE, else None"""
    if dct is None or dct.get(XSI_TYPE) != "STANDARD-LENGTH-TYPE":
        return None
    if dct.get("BASE-DATA-TYPE") not in ("A_UINT32", "A_INT32"):
        return None
    if dct.find("BIT-MASK") is not None or dct.get("IS-HIGHLOW-BYTE-ORDER", "true") != "true":
        return None
    if dct.get("BASE-TYPE-ENCODING") not in (None, "NONE", "2C"):
        return None
    bl = text(dct, "BIT-LENGTH")
    if bl is None:
        return None
    return dct.get("BASE-DATA-TYPE") or "", int(bl)


def edit_add(files: Files, sid: str) -> Tuple[Files, Dict[str, Any]]:
    trees = parse(files)
    svc, layer, root = find_id(trees, "DIAG-SERVICE", sid)
    rref = svc.find("REQUEST-REF")
    if rref is None:
        raise NotApplicable("service has no request")
    rq, rq_layer, rq_root = find_id(trees, "REQUEST", rref.get("ID-REF") or "")
    fc = first_const(rq)
    if fc is None:
        raise NotApplicable("request has no leading integer CODED-CONST, so a copy cannot get a new constant prefix")
    _, bits = std_int_dct(fc.find("DIAG-CODED-TYPE")) or ("", 0)
    used = set()
    for r in trees.values():
        for q in r.iter("REQUEST"):
            f = first_const(q)
            if f is not None:
                used.add(int(text(f, "CODED-VALUE") or "0"))
    fresh = next((v for v in range(1, min(1 << bits, 1 << 16)) if v not in used), None)
    if fresh is None:
        raise NotApplicable("no unused value for the leading constant")
    name = text(svc, "SHORT-NAME") or ""
    new_name = name + SUFFIX_COPY
    rq2 = copy.deepcopy(rq)
    rq2.set("ID", (rq.get("ID") or "") + SUFFIX_COPY)
    set_text(rq2, "SHORT-NAME", (text(rq, "SHORT-NAME") or "") + SUFFIX_COPY)
    inner = {e.get("ID") for e in rq2.iter() if e is not rq2 and e.get("ID")}
    for e in rq2.iter():
        if e is not rq2 and e.get("ID") in inner:
            e.set("ID", e.get("ID") + SUFFIX_COPY)
        if e.get("ID-REF") in inner:
            e.set("ID-REF", e.get("ID-REF") + SUFFIX_COPY)
    set_text(first_const(rq2), "CODED-VALUE", fresh)
    pm = parent_map(rq_root)
    holder = pm[rq]
    holder.insert(list(holder).index(rq) + 1, rq2)
    svc2 = copy.deepcopy(svc)
    svc2.set("ID", sid + SUFFIX_COPY)
    set_text(svc2, "SHORT-NAME", new_name)
    svc2.find("REQUEST-REF").set("ID-REF", rq2.get("ID"))
    pm = parent_map(root)
    comms = pm[svc]
    comms.insert(list(comms).index(svc) + 1, svc2)
    return serialize(files, trees), {"service": name, "new_name": new_name, "new_first_byte": fresh}


# ---------------------------------------------------------------------------------------------
# parameter edits
# ---------------------------------------------------------------------------------------------
def get_param(trees: Dict[str, ET.Element], mid: str, idx: int) -> Tuple[ET.Element, ET.Element, ET.Element, ET.Element]:
    msg, layer, root = find_message(trees, mid)
    return msg.findall("PARAMS/PARAM")[idx], msg, layer, root


def int_values(p: ET.Element) -> List[int]:
    t = p.get(XSI_TYPE)
    if t == "CODED-CONST":
        return [int(text(p, "CODED-VALUE") or "0")]
    if t == "NRC-CONST":
        return [int((c.text or "0").strip()) for c in p.findall("CODED-VALUES/CODED-VALUE")]
    return []


def linked_dop(trees: Dict[str, ET.Element], p: ET.Element) -> Optional[Tuple[ET.Element, ET.Element, ET.Element]]:
    """the DATA-OBJECT-PROP a parameter links by ID (None: no ID link or another kind of DOP)"""
    ref = p.find("DOP-REF")
    if ref is None:
        return None
    try:
        return find_id(trees, "DATA-OBJECT-PROP", ref.get("ID-REF") or "")
    except KeyError:
        return None


def clone_dop(trees: Dict[str, ET.Element], p: ET.Element, what: str) -> ET.Element:
    hit = linked_dop(trees, p)
    if hit is None:
        raise NotApplicable(f"{what} of a parameter without an ID link to a DATA-OBJECT-PROP belongs to no single parameter")
    dop, _, root = hit
    if std_int_dct(dop.find("DIAG-CODED-TYPE")) is None:
        raise NotApplicable(f"{what}: linked DOP is not a plain integer STANDARD-LENGTH-TYPE")
    dop2 = copy.deepcopy(dop)
    dop2.set("ID", (dop.get("ID") or "") + SUFFIX_DOP)
    set_text(dop2, "SHORT-NAME", (text(dop, "SHORT-NAME") or "") + SUFFIX_DOP)
    holder = parent_map(root)[dop]
    holder.insert(list(holder).index(dop) + 1, dop2)
    p.find("DOP-REF").set("ID-REF", dop2.get("ID"))
    return dop2


def new_bit_length(bits: int, values: List[int], signed: bool) -> int:
    """shrink by one bit if every constant still fits, else grow by 8 (or shrink by 8 at the 32-bit limit)"""
    if bits > 1:
        lim = 1 << (bits - 2 if signed else bits - 1)
        if all((-lim <= v < lim) if signed else (0 <= v < lim) for v in values):
            return bits - 1
    return bits + 8 if bits + 8 <= 32 else bits - 8


def edit_param(files: Files, edit: str, mid: str, idx: int) -> Tuple[Files, Dict[str, Any]]:
    trees = parse(files)
    p, msg, layer, root = get_param(trees, mid, idx)
    t = p.get(XSI_TYPE)
    info: Dict[str, Any] = {"message": mid, "message_kind": msg.tag, "param": text(p, "SHORT-NAME"), "param_type": t}
    if edit == "byte-position":
        bp = p.find("BYTE-POSITION")
        if bp is None:
            raise NotApplicable("parameter has no BYTE-POSITION")
        info["old"], info["new"] = int(bp.text or "0"), int(bp.text or "0") + 1
        bp.text = str(info["new"])
    elif edit == "byte-position-remove":
        bp = p.find("BYTE-POSITION")
        if bp is None:
            raise NotApplicable("parameter has no BYTE-POSITION")
        info["old"], info["new"] = int(bp.text or "0"), None
        p.remove(bp)
    elif edit == "byte-position-add":
        if p.find("BYTE-POSITION") is not None:
            raise NotApplicable("parameter has an explicit BYTE-POSITION already")
        # the explicit position is the one the parameter has anyway if all its predecessors are byte aligned
        # integers; else just behind the last explicit position
        ps = msg.findall("PARAMS/PARAM")
        k = max([int(text(q, "BYTE-POSITION") or "0") for q in ps[:idx] if q.find("BYTE-POSITION") is not None] + [-1]) + 1 + idx
        el = ET.Element("BYTE-POSITION")
        el.text = str(k)
        pos = max([i for i, c in enumerate(list(p)) if c.tag in ("SHORT-NAME", "LONG-NAME", "DESC")] + [-1]) + 1
        p.insert(pos, el)
        info["old"], info["new"] = None, k
    elif edit == "semantic":
        info["old"] = p.get("SEMANTIC")
        info["new"] = (p.get("SEMANTIC") or "") + "C18"
        p.set("SEMANTIC", info["new"])
    elif edit == "coded-value":
        if t not in ("CODED-CONST", "NRC-CONST"):
            raise NotApplicable("parameter has no coded value")
        sd = std_int_dct(p.find("DIAG-CODED-TYPE"))
        if sd is None:
            raise NotApplicable("coded value of a non-integer constant")
        base, bits = sd
        cur = int_values(p)
        # values used by constants at the same byte position in messages of the same kind stay untouched, so that
        # the edit cannot make two services indistinguishable
        taken = set(cur)
        for r in trees.values():
            for m in r.iter(msg.tag):
                for q in m.findall("PARAMS/PARAM"):
                    if text(q, "BYTE-POSITION") == text(p, "BYTE-POSITION"):
                        taken.update(int_values(q))
        lo, hi = (-(1 << (bits - 1)), 1 << (bits - 1)) if base == "A_INT32" else (0, 1 << bits)
        fresh = next((v for v in list(range(cur[0] + 1, hi)) + list(range(lo, cur[0])) if v not in taken), None)
        if fresh is None:
            raise NotApplicable("no unused value")
        info["old"], info["new"] = cur[0], fresh
        if t == "CODED-CONST":
            set_text(p, "CODED-VALUE", fresh)
        else:
            set_text(p, "CODED-VALUES/CODED-VALUE", fresh)
    elif edit == "bit-length":
        if t in ("CODED-CONST", "NRC-CONST"):
            sd = std_int_dct(p.find("DIAG-CODED-TYPE"))
            if sd is None:
                raise NotApplicable("bit length of a non-integer constant")
            nb = new_bit_length(sd[1], int_values(p), sd[0] == "A_INT32")
            info["old"], info["new"] = sd[1], nb
            set_text(p, "DIAG-CODED-TYPE/BIT-LENGTH", nb)
        elif t == "RESERVED":
            info["old"] = int(text(p, "BIT-LENGTH") or "0")
            info["new"] = info["old"] + 1
            set_text(p, "BIT-LENGTH", info["new"])
        elif t == "MATCHING-REQUEST-PARAM":
            info["old"] = 8 * int(text(p, "BYTE-LENGTH") or "0")
            info["new"] = info["old"] + 8
            set_text(p, "BYTE-LENGTH", info["new"] // 8)
        elif t in DOP_PARAM_KINDS:
            dop2 = clone_dop(trees, p, "bit length")
            sd = std_int_dct(dop2.find("DIAG-CODED-TYPE")) or ("", 0)
            nb = sd[1] + 8 if sd[1] + 8 <= 32 else sd[1] - 8
            info["old"], info["new"], info["via_dop_clone"] = sd[1], nb, dop2.get("ID")
            set_text(dop2, "DIAG-CODED-TYPE/BIT-LENGTH", nb)
        else:
            raise NotApplicable(f"{t} parameter has no bit length of its own")
    elif edit == "data-type":
        flip = {"A_UINT32": "A_INT32", "A_INT32": "A_UINT32"}
        if t in ("CODED-CONST", "NRC-CONST"):
            dct = p.find("DIAG-CODED-TYPE")
            sd = std_int_dct(dct)
            if sd is None:
                raise NotApplicable("data type of a non-integer constant")
            lim = 1 << (sd[1] - 1)
            if not all(0 <= v < lim for v in int_values(p)):
                raise NotApplicable("constant is not representable in the other integer type at this bit length")
            info["old"], info["new"] = sd[0], flip[sd[0]]
            dct.set("BASE-DATA-TYPE", flip[sd[0]])
        elif t in DOP_PARAM_KINDS:
            dop2 = clone_dop(trees, p, "data type")
            dct = dop2.find("DIAG-CODED-TYPE")
            old = dct.get("BASE-DATA-TYPE") or ""
            if t == "VALUE" and p.find("PHYSICAL-DEFAULT-VALUE") is not None or t == "PHYS-CONST":
                v = text(p, "PHYSICAL-DEFAULT-VALUE") or text(p, "PHYS-CONSTANT-VALUE") or "0"
                sd = std_int_dct(dct) or ("", 0)
                try:
                    if not 0 <= int(v) < (1 << (sd[1] - 1)):
                        raise NotApplicable("default/constant value is not representable in the other integer type")
                except ValueError:
                    pass
            dct.set("BASE-DATA-TYPE", flip[old])
            pt = dop2.find("PHYSICAL-TYPE")
            if pt is not None and pt.get("BASE-DATA-TYPE") == old and text(dop2, "COMPU-METHOD/CATEGORY") == "IDENTICAL":
                pt.set("BASE-DATA-TYPE", flip[old])
            info["old"], info["new"], info["via_dop_clone"] = old, flip[old], dop2.get("ID")
        else:
            raise NotApplicable(f"{t} parameter has no data type of its own")
    elif edit == "linked-dop":
        ref = p.find("DOP-REF")
        snref = p.find("DOP-SNREF")
        if ref is None and snref is None:
            raise NotApplicable("parameter links no DOP")
        not_inh = {e.get("SHORT-NAME") for r in trees.values() for e in r.iter("DOP-BASE-SNREF")}
        if ref is not None:
            hit = linked_dop(trees, p)
            if hit is None:
                raise NotApplicable("linked DOP is not a DATA-OBJECT-PROP")
            cur, dop_layer, _ = hit
        else:
            cur, dop_layer = None, layer
        props = dop_layer.findall("DIAG-DATA-DICTIONARY-SPEC/DATA-OBJECT-PROPS/DATA-OBJECT-PROP")

        def sig(d: Optional[ET.Element]) -> Any:
            if d is None:
                return None
            return (text(d, "COMPU-METHOD/CATEGORY"), d.find("DIAG-CODED-TYPE").get("BASE-DATA-TYPE"), text(d, "DIAG-CODED-TYPE/BIT-LENGTH"),
                    d.find("PHYSICAL-TYPE").get("BASE-DATA-TYPE"))

        cands = [d for d in props if d is not cur and text(d, "SHORT-NAME") not in not_inh and
                 (snref is None or text(d, "SHORT-NAME") != snref.get("SHORT-NAME"))]
        if cur is not None:
            cands = [d for d in cands if sig(d) == sig(cur)]
        else:
            cands = [d for d in cands if sig(d) == ("IDENTICAL", "A_UINT32", "8", "A_UINT32")]
        if not cands:
            raise NotApplicable("no other DATA-OBJECT-PROP of the same shape in the layer")
        if ref is not None:
            info["old"], info["new"] = ref.get("ID-REF"), cands[0].get("ID")
            ref.set("ID-REF", info["new"])
        else:
            info["old"], info["new"] = snref.get("SHORT-NAME"), text(cands[0], "SHORT-NAME")
            snref.set("SHORT-NAME", info["new"])
    else:
        raise ValueError(edit)
    return serialize(files, trees), info


def dop_targets(files: Files) -> List[str]:
    trees = parse(files)
    return [d.get("ID") or "" for fn in sorted(trees) for layer in layers_of(trees[fn])
            for d in layer.findall("DIAG-DATA-DICTIONARY-SPEC/DATA-OBJECT-PROPS/DATA-OBJECT-PROP")]


def edit_dop(files: Files, edit: str, dop_id: str) -> Tuple[Files, Dict[str, Any]]:
    """Edit a DATA-OBJECT-PROP in place.  In the envelope only if everything that uses the DOP is a PARAM of a request /
    response linking it by ID (then the reference knows exactly which services change): no short-name links, no
    structures, tables, fields or other dictionary objects referring to it."""
    trees = parse(files)
    dop, layer, root = find_id(trees, "DATA-OBJECT-PROP", dop_id)
    name = text(dop, "SHORT-NAME")
    users: List[ET.Element] = []
    for r in trees.values():
        pm = parent_map(r)
        for e in r.iter():
            if e.tag.endswith("SNREF") and e.get("SHORT-NAME") == name and e.tag != "DIAG-COMM-SNREF":
                raise NotApplicable("DOP is (or may be) linked by short name")
            if e.get("ID-REF") == dop_id:
                par = pm.get(e)
                holder = pm.get(pm.get(par)) if par is not None and pm.get(par) is not None else None
                if e.tag != "DOP-REF" or par is None or par.tag != "PARAM" or holder is None or \
                        holder.tag not in ("REQUEST", "POS-RESPONSE", "NEG-RESPONSE", "GLOBAL-NEG-RESPONSE"):
                    raise NotApplicable("DOP is used by something else than a request/response parameter")
                users.append(par)
    info: Dict[str, Any] = {"dop": dop_id, "users": len(users)}
    dct = dop.find("DIAG-CODED-TYPE")
    sd = std_int_dct(dct)
    if edit == "dop-bit-length":
        if sd is None:
            raise NotApplicable("DOP is not a plain integer STANDARD-LENGTH-TYPE")
        nb = sd[1] + 8 if sd[1] + 8 <= 32 else sd[1] - 8
        info["old"], info["new"] = sd[1], nb
        set_text(dop, "DIAG-CODED-TYPE/BIT-LENGTH", nb)
    elif edit == "dop-data-type":
        if sd is None or text(dop, "COMPU-METHOD/CATEGORY") != "IDENTICAL":
            raise NotApplicable("DOP is not a plain integer STANDARD-LENGTH-TYPE with an IDENTICAL conversion")
        flip = {"A_UINT32": "A_INT32", "A_INT32": "A_UINT32"}
        for p in users:
            v = text(p, "PHYSICAL-DEFAULT-VALUE") or text(p, "PHYS-CONSTANT-VALUE")
            if v is not None:
                try:
                    if not 0 <= int(v) < (1 << (sd[1] - 1)):
                        raise NotApplicable("a default/constant value is not representable in the other integer type")
                except ValueError:
                    raise NotApplicable("non-integer default value")
        if dop.find("INTERNAL-CONSTR") is not None or dop.find("PHYS-CONSTR") is not None:
            raise NotApplicable("DOP has constraints")
        dct.set("BASE-DATA-TYPE", flip[sd[0]])
        pt = dop.find("PHYSICAL-TYPE")
        if pt is not None and pt.get("BASE-DATA-TYPE") == sd[0]:
            pt.set("BASE-DATA-TYPE", flip[sd[0]])
        info["old"], info["new"] = sd[0], flip[sd[0]]
    elif edit == "dop-compu-category":
        cm = dop.find("COMPU-METHOD")
        if sd is None or cm is None or text(cm, "CATEGORY") != "IDENTICAL" or len(cm) != 1:
            raise NotApplicable("DOP is not a plain integer with an IDENTICAL conversion")
        set_text(cm, "CATEGORY", "LINEAR")
        cm.append(ET.fromstring("<COMPU-INTERNAL-TO-PHYS><COMPU-SCALES><COMPU-SCALE><COMPU-RATIONAL-COEFFS><COMPU-NUMERATOR><V>0</V><V>1</V>"
                                "</COMPU-NUMERATOR><COMPU-DENOMINATOR><V>1</V></COMPU-DENOMINATOR></COMPU-RATIONAL-COEFFS></COMPU-SCALE>"
                                "</COMPU-SCALES></COMPU-INTERNAL-TO-PHYS>"))
        info["old"], info["new"] = "IDENTICAL", "LINEAR (1*x+0)"
    else:
        raise ValueError(edit)
    return serialize(files, trees), info


def rename_containers(files: Files) -> Files:
    """the same database with every DIAG-LAYER-CONTAINER renamed (SHORT-NAME + "_c18r"); DOCREFs of type CONTAINER follow"""
    trees = parse(files)
    renamed: Dict[str, str] = {}
    for r in trees.values():
        for c in r.iter("DIAG-LAYER-CONTAINER"):
            old = text(c, "SHORT-NAME") or ""
            renamed[old] = old + "_c18r"
            set_text(c, "SHORT-NAME", renamed[old])
    for r in trees.values():
        for e in r.iter():
            if e.get("DOCTYPE") == "CONTAINER" and e.get("DOCREF") in renamed:
                e.set("DOCREF", renamed[e.get("DOCREF")])
    return serialize(files, trees)


def apply_edit(files: Files, edit: str, target: List[Any]) -> Tuple[Files, Dict[str, Any]]:
    if edit in DOP_EDITS:
        return edit_dop(files, edit, target[0])
    if edit == "delete":
        return edit_delete(files, target[0])
    if edit == "add":
        return edit_add(files, target[0])
    if edit == "rename":
        return edit_rename(files, target[0])
    return edit_param(files, edit, target[0], int(target[1]))
