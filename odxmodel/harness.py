"""Glue between program specs, the real odxtools objects and the reference interpreter.

A *program* is {"pid", "dops":[dop specs], "params":[param specs], "kind":"REQUEST"|"POS-RESPONSE"|...,
"assign":[value dicts], "request": bytes|None, "tags": [...]}.  A *unit* is a list of programs that is
emitted as ONE layer (one XML document), loaded once through the real loader and interpreted by refodx.
"""
from __future__ import annotations

import math
import struct
import warnings
from typing import Any, Dict, List, Optional, Tuple

from . import emit, refodx

LAYER = "L"


def unit_spec(programs: List[Dict[str, Any]], library: Optional[List[Dict[str, Any]]] = None) -> Dict[str, Any]:
    dops: List[Dict[str, Any]] = list(library or [])
    seen = {d["name"] for d in dops}
    msgs, svcs = [], []
    for p in programs:
        for d in p.get("dops", []):
            if d["name"] not in seen:
                seen.add(d["name"])
                dops.append(d)
        kind = p.get("kind", "REQUEST")
        msgs.append({"kind": kind, "name": p["pid"], "params": p["params"]})
        if kind == "REQUEST":
            svcs.append({"name": "svc_" + p["pid"], "request": p["pid"]})
        elif kind in ("POS-RESPONSE", "NEG-RESPONSE"):
            # responses belong to a service whose request is 22 <16 bit id>: one constant byte, then a free value
            rq = "rq_" + p["pid"]
            msgs.append({"kind": "REQUEST", "name": rq, "params": [
                {"t": "CODED-CONST", "name": "sid", "dct": {"k": "STD", "base": "A_UINT32", "bits": 8}, "value": 0x22},
                {"t": "VALUE", "name": "did", "dop": "u16"}]})
            svcs.append({"name": "svc_" + p["pid"], "request": rq, "pos" if kind == "POS-RESPONSE" else "neg": [p["pid"]]})
    layer = {"type": "BASE-VARIANT", "name": LAYER, "dops": dops, "msgs": msgs, "svcs": svcs}
    return {"containers": [{"name": "C", "layers": [layer]}]}


class Loaded:

    def __init__(self, programs: List[Dict[str, Any]], library: Optional[List[Dict[str, Any]]] = None) -> None:
        self.spec = unit_spec(programs, library)
        self.progs = {p["pid"]: p for p in programs}
        layer_spec = self.spec["containers"][0]["layers"][0]
        self.interp = refodx.Interp(layer_spec)
        self.db = emit.load_db(self.spec)
        self.layer = self.db.diag_layers[LAYER]
        raw = self.layer.diag_layer_raw
        self.msg: Dict[str, Any] = {}
        for coll in (raw.requests, raw.positive_responses, raw.negative_responses, raw.global_negative_responses):
            for m in coll:
                self.msg[m.short_name] = m


def float_bits(x: float) -> int:
    return struct.unpack(">Q", struct.pack(">d", x))[0]


def same_value(exp: Any, got: Any) -> bool:
    """exp: reference expectation (may contain Ellipsis / {'echo':..} / {'dtc':..} / {'nrc':..});
    got: value returned by odxtools."""
    if exp is Ellipsis:
        return True
    if hasattr(exp, "alts") and hasattr(exp, "ok"):  # refcompu.Accept: set of admissible values
        return bool(exp.ok(got))
    if isinstance(exp, dict) and set(exp) == {"echo"}:
        b = exp["echo"]
        # (odxtools reports the echoed request bytes as the integer read low-byte-first -- the reading its encoder demands
        # for an explicitly supplied value -- or as the bytes themselves)
        return got in (b, bytearray(b), int.from_bytes(b, "little"))
    if isinstance(exp, dict) and set(exp) == {"dtc"}:
        code = getattr(got, "trouble_code", got)
        return code == exp["dtc"]
    if isinstance(exp, dict) and set(exp) == {"nrc"}:
        return got in exp["nrc"]
    if isinstance(exp, dict):
        if not isinstance(got, dict):
            return False
        ek = {k for k, v in exp.items()}
        if set(got) != ek:
            # keys of RESERVED parameters may be absent
            if {k for k in ek - set(got) if exp[k] is not Ellipsis} or set(got) - ek:
                return False
        return all(same_value(v, got[k]) for k, v in exp.items() if k in got)
    if isinstance(exp, (list, tuple)):
        if not isinstance(got, (list, tuple)) or len(exp) != len(got):
            return False
        return all(same_value(a, b) for a, b in zip(exp, got))
    if isinstance(exp, float) or isinstance(got, float):
        if isinstance(got, bool) or not isinstance(got, (int, float)) or not isinstance(exp, (int, float)):
            return False
        if isinstance(exp, float) and isinstance(got, float):
            return float_bits(exp) == float_bits(got) or (exp == got)
        return exp == got
    if isinstance(exp, (bytes, bytearray)):
        return isinstance(got, (bytes, bytearray)) and bytes(exp) == bytes(got)
    if isinstance(exp, bool) or isinstance(got, bool):
        return exp == got and type(exp) is type(got)
    return type(got) is type(exp) and exp == got


def show(v: Any) -> Any:
    """JSON-friendly rendering of odxtools results."""
    if hasattr(v, "trouble_code"):
        return {"dtc": v.trouble_code}
    if isinstance(v, (bytes, bytearray)):
        return "0x" + bytes(v).hex()
    if isinstance(v, dict):
        return {k: show(x) for k, x in v.items()}
    if isinstance(v, (list, tuple)):
        return [show(x) for x in v]
    if v is Ellipsis:
        return "..."
    if hasattr(v, "alts") and hasattr(v, "ok"):
        return repr(v)
    if isinstance(v, float) and (math.isinf(v) or math.isnan(v)):
        return repr(v)
    return v


def jval(v: Any) -> Any:
    """value assignment -> JSON (bytes as {'hex':..}, tuples as {'tuple':[..]})"""
    if isinstance(v, (bytes, bytearray)):
        return {"hex": bytes(v).hex()}
    if isinstance(v, tuple):
        return {"tuple": [jval(x) for x in v]}
    if isinstance(v, list):
        return [jval(x) for x in v]
    if isinstance(v, dict):
        return {"dict": {k: jval(x) for k, x in v.items()}}
    if isinstance(v, float) and (math.isinf(v) or math.isnan(v)):
        return {"float": repr(v)}
    return v


def unjval(v: Any) -> Any:
    if isinstance(v, dict):
        if set(v) == {"hex"}:
            return bytes.fromhex(v["hex"])
        if set(v) == {"tuple"}:
            return tuple(unjval(x) for x in v["tuple"])
        if set(v) == {"dict"}:
            return {k: unjval(x) for k, x in v["dict"].items()}
        if set(v) == {"float"}:
            return float(v["float"])
        return {k: unjval(x) for k, x in v.items()}
    if isinstance(v, list):
        return [unjval(x) for x in v]
    return v


def odx_encode(msg: Any, values: Dict[str, Any], request: Optional[bytes] = None) -> Tuple[Optional[bytes], Optional[BaseException], List[str]]:
    """-> (pdu | None, exception | None, overlap warnings)"""
    from odxtools.exceptions import OdxWarning
    with warnings.catch_warnings(record=True) as w:
        warnings.simplefilter("always")
        try:
            if request is not None or type(msg).__name__ == "Response":
                pdu = msg.encode(coded_request=request, **values)
            else:
                pdu = msg.encode(**values)
            exc = None
        except BaseException as e:  # noqa
            if isinstance(e, (KeyboardInterrupt, SystemExit)):
                raise
            pdu, exc = None, e
    ov = [str(x.message) for x in w if issubclass(x.category, OdxWarning) and "verlap" in str(x.message)]
    return (bytes(pdu) if pdu is not None else None), exc, ov


def odx_decode(msg: Any, pdu: bytes) -> Tuple[Any, Optional[BaseException]]:
    with warnings.catch_warnings():
        warnings.simplefilter("ignore")
        try:
            return msg.decode(bytes(pdu)), None
        except BaseException as e:  # noqa
            if isinstance(e, (KeyboardInterrupt, SystemExit)):
                raise
            return None, e
