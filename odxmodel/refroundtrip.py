"""Reference model for C11 (PDX write/load round trip): the IDENTITY on object graphs of dataclasses.

No odxtools import.  Everything here works on arbitrary graphs of `dataclasses` instances, lists, tuples,
dicts, enums and primitives:

* `walk(root)`            -- every (owner object, field) *site* reachable through dataclass fields, with a
                            JSON-able path that `resolve()` follows again on another graph of the same shape;
* `diff(a, b)`            -- the differences between two graphs, localised to the innermost
                            (dataclass, field) that contains them, classified dropped / altered;
* `perturbed(value, kind)`-- the new value of a leaf for one perturbation kind;
* `orders(n, all_)`       -- the member orders enumerated for the archive-order part.

"Link" value classes (OdxLinkRef, OdxLinkId, OdxDocFragment and their subclasses) are not elements of
their own: their attributes are attributed to the field of the element that owns them
(`ValueParameter.dop_ref.ref_docs`).
"""
from __future__ import annotations

import dataclasses
import enum
import itertools
import typing
from typing import Any, Dict, Iterator, List, Optional, Sequence, Tuple

META = "a&b<c>\"d'e"  # XML metacharacters: must be escaped in text and in attribute values
LINK_CLASSES = ("OdxLinkRef", "OdxLinkId", "OdxDocFragment")

Path = Tuple[Any, ...]


def is_dc(o: Any) -> bool:
    return dataclasses.is_dataclass(o) and not isinstance(o, type)


def is_link(o: Any) -> bool:
    return is_dc(o) and any(c.__name__ in LINK_CLASSES for c in type(o).__mro__)


def cname(o: Any) -> str:
    return type(o).__name__


@dataclasses.dataclass
class Site:
    path: Path  # steps from the root to the OWNER element, then field name(s)
    owner: Any  # the element (non-link dataclass instance) that owns the field
    cls: str  # class name of the owner
    field: str  # field name; for link values "field.subfield"
    value: Any
    holder: Any  # object whose attribute `attr` holds `value` (owner, or the link object)
    attr: str
    index: Optional[int] = None  # value is holder.attr[index] (links inside lists)


def _children(v: Any) -> Iterator[Tuple[Any, Any]]:
    if isinstance(v, (list, tuple)):
        for i, x in enumerate(v):
            yield i, x
    elif isinstance(v, dict):
        for k in v:
            yield k, v[k]


def walk(root: Any, path: Path = (), seen: Optional[set] = None) -> Iterator[Site]:
    """Yield the sites of all elements below root (root: element, list or dict of them). Each object is
    visited once (first path in field order wins)."""
    if seen is None:
        seen = set()
    if is_dc(root) and not is_link(root):
        if id(root) in seen:
            return
        seen.add(id(root))
        for f in dataclasses.fields(root):
            v = getattr(root, f.name)
            p = path + (f.name,)
            yield Site(p, root, cname(root), f.name, v, root, f.name)
            yield from _walk_value(v, p, root, f.name, seen)
    else:
        for k, x in _children(root):
            yield from walk(x, path + (k,), seen)


def _walk_value(v: Any, p: Path, owner: Any, fname: str, seen: set) -> Iterator[Site]:
    if is_link(v):
        yield from _link_sites(v, p, owner, fname)
    elif is_dc(v):
        yield from walk(v, p, seen)
    elif isinstance(v, (list, tuple, dict)):
        for k, x in _children(v):
            yield from _walk_value(x, p + (k,), owner, fname, seen)


def _link_sites(link: Any, p: Path, owner: Any, fname: str) -> Iterator[Site]:
    for f in dataclasses.fields(link):
        v = getattr(link, f.name)
        yield Site(p + (f.name,), owner, cname(owner), f"{fname}.{f.name}", v, link, f.name)


def resolve(root: Any, path: Sequence[Any]) -> Any:
    o = root
    for step in path:
        if isinstance(step, str) and not isinstance(o, dict):
            o = getattr(o, step)
        else:
            o = o[step]
    return o


# ---------------------------------------------------------------------------------------------
# structural difference
# ---------------------------------------------------------------------------------------------
@dataclasses.dataclass
class Diff:
    cls: str
    field: str
    mode: str  # dropped | altered
    path: Path
    a: str
    b: str

    @property
    def pair(self) -> str:
        return f"{self.cls}.{self.field}"


def _short(v: Any) -> str:
    s = repr(v)
    return s if len(s) <= 160 else s[:157] + "..."


def _is_empty(v: Any) -> bool:
    return v is None or (isinstance(v, (list, tuple, dict, str, bytes)) and len(v) == 0)


def diff(a: Any, b: Any, path: Path = (), ctx: Tuple[str, str] = ("<root>", ""), ignore: Any = None) -> List[Diff]:
    """Differences of b (what came back) against a (what was written). Identity oracle: empty list.
    ignore(element, field name) -> True: that field of that element is not compared."""
    out: List[Diff] = []
    _diff(a, b, path, ctx, out, ignore)
    return out


def _signature(x: Any) -> Any:
    """What identifies an element of a list (to tell a reordered list from changed elements): class + short name / referenced ID."""
    if is_dc(x):
        for attr in ("short_name", "ref_id"):
            v = getattr(x, attr, None)
            if isinstance(v, str):
                return (cname(x), v)
    return None


def _leafmode(a: Any, b: Any) -> str:
    return "dropped" if (_is_empty(b) and not _is_empty(a)) else "altered"


def _diff(a: Any, b: Any, path: Path, ctx: Tuple[str, str], out: List[Diff], ignore: Any = None) -> None:
    if a is b:
        return
    if is_dc(a) or is_dc(b):
        if type(a).__name__ != type(b).__name__ or not (is_dc(a) and is_dc(b)):
            out.append(Diff(ctx[0], ctx[1], _leafmode(a, b), path, "<" + cname(a) + "> " + _short(a), "<" + cname(b) + "> " + _short(b)))
            return
        link = is_link(a)
        for f in dataclasses.fields(a):
            if not f.compare or (ignore is not None and ignore(a, f.name)):
                continue
            sub = (ctx[0], f"{ctx[1]}.{f.name}") if link else (cname(a), f.name)
            _diff(getattr(a, f.name), getattr(b, f.name, None), path + (f.name,), sub, out, ignore)
        return
    if isinstance(a, (list, tuple)) and isinstance(b, (list, tuple)):
        if len(a) != len(b):
            out.append(Diff(ctx[0], ctx[1], "dropped" if len(b) < len(a) else "altered", path,
                            f"{len(a)} item(s) " + _short(a), f"{len(b)} item(s) " + _short(b)))
            return
        sa, sb = [_signature(x) for x in a], [_signature(x) for x in b]
        if sa != sb and None not in sa and sorted(map(repr, sa)) == sorted(map(repr, sb)):
            out.append(Diff(ctx[0], ctx[1], "altered", path, "order " + _short(sa), "order " + _short(sb)))  # same elements, other order
            return
        for i, (x, y) in enumerate(zip(a, b)):
            _diff(x, y, path + (i,), ctx, out, ignore)
        return
    if isinstance(a, dict) and isinstance(b, dict):
        for k in a:
            if k not in b:
                out.append(Diff(ctx[0], ctx[1], "dropped", path + (k,), _short(a[k]), "<missing>"))
            else:
                _diff(a[k], b[k], path + (k,), ctx, out, ignore)
        for k in b:
            if k not in a:
                out.append(Diff(ctx[0], ctx[1], "altered", path + (k,), "<missing>", _short(b[k])))
        return
    same = (a == b) and (isinstance(a, bool) == isinstance(b, bool))
    if not same:
        out.append(Diff(ctx[0], ctx[1], _leafmode(a, b), path, _short(a), _short(b)))


# ---------------------------------------------------------------------------------------------
# perturbation values
# ---------------------------------------------------------------------------------------------
def kinds_of(value: Any) -> List[str]:
    """Perturbation kinds applicable to a field value (links and elements are handled by the caller)."""
    if value is None:
        return ["set"]
    if isinstance(value, bool):
        return ["flip"]
    if isinstance(value, enum.Enum):
        return ["next"]
    if isinstance(value, (int, float)):
        return ["inc"]
    if isinstance(value, str):
        return ["meta", "alt"] + (["empty"] if value else [])
    if isinstance(value, (bytes, bytearray)):
        return ["alt"]
    if isinstance(value, list):
        return ["grow"]
    return []


def alt_string(s: str) -> str:
    """A different string of the same lexical shape (number stays a number, name stays a name)."""
    t = s.strip()
    try:
        return str(int(t) + 1)
    except ValueError:
        pass
    try:
        return repr(float(t) + 1.0)
    except ValueError:
        pass
    return s + "_x"


def perturbed(value: Any, kind: str) -> Any:
    if kind == "flip":
        return not value
    if kind == "next":
        members = list(type(value))
        return members[(members.index(value) + 1) % len(members)]
    if kind == "inc":
        return value + 1
    if kind == "empty":
        return ""
    if kind == "meta":
        return META
    if kind == "alt":
        if isinstance(value, (bytes, bytearray)):
            return type(value)(bytes(value) + b"\x01")
        return alt_string(value)
    raise ValueError(kind)


def optional_arg(tp: Any) -> Any:
    """Optional[T] -> T, else None."""
    if typing.get_origin(tp) is typing.Union:
        args = [a for a in typing.get_args(tp) if a is not type(None)]
        if len(args) == 1 and len(typing.get_args(tp)) == 2:
            return args[0]
    return None


def field_type(owner: Any, name: str) -> Any:
    try:
        return typing.get_type_hints(type(owner)).get(name)
    except Exception:
        for f in dataclasses.fields(owner):
            if f.name == name:
                return f.type
    return None


def synth_primitive(tp: Any, name_like: bool) -> Tuple[bool, Any]:
    """A non-default value of primitive type tp."""
    if tp is str:
        return True, ("zz_x" if name_like else META)
    if tp is bool:
        return True, True
    if tp is int:
        return True, 1
    if tp is float:
        return True, 1.5
    if tp is bytes:
        return True, b"\x01"
    if isinstance(tp, type) and issubclass(tp, enum.Enum):
        return True, list(tp)[0]
    return False, None


# ---------------------------------------------------------------------------------------------
# member orders
# ---------------------------------------------------------------------------------------------
def orders(n: int, all_: bool) -> List[Tuple[int, ...]]:
    """All permutations of range(n), or identity + rotations + reversal (deduplicated, identity first)."""
    if all_:
        return list(itertools.permutations(range(n)))
    base = tuple(range(n))
    out = [base]
    for r in range(1, n):
        out.append(base[r:] + base[:r])
    out.append(tuple(reversed(base)))
    seen = set()
    res = []
    for o in out:
        if o not in seen:
            seen.add(o)
            res.append(o)
    return res
