"""Independent bit-level reference interpreter for the ODX description language of odxmodel (spec dicts).

No odxtools import, no bitstruct: integer arithmetic on Python ints, struct for IEEE-754, codecs for strings.
It is the oracle for C02/C03 (wire format), the "complete(v)" function for C01/C04 and the generator of wire
states for C03/C05.  It is deliberately boring: only the envelope (DESIGN.md appendix C), no error recovery.

Exceptions:  Reject   -- the value assignment is not representable (an encoder must refuse it)
             DontCare -- the construct/value is outside the envelope; no expectation is derived
             Short    -- decoding ran out of bytes;   Mismatch -- decoded bytes cannot be interpreted
"""
from __future__ import annotations

import struct
from fractions import Fraction
from typing import Any, Dict, List, Optional, Tuple


class Reject(Exception):
    pass


class DontCare(Exception):
    """lossy=True: even decode(encode(v)) == v is not expected (e.g. bits outside a BIT-MASK are dropped by design)"""

    def __init__(self, msg: str = "", lossy: bool = False) -> None:
        super().__init__(msg)
        self.lossy = lossy


class Short(Exception):
    pass


class Mismatch(Exception):
    pass


NUMERIC = ("A_INT32", "A_UINT32", "A_FLOAT32", "A_FLOAT64")
STRINGS = ("A_ASCIISTRING", "A_UTF8STRING", "A_UNICODE2STRING")


def hilo_of(d: Dict[str, Any]) -> bool:
    return d.get("hilo") in (None, True)


def str_codec(base: str, enc: Optional[str], hilo: bool) -> str:
    if enc == "UTF-8" or (base == "A_UTF8STRING" and enc is None):
        return "utf-8"
    if enc == "UCS-2" or (base == "A_UNICODE2STRING" and enc is None):
        return "utf-16-be" if hilo else "utf-16-le"
    if enc == "ISO-8859-1" or (base == "A_ASCIISTRING" and enc is None):
        return "iso-8859-1"
    if enc == "ISO-8859-2":
        return "iso-8859-2"
    if enc == "WINDOWS-1252":
        return "cp1252"
    raise DontCare(f"string encoding {enc} for {base}")


# ---------------------------------------------------------------------------------------------
# raw words
# ---------------------------------------------------------------------------------------------
def int_to_raw(v: Any, base: str, enc: Optional[str], n: int) -> int:
    if isinstance(v, bool) or not isinstance(v, int):
        raise Reject(f"{v!r} is not an integer")
    if base == "A_UINT32":
        if v < 0:
            raise Reject("negative value for unsigned type")
        if enc in (None, "NONE"):
            raw = v
        elif enc in ("BCD-P", "BCD-UP"):
            sh = 4 if enc == "BCD-P" else 8
            raw, k, x = 0, 0, v
            while x > 0:
                raw |= (x % 10) << (sh * k)
                x //= 10
                k += 1
        else:
            raise DontCare(f"encoding {enc} for A_UINT32")
        if raw >> n:
            raise Reject(f"{v} does not fit into {n} bits")
        return raw
    if base == "A_INT32":
        if enc in (None, "2C"):
            if not (-(1 << (n - 1)) <= v < (1 << (n - 1))):
                raise Reject(f"{v} not representable in {n} bit two's complement")
            return v % (1 << n)
        if enc == "1C":
            if abs(v) > (1 << (n - 1)) - 1:
                raise Reject(f"{v} not representable in {n} bit one's complement")
            return v if v >= 0 else ((1 << n) - 1) - abs(v)
        if enc == "SM":
            if abs(v) > (1 << (n - 1)) - 1:
                raise Reject(f"{v} not representable in {n} bit sign-magnitude")
            return v if v >= 0 else (1 << (n - 1)) + abs(v)
        raise DontCare(f"encoding {enc} for A_INT32")
    raise DontCare(base)


def raw_to_int(raw: int, base: str, enc: Optional[str], n: int) -> int:
    if base == "A_UINT32":
        if enc in (None, "NONE"):
            return raw
        sh = 4 if enc == "BCD-P" else 8
        v, f = 0, 1
        while raw > 0:
            d = raw & 0xF
            if d > 9 or (sh == 8 and (raw & 0xF0)):
                raise DontCare("non-BCD digit on the wire")
            v += d * f
            f *= 10
            raw >>= sh
        return v
    sign = 1 << (n - 1)
    if enc in (None, "2C"):
        return raw if raw < sign else raw - (1 << n)
    if enc == "1C":
        return raw if raw < sign else -((1 << n) - 1 - raw)
    if enc == "SM":
        return raw if raw < sign else -(raw - sign)
    raise DontCare(enc or "")


def float_to_raw(v: Any, base: str) -> int:
    if isinstance(v, bool) or not isinstance(v, (int, float)):
        raise Reject(f"{v!r} is not a number")
    try:
        if base == "A_FLOAT32":
            return int.from_bytes(struct.pack(">f", v), "big")
        return int.from_bytes(struct.pack(">d", v), "big")
    except (OverflowError, struct.error):
        raise Reject(f"{v!r} out of range for {base}")


def raw_to_float(raw: int, base: str) -> float:
    if base == "A_FLOAT32":
        return struct.unpack(">f", raw.to_bytes(4, "big"))[0]
    return struct.unpack(">d", raw.to_bytes(8, "big"))[0]


# ---------------------------------------------------------------------------------------------
# compu methods (minimal inline evaluator; exact; categories IDENTICAL, LINEAR, TEXTTABLE)
# ---------------------------------------------------------------------------------------------
def _lim_ok_lower(lim: Any, x: Any) -> bool:
    if lim is None:
        return True
    if isinstance(lim, dict):
        t, v = lim.get("type"), lim.get("v")
        if t == "INFINITE" or v is None:
            return True
        return x > v if t == "OPEN" else x >= v
    return x >= lim


def _lim_ok_upper(lim: Any, x: Any) -> bool:
    if lim is None:
        return True
    if isinstance(lim, dict):
        t, v = lim.get("type"), lim.get("v")
        if t == "INFINITE" or v is None:
            return True
        return x < v if t == "OPEN" else x <= v
    return x <= lim


def compu_i2p(cm: Optional[Dict[str, Any]], itype: str, ptype: str, x: Any) -> Any:
    """internal -> physical; raises Mismatch if the internal value is not valid.  For every category but
    IDENTICAL the exact reference odxmodel.refcompu decides; the result is then an `Accept` object (a set of
    admissible values with the DESIGN's tolerance for floats) that harness.same_value understands."""
    if cm is None or cm["cat"] == "IDENTICAL":
        if ptype in ("A_FLOAT32", "A_FLOAT64") and isinstance(x, int):
            return float(x)
        return x
    from . import refcompu as RC
    acc = RC.int_to_phys_accept(cm, itype, ptype, x)
    if acc is RC.INVALID:
        raise Mismatch(f"internal value {x!r} is not valid")
    if acc is RC.DONT_CARE or acc.has_tie():
        raise DontCare("compu method: no unique expectation", lossy=True)
    return acc


def compu_p2i(cm: Optional[Dict[str, Any]], itype: str, ptype: str, y: Any) -> Any:
    """physical -> internal; raises Reject if the physical value cannot be represented."""
    if cm is None or cm["cat"] == "IDENTICAL":
        if ptype in ("A_INT32", "A_UINT32"):
            if isinstance(y, bool) or not isinstance(y, int):
                raise Reject(f"{y!r} is not an int")
        elif ptype in ("A_FLOAT32", "A_FLOAT64"):
            if isinstance(y, bool) or not isinstance(y, (int, float)):
                raise Reject(f"{y!r} is not a number")
        elif ptype in STRINGS:
            if not isinstance(y, str):
                raise Reject(f"{y!r} is not a string")
        elif ptype == "A_BYTEFIELD":
            if not isinstance(y, (bytes, bytearray)):
                raise Reject(f"{y!r} is not a byte field")
        if itype in ("A_INT32", "A_UINT32") and isinstance(y, float):
            raise DontCare("float physical value for an integer internal type")
        return y
    from . import refcompu as RC
    if isinstance(y, bool):
        y = int(y)  # (odxtools treats True/False as 1/0; whether that is acceptable is not this function's business)
    acc = RC.phys_to_int_accept(cm, itype, ptype, y)
    if acc is RC.INVALID:
        if ptype in ("A_INT32", "A_UINT32") and isinstance(y, int):
            # odxtools derives integer physical limits by ROUNDING the images of the internal limits (pinned by
            # tests/test_compu_methods.py: a deliberate reading), so an integer next to a valid one may be accepted
            for nb in (y - 1, y + 1):
                if isinstance(RC.phys_to_int_accept(cm, itype, ptype, nb), RC.Accept):
                    raise DontCare("integer physical value next to a rounded physical limit", lossy=True)
        raise Reject(f"{y!r} has no internal representation")
    if acc is RC.DONT_CARE:
        raise DontCare("compu method: no unique expectation", lossy=True)
    u = acc.unique()
    if u is None:
        raise DontCare("compu method: several admissible internal values", lossy=True)
    # the description must round-trip by itself (it does not for non-injective methods and for methods whose
    # declared inverse is not the inverse): otherwise there is no expectation for decode(encode(v))
    back = RC.int_to_phys_accept(cm, itype, ptype, u)
    if not isinstance(back, RC.Accept) or not back.ok(y):
        raise DontCare("compu method does not round-trip this value by itself", lossy=True)
    return u


# ---------------------------------------------------------------------------------------------
# encode / decode state
# ---------------------------------------------------------------------------------------------
class Enc:

    def __init__(self, request: Optional[bytes] = None) -> None:
        self.pdu = bytearray()
        self.claim = bytearray()
        self.overlap = False
        self.request = request
        self.length_keys: Dict[str, int] = {}
        self.table_keys: Dict[str, str] = {}
        self.trace: List[Tuple[Any, ...]] = []

    def put(self, pos: int, data: bytes, mask: Optional[bytes] = None, claim: bool = True) -> None:
        end = pos + len(data)
        if len(self.pdu) < end:
            self.pdu.extend(b"\x00" * (end - len(self.pdu)))
            self.claim.extend(b"\x00" * (end - len(self.claim)))
        for i, b in enumerate(data):
            m = 0xFF if mask is None else mask[i]
            if claim and self.claim[pos + i] & m:
                self.overlap = True
            self.pdu[pos + i] = (self.pdu[pos + i] & ~m & 0xFF) | (b & m)
            if claim:
                self.claim[pos + i] |= m

    def extend_to(self, end: int) -> None:
        if len(self.pdu) < end:
            self.pdu.extend(b"\x00" * (end - len(self.pdu)))
            self.claim.extend(b"\x00" * (end - len(self.claim)))

    def place_word(self, raw: int, nbits: int, byte: int, bit: int, hilo: bool, numeric: bool,
                   mask_bits: Optional[int] = None) -> int:
        k = (bit + nbits + 7) // 8
        w = raw << bit
        c = ((1 << nbits) - 1 if mask_bits is None else mask_bits) << bit
        bs, cs = w.to_bytes(k, "big"), c.to_bytes(k, "big")
        if numeric and not hilo:
            bs, cs = bs[::-1], cs[::-1]
        self.put(byte, bs, cs)
        return byte + k


class Interp:
    """Interpreter for one layer spec: {dops:[...], msgs:[...]}"""

    def __init__(self, layer: Dict[str, Any]) -> None:
        self.dops = {d["name"]: d for d in layer.get("dops", [])}
        self.msgs = {m["name"]: m for m in layer.get("msgs", [])}

    # -- diag coded types ------------------------------------------------------------------
    def enc_dct(self, d: Dict[str, Any], internal: Any, e: Enc, byte: int, bit: int, is_end: bool) -> int:
        k, base, enc = d["k"], d["base"], d.get("enc")
        hilo = hilo_of(d)
        if k == "STD":
            n = d["bits"]
            mask = d.get("mask")
            if base in ("A_INT32", "A_UINT32"):
                if mask is not None and d.get("condensed"):
                    # the wire format of condensed masks is outside the envelope; values inside the mask must at least come back
                    # unchanged
                    small = isinstance(internal, int) and not isinstance(internal, bool) and internal >= 0 and not (internal & ~mask)
                    raise DontCare("condensed bit mask", lossy=not small)
                raw = int_to_raw(internal, base, enc, n)
                if mask is not None:
                    if raw & ~mask:
                        raise DontCare("value outside the bit mask", lossy=True)
                    return e.place_word(raw & mask, n, byte, bit, hilo, True, mask & ((1 << n) - 1))
                return e.place_word(raw, n, byte, bit, hilo, True)
            if base in ("A_FLOAT32", "A_FLOAT64"):
                want = 32 if base == "A_FLOAT32" else 64
                if n != want:
                    raise DontCare("float with a wrong bit length")
                return e.place_word(float_to_raw(internal, base), n, byte, bit, hilo, True)
            bs = self.to_bytes(internal, base, enc, hilo)
            if bit != 0:
                raise DontCare("byte field / string at a bit position")
            if 8 * len(bs) != n:
                raise Reject(f"value occupies {len(bs)} bytes, the type has {n} bits")
            if mask is not None:
                if d.get("condensed"):
                    small = not (int.from_bytes(bs, "big") & ~mask)
                    raise DontCare("condensed bit mask", lossy=not small)
                mb = (mask & ((1 << n) - 1)).to_bytes(n // 8, "big")
                if any(b & ~m & 0xFF for b, m in zip(bs, mb)):
                    raise DontCare("value outside the bit mask", lossy=True)
                e.put(byte, bs, mb)
                return byte + len(bs)
            e.put(byte, bs)
            return byte + len(bs)
        if k == "MINMAX":
            if bit != 0:
                raise DontCare("min-max at bit position")
            bs = self.to_bytes(internal, base, enc, hilo)
            term = self.terminator(d)
            if len(bs) < d["min"] or (d.get("max") is not None and len(bs) > d["max"]):
                raise Reject(f"length {len(bs)} outside [{d['min']}, {d.get('max')}]")
            if d["term"] == "END-OF-PDU":
                if not is_end:
                    raise DontCare("END-OF-PDU terminated value not at the end")
            else:
                step = len(term)
                if len(bs) % step:
                    raise Reject("odd length for a 2-byte terminated value")
                start = d["min"] + (-d["min"]) % step
                for i in range(start, len(bs) - step + 1, step):
                    if bs[i:i + step] == term:
                        raise Reject("payload contains the terminator")
            e.put(byte, bs)
            pos = byte + len(bs)
            if d["term"] != "END-OF-PDU" and not is_end and len(bs) != d.get("max"):
                e.put(pos, term)
                pos += len(term)
            e.extend_to(pos)
            return pos
        if k == "LEAD":
            bs = self.to_bytes(internal, base, enc, hilo)
            n = d["bits"]
            if len(bs) >> n:
                raise Reject("length does not fit into the length field")
            pos = e.place_word(len(bs), n, byte, bit, hilo, True)
            e.put(pos, bs)
            return pos + len(bs)
        if k == "PLEN":
            key = d["key"]
            n = e.length_keys.get(key)
            if base in ("A_INT32", "A_UINT32"):
                if n is None:
                    if isinstance(internal, bool) or not isinstance(internal, int):
                        raise Reject("not an int")
                    bl = internal.bit_length() + (1 if base == "A_INT32" else 0)
                    n = ((bl + 7) // 8) * 8
                    e.length_keys[key] = n
                if n == 0:
                    raise DontCare("zero-length integer")
                return e.place_word(int_to_raw(internal, base, enc, n), n, byte, bit, hilo, True)
            if base in ("A_FLOAT32", "A_FLOAT64"):
                raise DontCare("PLEN float")
            bs = self.to_bytes(internal, base, enc, hilo)
            if n is None:
                n = 8 * len(bs)
                e.length_keys[key] = n
            if n != 8 * len(bs):
                raise Reject("explicit length key conflicts with the value's length")
            if bit != 0:
                raise DontCare("bytes at bit position")
            e.put(byte, bs)
            e.extend_to(byte + len(bs))
            return byte + len(bs)
        raise DontCare(k)

    @staticmethod
    def terminator(d: Dict[str, Any]) -> bytes:
        two = d["base"] == "A_UNICODE2STRING"
        if d["term"] == "ZERO":
            return b"\x00\x00" if two else b"\x00"
        if d["term"] == "HEX-FF":
            return b"\xff\xff" if two else b"\xff"
        return b""

    @staticmethod
    def to_bytes(internal: Any, base: str, enc: Optional[str], hilo: bool) -> bytes:
        if base == "A_BYTEFIELD":
            if not isinstance(internal, (bytes, bytearray)):
                raise Reject(f"{internal!r} is not a byte field")
            return bytes(internal)
        if base in STRINGS:
            if not isinstance(internal, str):
                raise Reject(f"{internal!r} is not a string")
            try:
                return internal.encode(str_codec(base, enc, hilo))
            except UnicodeEncodeError:
                raise Reject("string not encodable")
        raise DontCare(base)

    @staticmethod
    def from_bytes(bs: bytes, base: str, enc: Optional[str], hilo: bool) -> Any:
        if base == "A_BYTEFIELD":
            return bytes(bs)
        try:
            return bs.decode(str_codec(base, enc, hilo))
        except UnicodeDecodeError:
            raise Mismatch("undecodable string")

    def dec_dct(self, d: Dict[str, Any], pdu: bytes, byte: int, bit: int, lk: Dict[str, int]) -> Tuple[Any, int]:
        k, base, enc = d["k"], d["base"], d.get("enc")
        hilo = hilo_of(d)

        def word(n: int, numeric: bool, byte: int = byte, bit: int = bit) -> Tuple[int, int]:
            kk = (bit + n + 7) // 8
            if byte + kk > len(pdu):
                raise Short()
            bs = pdu[byte:byte + kk]
            if numeric and not hilo:
                bs = bs[::-1]
            return (int.from_bytes(bs, "big") >> bit) & ((1 << n) - 1), byte + kk

        if k == "STD":
            n = d["bits"]
            mask = d.get("mask")
            if mask is not None and d.get("condensed"):
                raise DontCare("condensed")
            if base in ("A_INT32", "A_UINT32"):
                raw, end = word(n, True)
                if mask is not None:
                    raw &= mask
                return raw_to_int(raw, base, enc, n), end
            if base in ("A_FLOAT32", "A_FLOAT64"):
                raw, end = word(n, True)
                return raw_to_float(raw, base), end
            if bit != 0 or n % 8:
                raise DontCare("unaligned bytes")
            if byte + n // 8 > len(pdu):
                raise Short()
            bs = pdu[byte:byte + n // 8]
            if mask is not None:
                mb = (mask & ((1 << n) - 1)).to_bytes(n // 8, "big")
                bs = bytes(b & m for b, m in zip(bs, mb))
            return self.from_bytes(bs, base, enc, hilo), byte + n // 8
        if k == "MINMAX":
            term = self.terminator(d)
            mn, mx = d["min"], d.get("max")
            if byte + mn > len(pdu):
                raise Short()
            limit = len(pdu) if mx is None else min(len(pdu), byte + mx)
            if d["term"] == "END-OF-PDU":
                return self.from_bytes(pdu[byte:limit], base, enc, hilo), limit
            step = len(term)
            i = byte + mn
            if (i - byte) % step:
                i += step - (i - byte) % step
            while i + step <= limit and pdu[i:i + step] != term:
                i += step
            if i + step <= limit:  # terminator found
                return self.from_bytes(pdu[byte:i], base, enc, hilo), i + step
            end = limit
            v = self.from_bytes(pdu[byte:end], base, enc, hilo)
            # at max length no terminator is present; at end of PDU neither
            if mx is not None and end - byte == mx and end < len(pdu):
                return v, end
            return v, end
        if k == "LEAD":
            ln, pos = word(d["bits"], True)
            if pos + ln > len(pdu):
                raise Short()
            return self.from_bytes(pdu[pos:pos + ln], base, enc, hilo), pos + ln
        if k == "PLEN":
            if d["key"] not in lk:
                raise DontCare("length key after its dependant")
            n = lk[d["key"]]
            if base in ("A_INT32", "A_UINT32"):
                if n == 0:
                    raise DontCare("zero length int")
                raw, end = word(n, True)
                return raw_to_int(raw, base, enc, n), end
            if n % 8 or bit:
                raise DontCare("unaligned")
            if byte + n // 8 > len(pdu):
                raise Short()
            return self.from_bytes(pdu[byte:byte + n // 8], base, enc, hilo), byte + n // 8
        raise DontCare(k)

    # -- DOPs --------------------------------------------------------------------------------
    def static_bits(self, name: str) -> Optional[int]:
        d = self.dops[name]
        if d.get("kind", "dop") in ("dop", "dtcdop"):
            t = d["dct"]
            return t["bits"] if t["k"] == "STD" else None
        return None

    def enc_dop(self, name: str, value: Any, e: Enc, byte: int, bit: int, is_end: bool) -> Tuple[int, Any]:
        """-> (cursor after, expected decoded value)"""
        d = self.dops[name]
        kind = d.get("kind", "dop")
        if kind == "dop":
            ptype = d.get("phys", d["dct"]["base"])
            ptype = ptype["base"] if isinstance(ptype, dict) else ptype
            internal = compu_p2i(d.get("cm"), d["dct"]["base"], ptype, value)
            end = self.enc_dct(d["dct"], internal, e, byte, bit, is_end)
            try:
                back = compu_i2p(d.get("cm"), d["dct"]["base"], ptype, internal)
            except Mismatch:
                raise Reject("internal value invalid")
            return end, back
        if kind == "dtcdop":
            codes = {t["name"]: t["code"] for t in self.all_dtcs(d)}
            if isinstance(value, str):
                if value not in codes:
                    raise Reject("unknown DTC name")
                code = codes[value]
            elif isinstance(value, int) and not isinstance(value, bool):
                code = value
                if code not in codes.values():
                    raise Reject("unknown DTC code")
            else:
                raise Reject("not a DTC")
            end = self.enc_dct(d["dct"], code, e, byte, bit, is_end)
            return end, {"dtc": code}
        if bit != 0:
            raise DontCare("complex DOP at a bit position")
        if kind == "struct":
            if not isinstance(value, dict):
                raise Reject("structure value must be a dict")
            end, out = self.enc_params(d["params"], value, e, byte, is_end)
            if d.get("byte_size") is not None:
                if end - byte > d["byte_size"]:
                    raise DontCare("structure larger than BYTE-SIZE")
                end = byte + d["byte_size"]
                e.extend_to(end)
            return end, out
        if kind == "sfield":
            if not isinstance(value, (list, tuple)) or len(value) != d["n"]:
                raise Reject("wrong item count")
            pos, outs = byte, []
            for i, item in enumerate(value):
                end, o = self.enc_dop(d["of"], item, e, pos, 0, False)
                if end - pos > d["item_size"]:
                    raise DontCare("item larger than ITEM-BYTE-SIZE")
                pos += d["item_size"]
                e.extend_to(pos)
                outs.append(o)
            return pos, outs
        if kind == "dlfield":
            if not isinstance(value, (list, tuple)):
                raise Reject("not a list")
            c = d["count"]
            cend, _ = self.enc_dop(c["dop"], len(value), e, byte + c.get("byte", 0), c.get("bit") or 0, False)
            if cend - byte > d["offset"]:
                raise DontCare("count overlaps first item")
            pos, outs = byte + d["offset"], []
            e.extend_to(pos)
            for i, item in enumerate(value):
                pos, o = self.enc_dop(d["of"], item, e, pos, 0, is_end and i == len(value) - 1)
                outs.append(o)
            return pos, outs
        if kind == "eopfield":
            if not isinstance(value, (list, tuple)):
                raise Reject("not a list")
            if not is_end:
                raise DontCare("END-OF-PDU field not at the end")
            pos, outs = byte, []
            for i, item in enumerate(value):
                pos, o = self.enc_dop(d["of"], item, e, pos, 0, i == len(value) - 1)
                outs.append(o)
            return pos, outs
        if kind == "emfield":
            if not isinstance(value, (list, tuple)):
                raise Reject("not a list")
            pos, outs = byte, []
            for i, item in enumerate(value):
                pos, o = self.enc_dop(d["of"], item, e, pos, 0, is_end and i == len(value) - 1)
                outs.append(o)
            if not is_end:
                # the end marker is written but NOT consumed: the following parameter reads it
                tv = self.term_value(d)
                self.enc_dop(d["end_dop"], tv, e, pos, 0, False)
            return pos, outs
        if kind == "mux":
            if not (isinstance(value, (tuple, list)) and len(value) == 2 and isinstance(value[0], (str, int)) and not isinstance(value[0], bool)):
                raise DontCare("mux value form", lossy=True)
            cname, cval = value
            key = d["key"]
            if isinstance(cname, int):
                # odxtools also accepts the key value itself: the case is the first one whose limits contain it
                kv_int = cname
                case = self.mux_case_for(d, kv_int) or d.get("default")
                if case is None:
                    raise Reject("no case for this key")
                kend, _ = self.enc_dop(key["dop"], kv_int, e, byte + key.get("byte", 0), key.get("bit") or 0, False)
                out_i: Any = {}
                if case.get("struct") is not None:
                    pos, out_i = self.enc_dop(case["struct"], cval, e, byte + d.get("byte", 0), 0, is_end)
                else:
                    if cval not in ({}, None):
                        raise DontCare("value for a case without structure")
                    pos = max(kend, byte + d.get("byte", 0))
                    if kend != byte + d.get("byte", 0):
                        raise DontCare("structure-less case with key not adjacent to content")
                return pos, (case["name"], out_i)
            case = next((c for c in d["cases"] if c["name"] == cname), None)
            if case is not None:
                kv = case["lo"]["v"] if isinstance(case["lo"], dict) else case["lo"]
                first = self.mux_case_for(d, kv)
                if first is None or first["name"] != cname:
                    raise DontCare("case shadowed by an earlier case")
                sname = case.get("struct")
            elif d.get("default") and d["default"]["name"] == cname:
                raise DontCare("default case selected by name: the key value is the encoder's choice")
            else:
                raise Reject("unknown case")
            kend, _ = self.enc_dop(key["dop"], kv, e, byte + key.get("byte", 0), key.get("bit") or 0, False)
            pos = kend
            out: Any = {}
            if sname is not None:
                pos, out = self.enc_dop(sname, cval, e, byte + d.get("byte", 0), 0, is_end)
            else:
                if cval not in ({}, None):
                    raise DontCare("value for a case without structure")
                pos = max(kend, byte + d.get("byte", 0))
                if kend != byte + d.get("byte", 0):
                    raise DontCare("structure-less case with key not adjacent to content")
            return pos, (cname, out)
        if kind == "envdesc":
            raise DontCare("env data desc is handled at parameter level")
        raise DontCare(kind)

    def term_value(self, d: Dict[str, Any]) -> Any:
        ed = self.dops[d["end_dop"]]
        base = ed.get("phys", ed["dct"]["base"])
        base = base["base"] if isinstance(base, dict) else base
        t = d["term"]
        if base in ("A_INT32", "A_UINT32"):
            return int(str(t), 0)
        if base in ("A_FLOAT32", "A_FLOAT64"):
            return float(t)
        if base == "A_BYTEFIELD":
            return bytes.fromhex(t) if isinstance(t, str) else bytes(t)
        return str(t)

    def all_dtcs(self, d: Dict[str, Any]) -> List[Dict[str, Any]]:
        """own DTCs plus those of the linked DTC-DOPs that are not excluded by NOT-INHERITED-DTC-SNREFS"""
        out = list(d["dtcs"])
        for ln in d.get("linked", []):
            other = self.dops[ln["dop"]]
            out += [t for t in self.all_dtcs(other) if t["name"] not in ln.get("not_inherited", [])]
        return out

    @staticmethod
    def mux_case_for(d: Dict[str, Any], kv: Any) -> Optional[Dict[str, Any]]:
        for c in d["cases"]:
            lo = c["lo"]["v"] if isinstance(c["lo"], dict) else c["lo"]
            hi = c["hi"]["v"] if isinstance(c["hi"], dict) else c["hi"]
            if isinstance(c["lo"], dict) and c["lo"].get("type") == "OPEN" or isinstance(c["hi"], dict) and c["hi"].get("type") == "OPEN":
                if kv in (lo, hi):
                    raise DontCare("OPEN mux case limit hit exactly")
            if lo <= kv <= hi:
                return c
        return None

    def dec_dop(self, name: str, pdu: bytes, byte: int, bit: int, lk: Dict[str, int]) -> Tuple[Any, int]:
        d = self.dops[name]
        kind = d.get("kind", "dop")
        if kind == "dop":
            internal, end = self.dec_dct(d["dct"], pdu, byte, bit, lk)
            ptype = d.get("phys", d["dct"]["base"])
            ptype = ptype["base"] if isinstance(ptype, dict) else ptype
            return compu_i2p(d.get("cm"), d["dct"]["base"], ptype, internal), end
        if kind == "dtcdop":
            internal, end = self.dec_dct(d["dct"], pdu, byte, bit, lk)
            if internal not in [t["code"] for t in self.all_dtcs(d)]:
                raise Mismatch("unknown DTC")
            return {"dtc": internal}, end
        if kind == "struct":
            out, end = self.dec_params(d["params"], pdu, byte)
            if d.get("byte_size") is not None:
                if end - byte > d["byte_size"]:
                    raise DontCare("structure larger than BYTE-SIZE")
                end = byte + d["byte_size"]
                if end > len(pdu):
                    raise DontCare("BYTE-SIZE padding beyond the message")
            return out, end
        if kind == "sfield":
            pos, outs = byte, []
            for _ in range(d["n"]):
                o, end = self.dec_dop(d["of"], pdu, pos, 0, lk)
                pos += d["item_size"]
                outs.append(o)
            if pos > len(pdu):
                raise DontCare("item padding beyond the message")
            return outs, pos
        if kind == "dlfield":
            c = d["count"]
            n, _ = self.dec_dop(c["dop"], pdu, byte + c.get("byte", 0), c.get("bit") or 0, lk)
            pos, outs = byte + d["offset"], []
            for _ in range(n):
                o, pos = self.dec_dop(d["of"], pdu, pos, 0, lk)
                outs.append(o)
            return outs, pos
        if kind == "eopfield":
            pos, outs = byte, []
            while pos < len(pdu):
                o, pos = self.dec_dop(d["of"], pdu, pos, 0, lk)
                outs.append(o)
            return outs, pos
        if kind == "emfield":
            pos, outs = byte, []
            tv = self.term_value(d)
            while pos < len(pdu):
                try:
                    cand, _ = self.dec_dop(d["end_dop"], pdu, pos, 0, lk)
                    if cand.ok(tv) if hasattr(cand, "ok") and hasattr(cand, "alts") else cand == tv:
                        break
                except (Short, Mismatch):
                    pass
                o, pos = self.dec_dop(d["of"], pdu, pos, 0, lk)
                outs.append(o)
            return outs, pos
        if kind == "mux":
            key = d["key"]
            kv, kend = self.dec_dop(key["dop"], pdu, byte + key.get("byte", 0), key.get("bit") or 0, lk)
            case = self.mux_case_for(d, kv)
            if case is None:
                case = d.get("default")
            if case is None:
                raise Mismatch("no applicable mux case")
            if case.get("struct") is not None:
                out, end = self.dec_dop(case["struct"], pdu, byte + d.get("byte", 0), 0, lk)
            else:
                out, end = {}, byte + d.get("byte", 0)
                if kend != end:
                    raise DontCare("structure-less case with key not adjacent to content")
            return (case["name"], out), end
        raise DontCare(kind)

    # -- parameter lists ------------------------------------------------------------------------
    def enc_params(self, params: List[Dict[str, Any]], values: Dict[str, Any], e: Enc, origin: int,
                   is_end: bool) -> Tuple[int, Dict[str, Any]]:
        cursor = origin
        out: Dict[str, Any] = {}
        known = {p["name"] for p in params}
        for k in values:
            if k not in known:
                raise Reject(f"unknown parameter {k}")
        pending_keys: List[Tuple[Dict[str, Any], int]] = []
        journal: List[Tuple[Dict[str, Any], Any]] = []
        last = params[-1] if params else None
        # keys are scoped: the keys of this parameter list hide equally named keys of enclosing lists while it is encoded
        nrc_checks: List[Tuple[Dict[str, Any], int, int]] = []
        own_keys = [(p["name"], e.length_keys if p["t"] == "LENGTH-KEY" else e.table_keys) for p in params if p["t"] in ("LENGTH-KEY", "TABLE-KEY")]
        hidden = [(d, n, d.pop(n)) for n, d in own_keys if n in d]
        for p in params:
            t = p["t"]
            byte = origin + p["byte"] if p.get("byte") is not None else cursor
            bit = p.get("bit") or 0
            at_end = is_end and p is last
            name = p["name"]
            v = values.get(name)
            if t == "CODED-CONST":
                if v is not None and v != p["value"]:
                    raise Reject("wrong value for a constant")
                cursor = self.enc_dct(p["dct"], p["value"], e, byte, bit, at_end)
                out[name] = p["value"]
            elif t == "PHYS-CONST":
                if v is not None and v != p["const"]:
                    raise Reject("wrong value for a constant")
                cursor, out[name] = self.enc_dop(p["dop"], p["const"], e, byte, bit, at_end)
            elif t in ("VALUE", "SYSTEM"):
                if v is None:
                    v = p.get("default")
                if v is None:
                    raise Reject(f"missing value for {name}")
                if self.dops[p["dop"]].get("kind") == "envdesc":
                    cursor, out[name] = self.enc_envdesc(self.dops[p["dop"]], v, e, byte, journal)
                else:
                    cursor, out[name] = self.enc_dop(p["dop"], v, e, byte, bit, at_end)
            elif t == "RESERVED":
                if v is not None:
                    raise DontCare("value for RESERVED")
                cursor = byte + (bit + p["bits"] + 7) // 8
                e.extend_to(cursor)
                out[name] = Ellipsis
            elif t == "MATCHING-REQUEST-PARAM":
                if e.request is None or len(e.request) < p["rq_byte"] + p["len"]:
                    raise Reject("request too short")
                data = e.request[p["rq_byte"]:p["rq_byte"] + p["len"]]
                e.put(byte, data)
                cursor = byte + p["len"]
                out[name] = {"echo": bytes(data)}
            elif t == "NRC-CONST":
                n = p["dct"]["bits"]
                cursor = byte + (bit + n + 7) // 8
                e.extend_to(cursor)
                out[name] = {"nrc": list(p["values"])}
                nrc_checks.append((p, byte, bit))
            elif t == "LENGTH-KEY":
                if v is not None:
                    if isinstance(v, bool) or not isinstance(v, int):
                        raise Reject("length key must be int")
                    e.length_keys[name] = v
                n = self.static_bits(p["dop"])
                if n is None:
                    raise DontCare("length key without static size")
                cursor = byte + (bit + n + 7) // 8
                e.extend_to(cursor)
                pending_keys.append((p, byte))
            elif t == "TABLE-KEY":
                table = self.dops[p["table"]]
                if v is not None:
                    if not isinstance(v, str):
                        raise Reject("table key must be a row name")
                    e.table_keys[name] = v
                n = self.static_bits(table["key_dop"])
                if n is None:
                    raise DontCare("table key without static size")
                if p.get("row") is not None:
                    # the row is fixed by TABLE-ROW-REF; its key is still part of the PDU
                    if v is not None and v != p["row"]:
                        raise Reject("table key differs from the referenced row")
                    e.table_keys[name] = p["row"]
                cursor = byte + (bit + n + 7) // 8
                e.extend_to(cursor)
                pending_keys.append((p, byte))
            elif t == "TABLE-STRUCT":
                if not (isinstance(v, (tuple, list)) and len(v) == 2 and isinstance(v[0], str)):
                    raise Reject("table struct value must be (row, value)")
                keyp = next(q for q in params if q["name"] == p["key"])
                table = self.dops[keyp["table"]]
                prev = e.table_keys.get(keyp["name"])
                if prev is not None and prev != v[0]:
                    raise Reject("conflicting table key")
                e.table_keys[keyp["name"]] = v[0]
                row = next((r for r in table["rows"] if r["name"] == v[0]), None)
                if row is None:
                    raise Reject("unknown table row")
                if row.get("struct") is not None:
                    cursor, o = self.enc_dop(row["struct"], v[1], e, byte, 0, at_end)
                elif row.get("dop") is not None:
                    cursor, o = self.enc_dop(row["dop"], v[1], e, byte, bit, at_end)
                else:
                    raise DontCare("row without struct/dop")
                out[name] = (v[0], o)
            else:
                raise DontCare(t)
            journal.append((p, v))
        for p, byte in pending_keys:
            bit = p.get("bit") or 0
            name = p["name"]
            if p["t"] == "LENGTH-KEY":
                if name not in e.length_keys:
                    raise Reject("length key undefined")
                _, out[name] = self.enc_dop(p["dop"], e.length_keys[name], e, byte, bit, False)
            else:
                table = self.dops[p["table"]]
                if name not in e.table_keys:
                    raise Reject("table key undefined")
                row = next((r for r in table["rows"] if r["name"] == e.table_keys[name]), None)
                if row is None:
                    raise Reject("unknown row")
                self.enc_dop(table["key_dop"], row["key"], e, byte, bit, False)
                out[name] = row["name"]
        for n, d in own_keys:
            d.pop(n, None)
        for d, n, val in hidden:
            d[n] = val
        # what overlaps an NRC-CONST must be one of its coded values: a message that its own description cannot decode is
        # not a valid encoding
        for p, byte, bit in nrc_checks:
            try:
                v, _ = self.dec_dct(p["dct"], bytes(e.pdu), byte, bit, {})
            except Short:
                raise Reject("NRC-CONST beyond the message")
            if v not in p["values"]:
                raise Reject("the data overlapping the NRC-CONST is none of its coded values")
        # keep the declared order of keys in the result
        return cursor, {p["name"]: out[p["name"]] for p in params if p["name"] in out}

    def enc_envdesc(self, d: Dict[str, Any], v: Any, e: Enc, byte: int, journal: List[Tuple[Dict[str, Any], Any]]) -> Tuple[int, Any]:
        code = self.journal_dtc(d, journal)
        if not isinstance(v, dict):
            raise Reject("env data value must be a dict")
        pos = byte
        out: Dict[str, Any] = {}
        used = set()
        envs = [self.dops[n] for n in d["envdatas"]]
        chosen = []
        a = next((x for x in envs if x.get("all")), None)
        if a is not None:
            chosen.append(a)
        s = next((x for x in envs if code in x.get("dtcs", [])), None)
        if s is not None:
            chosen.append(s)
        for env in chosen:
            sub = {p["name"]: v[p["name"]] for p in env["params"] if p["name"] in v}
            used |= set(sub)
            pos, o = self.enc_params(env["params"], sub, e, pos, False)
            out.update(o)
        if set(v) - used:
            raise DontCare("values for env data that does not apply")
        return pos, out

    def journal_dtc(self, d: Dict[str, Any], journal: List[Tuple[Dict[str, Any], Any]]) -> int:
        for p, v in reversed(journal):
            if p["name"] == d["param"]:
                if p["t"] == "CODED-CONST":
                    return p["value"]
                if v is None:
                    v = p.get("default", p.get("const"))
                dop = self.dops[p["dop"]]
                if dop.get("kind") == "dtcdop":
                    if isinstance(v, str):
                        return {t["name"]: t["code"] for t in self.all_dtcs(dop)}[v]
                    if isinstance(v, dict):
                        return v["dtc"]
                    return v
                return v
        raise DontCare("env data desc before its DTC parameter")

    def dec_params(self, params: List[Dict[str, Any]], pdu: bytes, origin: int,
                   request: Optional[bytes] = None) -> Tuple[Dict[str, Any], int]:
        cursor = origin
        out: Dict[str, Any] = {}
        lk: Dict[str, int] = {}
        tk: Dict[str, Dict[str, Any]] = {}
        journal: List[Tuple[Dict[str, Any], Any]] = []
        for p in params:
            t = p["t"]
            byte = origin + p["byte"] if p.get("byte") is not None else cursor
            bit = p.get("bit") or 0
            name = p["name"]
            if t == "CODED-CONST":
                v, cursor = self.dec_dct(p["dct"], pdu, byte, bit, lk)
                if v != p["value"]:
                    raise Mismatch("coded const differs")
                out[name] = v
            elif t in ("VALUE", "SYSTEM", "PHYS-CONST", "LENGTH-KEY"):
                dd = self.dops[p["dop"]]
                if dd.get("kind") == "envdesc":
                    code = self.journal_dtc(dd, journal)
                    envs = [self.dops[n] for n in dd["envdatas"]]
                    res: Dict[str, Any] = {}
                    pos = byte
                    a = next((x for x in envs if x.get("all")), None)
                    s = next((x for x in envs if code in x.get("dtcs", [])), None)
                    for env in [x for x in (a, s) if x is not None]:
                        o, pos = self.dec_params(env["params"], pdu, pos)
                        res.update(o)
                    out[name], cursor = res, pos
                else:
                    out[name], cursor = self.dec_dop(p["dop"], pdu, byte, bit, lk)
                if t == "PHYS-CONST" and out[name] != p["const"]:
                    raise Mismatch("phys const differs")
                if t == "LENGTH-KEY":
                    lk[name] = out[name]
            elif t == "RESERVED":
                cursor = byte + (bit + p["bits"] + 7) // 8
                if cursor > len(pdu):
                    raise Short()
                out[name] = Ellipsis
            elif t == "MATCHING-REQUEST-PARAM":
                if byte + p["len"] > len(pdu):
                    raise Short()
                out[name] = {"echo": bytes(pdu[byte:byte + p["len"]])}
                cursor = byte + p["len"]
            elif t == "NRC-CONST":
                v, cursor = self.dec_dct(p["dct"], pdu, byte, bit, lk)
                if v not in p["values"]:
                    raise Mismatch("NRC does not apply")
                out[name] = v
            elif t == "TABLE-KEY":
                table = self.dops[p["table"]]
                kv, cursor = self.dec_dop(table["key_dop"], pdu, byte, bit, lk)
                row = next((r for r in table["rows"] if r["key"] == kv), None)
                if row is None:
                    raise Mismatch("no table row for key")
                if p.get("row") is not None and row["name"] != p["row"]:
                    raise Mismatch("key differs from the referenced row")
                tk[name] = row
                out[name] = row["name"]
            elif t == "TABLE-STRUCT":
                if p["key"] not in tk:
                    raise DontCare("table struct before its key")
                row = tk[p["key"]]
                if row.get("struct") is not None:
                    o, cursor = self.dec_dop(row["struct"], pdu, byte, 0, lk)
                elif row.get("dop") is not None:
                    o, cursor = self.dec_dop(row["dop"], pdu, byte, bit, lk)
                else:
                    raise DontCare("row without struct/dop")
                out[name] = (row["name"], o)
            else:
                raise DontCare(t)
            journal.append((p, out.get(name)))
        return out, cursor

    # -- messages ---------------------------------------------------------------------------------
    def encode(self, msg: str, values: Dict[str, Any], request: Optional[bytes] = None) -> Tuple[bytes, Dict[str, Any], Enc]:
        e = Enc(request)
        end, out = self.enc_params(self.msgs[msg]["params"], dict(values), e, 0, True)
        if end > len(e.pdu):
            raise DontCare("an empty object placed beyond the end of the PDU", lossy=True)
        return bytes(e.pdu), out, e

    def decode(self, msg: str, pdu: bytes) -> Tuple[Dict[str, Any], int]:
        return self.dec_params(self.msgs[msg]["params"], bytes(pdu), 0)
