"""spec helpers for variant identification (C14): identification services with several response layouts and
DOP types, and ECU-VARIANT-PATTERNS / BASE-VARIANT-PATTERN XML for the `variant_xml` slot of emit.layer().

No odxtools import.  The data model (service / mparam / candidate dicts) is the one of odxmodel.refmatcher.

Layer structure of the generated container `VM`:
    FUNCTIONAL-GROUP FG      all DOPs, structures, fields, tables, requests, responses, identification services,
                             one shared NEG-RESPONSE `7F 22 <nrc>` and a GLOBAL-NEG-RESPONSE with an NRC-CONST
    BASE-VARIANT  BV0        parent FG; parent of every ECU-variant candidate
    ECU-VARIANT   C<i>       (candidate kind "EV") parent BV0, ECU-VARIANT-PATTERNS
    BASE-VARIANT  C<i>       (candidate kind "BV") parent FG,  BASE-VARIANT-PATTERN (at most one pattern)
A candidate with "own": [X] re-defines the service X (same short name) with a request for another DID.
"""
from __future__ import annotations

from typing import Any, Dict, List, Sequence

from odxmodel.emit import T, X

U8 = {"k": "STD", "base": "A_UINT32", "bits": 8}
U16 = {"k": "STD", "base": "A_UINT32", "bits": 16}

TYPE_DOPS: Dict[str, Dict[str, Any]] = {
    "u8": {"name": "u8", "dct": U8},
    "ascii": {"name": "ascii", "dct": {"k": "STD", "base": "A_ASCIISTRING", "bits": 16}},
    "bytes": {"name": "bytes", "dct": {"k": "STD", "base": "A_BYTEFIELD", "bits": 16}},
    "float": {"name": "float", "dct": {"k": "STD", "base": "A_FLOAT32", "bits": 32}},
    "dtc": {"kind": "dtcdop", "name": "dtc", "dct": {"k": "STD", "base": "A_UINT32", "bits": 24},
            "dtcs": [{"name": "d1", "code": 0x1234}, {"name": "d2", "code": 0x5678}, {"name": "d3", "code": 0x9ABC}]},
    # variants whose "value 1" is falsy (0, 0.0, "", b""); strings / byte fields that can be empty need MIN-MAX-LENGTH types
    "u8z": {"name": "u8z", "dct": U8},
    "floatz": {"name": "floatz", "dct": {"k": "STD", "base": "A_FLOAT32", "bits": 32}},
    "asciiz": {"name": "asciiz", "dct": {"k": "MINMAX", "base": "A_ASCIISTRING", "min": 0, "max": 4, "term": "ZERO"}},
    "bytesz": {"name": "bytesz", "dct": {"k": "MINMAX", "base": "A_BYTEFIELD", "min": 0, "max": 4, "term": "ZERO"}},
    # kinds whose expected values are spelled in lower-case hex (see refmatcher.LOWER_CASE_TYPES)
    "byteslc": {"name": "byteslc", "dct": {"k": "STD", "base": "A_BYTEFIELD", "bits": 16}},
    "dtclc": {"kind": "dtcdop", "name": "dtclc", "dct": {"k": "STD", "base": "A_UINT32", "bits": 24},
              "dtcs": [{"name": "e1", "code": 0x12AB}, {"name": "e2", "code": 0x5C78}, {"name": "e3", "code": 0x9ABC}]},
    "f64big": {"name": "f64big", "dct": {"k": "STD", "base": "A_FLOAT64", "bits": 64}},
    "u64": {"name": "u64", "dct": {"k": "STD", "base": "A_UINT32", "bits": 64}},
}
OWN_DID_FLAG = 0x0080
OWN_PAD = 0xEE  # constant byte in front of the payload of a variant's own re-definition of a service ...
PADDED_TYPES = ("asciiz", "bytesz")  # ... and of services whose payload may be empty (see refmatcher.PADDED_TYPES)


def fg_dops() -> List[Dict[str, Any]]:
    dops: List[Dict[str, Any]] = []
    for typ, d in TYPE_DOPS.items():
        dops.append(dict(d))
        dops.append({"kind": "struct", "name": "S_" + typ, "params": [{"t": "VALUE", "name": "id", "dop": d["name"]}]})
        dops.append({"kind": "eopfield", "name": "F_" + typ, "of": "S_" + typ})
        dops.append({"kind": "table", "name": "T_" + typ, "key_dop": "u8",
                     "rows": [{"name": "row1", "key": 1, "struct": "S_" + typ}]})
        # nesting: structure in structure, field of such structures, field (of one item) whose items contain a field
        dops.append({"kind": "struct", "name": "S2_" + typ, "params": [{"t": "VALUE", "name": "in", "dop": "S_" + typ}]})
        dops.append({"kind": "eopfield", "name": "F2_" + typ, "of": "S2_" + typ})
        dops.append({"kind": "struct", "name": "S3_" + typ, "params": [{"t": "VALUE", "name": "fl2", "dop": "F_" + typ}]})
        dops.append({"kind": "eopfield", "name": "F3_" + typ, "of": "S3_" + typ})
    return dops


def payload_params(svc: Dict[str, Any], layer: str, msg: str) -> List[Dict[str, Any]]:
    typ, layout = svc["type"], svc["layout"]
    if layout in ("top", "toppath", "swap"):  # swap: the inherited definition; a second payload byte follows and is tolerated
        return [{"t": "VALUE", "name": "id", "dop": TYPE_DOPS[typ]["name"]}]
    if layout == "struct":
        return [{"t": "VALUE", "name": "st", "dop": "S_" + typ}]
    if layout == "field" or layout in ("f1_0", "f2_0", "f3_0", "f3_1", "f3_2"):
        return [{"t": "VALUE", "name": "fl", "dop": "F_" + typ}]
    if layout == "fnest":
        return [{"t": "VALUE", "name": "fl", "dop": "F2_" + typ}]
    if layout == "ffield":
        return [{"t": "VALUE", "name": "fl", "dop": "F3_" + typ}]
    if layout == "sstruct":
        return [{"t": "VALUE", "name": "st", "dop": "S2_" + typ}]
    if layout in ("tworesp", "tworesp_r"):  # the LONG positive response; the short one stops after `id`
        return [{"t": "VALUE", "name": "id", "dop": "u8"}, {"t": "VALUE", "name": "rev", "dop": TYPE_DOPS[typ]["name"]}]
    if layout == "tstruct":
        kid = f"{layer}.{msg}.tk"
        return [{"t": "TABLE-KEY", "name": "tk", "table": "T_" + typ, "id": kid},
                {"t": "TABLE-STRUCT", "name": "ts", "key_id": kid}]
    raise ValueError(layout)


def out_param_path(svc: Dict[str, Any], tgt: str) -> Dict[str, str]:
    """How a matching parameter addresses its target: {"snref": name} or {"snpathref": dotted path}."""
    if tgt == "nrc":
        return {"snref": "nrc"}
    if tgt == "gsid":
        return {"snref": "gsid"}
    layout = svc["layout"]
    if layout in ("tworesp", "tworesp_r"):
        return {"snref": "rev"}
    if layout in ("top", "swap"):
        return {"snref": "id"}
    if layout == "toppath":
        return {"snpathref": "id"}
    if layout in ("f1_0", "f2_0", "f3_0", "f3_1", "f3_2"):
        return {"snpathref": "fl.id"}
    return {"snpathref": {"struct": "st.id", "field": "fl.id", "tstruct": "ts.id", "fnest": "fl.in.id", "sstruct": "st.in.id",
                          "ffield": "fl.fl2.id"}[layout]}


def service_parts(svc: Dict[str, Any], layer: str, own: bool, dop_layer: str, alt: bool = False):
    """-> (msgs, svc spec) for one identification service defined in `layer` (DOPs live in dop_layer).
    alt (layout "swap"): same request, but `id` is read from the second payload byte (a parameter `skip` covers the first)."""
    name = svc["name"]
    did = svc["did"] | (OWN_DID_FLAG if own else 0)
    rq = {"kind": "REQUEST", "name": "RQ_" + name,
          "params": [{"t": "CODED-CONST", "name": "sid", "dct": U8, "value": 0x22},
                     {"t": "CODED-CONST", "name": "did", "dct": U16, "value": did}]}
    pr = {"kind": "POS-RESPONSE", "name": "PR_" + name,
          "params": [{"t": "CODED-CONST", "name": "sid", "dct": U8, "value": 0x62},
                     {"t": "CODED-CONST", "name": "did", "dct": U16, "value": did}]
          + ([{"t": "CODED-CONST", "name": "pad", "dct": U8, "value": OWN_PAD}] if (own or svc["type"] in PADDED_TYPES) else [])
          + ([{"t": "VALUE", "name": "skip", "dop": TYPE_DOPS[svc["type"]]["name"]}] if alt else [])
          + payload_params(svc, layer, "PR_" + name)}
    s = {"name": name, "request": "RQ_" + name, "pos": ["PR_" + name], "neg": ["NR"]}
    if svc["layout"] in ("tworesp", "tworesp_r"):
        short = {"kind": "POS-RESPONSE", "name": "PS_" + name, "params": [dict(p) for p in pr["params"][:-1]]}  # ... without `rev`
        s["pos"] = ["PS_" + name, "PR_" + name] if svc["layout"] == "tworesp" else ["PR_" + name, "PS_" + name]
        return [rq, short, pr], s
    return [rq, pr], s


def neg_response() -> Dict[str, Any]:
    return {"kind": "NEG-RESPONSE", "name": "NR",
            "params": [{"t": "CODED-CONST", "name": "sid", "dct": U8, "value": 0x7F},
                       {"t": "CODED-CONST", "name": "rq_sid", "dct": U8, "value": 0x22},
                       {"t": "VALUE", "name": "nrc", "dop": "u8"}]}


def global_neg_response() -> Dict[str, Any]:
    return {"kind": "GLOBAL-NEG-RESPONSE", "name": "GNR",
            "params": [{"t": "CODED-CONST", "name": "sid", "dct": U8, "value": 0x7F},
                       {"t": "VALUE", "name": "gsid", "dop": "u8"},  # only the global negative response has a parameter of this name
                       {"t": "NRC-CONST", "name": "gnrc", "dct": U8, "values": [0x10, 0x31]}]}  # 0x31: it decodes the NEG reply 7F 22 31


def matching_parameter_xml(mp: Dict[str, Any], svc: Dict[str, Any], base: bool) -> str:
    path = out_param_path(svc, mp["tgt"])
    out = (X("OUT-PARAM-IF-SNREF", SHORT_NAME=path["snref"]) if "snref" in path else
           X("OUT-PARAM-IF-SNPATHREF", SHORT_NAME_PATH=path["snpathref"]))
    if base:
        phys = mp.get("phys")
        return X("MATCHING-BASE-VARIANT-PARAMETER", T("EXPECTED-VALUE", mp["exp"]),
                 T("USE-PHYSICAL-ADDRESSING", None if phys is None else ("true" if phys else "false")),
                 X("DIAG-COMM-SNREF", SHORT_NAME=mp["svc"]), out)
    return X("MATCHING-PARAMETER", T("EXPECTED-VALUE", mp["exp"]), X("DIAG-COMM-SNREF", SHORT_NAME=mp["svc"]), out)


def patterns_xml(cand: Dict[str, Any], services: Dict[str, Dict[str, Any]]) -> str:
    pats = cand["patterns"]
    if not pats:
        return ""
    if cand["kind"] == "EV":
        return X("ECU-VARIANT-PATTERNS", *[
            X("ECU-VARIANT-PATTERN", X("MATCHING-PARAMETERS", *[matching_parameter_xml(mp, services[mp["svc"]], False) for mp in pat]))
            for pat in pats])
    if len(pats) != 1:
        raise ValueError("a base variant has at most one BASE-VARIANT-PATTERN")
    return X("BASE-VARIANT-PATTERN", X("MATCHING-BASE-VARIANT-PARAMETERS",
                                       *[matching_parameter_xml(mp, services[mp["svc"]], True) for mp in pats[0]]))


def variants_db(services: Dict[str, Dict[str, Any]], cands: Sequence[Dict[str, Any]]) -> Dict[str, Any]:
    """db spec with one layer C<i> per candidate (in the given order)."""
    msgs: List[Dict[str, Any]] = [neg_response(), global_neg_response()]
    svcs: List[Dict[str, Any]] = []
    for svc in services.values():
        m, s = service_parts(svc, "FG", False, "FG")
        msgs += m
        svcs.append(s)
    fg = {"type": "FUNCTIONAL-GROUP", "name": "FG", "dops": fg_dops(), "msgs": msgs, "svcs": svcs}
    layers: List[Dict[str, Any]] = [fg, {"type": "BASE-VARIANT", "name": "BV0", "parents": [{"layer": "FG"}]}]
    for i, c in enumerate(cands):
        name = f"C{i}"
        lay: Dict[str, Any] = {"name": name, "variant_xml": patterns_xml(c, services)}
        if c["kind"] == "EV":
            lay.update(type="ECU-VARIANT", parents=[{"layer": "BV0"}])
        else:
            lay.update(type="BASE-VARIANT", parents=[{"layer": "FG"}])
        own = c.get("own") or []
        alt = c.get("alt") or []
        if own or alt:
            # own re-definition of the service (same short name overrides the inherited one); its messages use the
            # DOPs of FG, which are inherited, through short-name references
            omsgs: List[Dict[str, Any]] = []
            osvcs: List[Dict[str, Any]] = []
            for sn in list(own) + list(alt):
                m, s = service_parts(services[sn], name, sn in own, "FG", alt=sn in alt)
                for msg in m:
                    for p in msg["params"]:
                        if "dop" in p or p["t"] == "TABLE-KEY":
                            p["snref"] = True
                omsgs += m
                osvcs.append(s)
            nr = neg_response()  # the layer's own copy of the negative response (ID <layer>.NR)
            nr["params"][2]["snref"] = True
            lay.update(msgs=[nr] + omsgs, svcs=osvcs)
        if c.get("gnr"):  # the candidate's own copy of the global negative response (overrides the inherited one)
            g = global_neg_response()
            g["params"][1]["snref"] = True
            lay["msgs"] = list(lay.get("msgs", [])) + [g]
        layers.append(lay)
    return {"containers": [{"name": "VM", "layers": layers}]}
