"""Reference model for C15: communication parameters of layer hierarchies.  No odxtools import.

Vocabulary
----------
hierarchy   (types, parents): types[i] in TYPES, listed so that parents always precede children; parents[i] is a tuple of
            indices < i.  Only PARENT-REFs that ODX 2.2 allows (ALLOWED_PARENTS).
instance    one COMPARAM-REF of a layer: {"layer": i, "param": <parameter key>, "proto": None|"P1"|"P2", "omit": ...,
            "tag": unique marker}.  `proto` None is the generic instance (no PROTOCOL-SNREF).
key         (param, proto) -- "per parameter and protocol".
view        the communication parameters of a layer: one instance per key.

What the property text fixes (MUST) and what it leaves open (DON'T-CARE)
-----------------------------------------------------------------------
* view(L)[key] is L's own instance if L has one; otherwise it comes from L's parents' views.  A parent that is itself an
  ancestor of another parent of L is *shadowed* (the other parent's view already is "that parent overridden by closer
  layers"), so in the diamond BV -> {FG, P}, FG -> P the functional group decides.  If the remaining parents offer
  different instances for the key (two unrelated protocols, two functional groups ...) the property text does not say
  which one wins: the admissible set then has several members and the check only demands that one of them is used.
* lookup(view, name, proto): the protocol-specific instance if the view has one, else the generic one, else nothing.
  The text has two clauses here ("overridden ... by closer layers" and "protocol-specific before generic"); when the
  generic instance was defined in a layer strictly closer than the layer of the protocol-specific one they disagree, and
  both answers are admissible (DON'T-CARE).  proto None ("any protocol"): admissible is any instance of that name; MUST
  only if there is exactly one.
* effective value of an instance: the given value, or the PHYSICAL-DEFAULT-VALUE of the (sub-)parameter specification
  when the value is omitted (empty SIMPLE-VALUE).
* typed accessors: the numeric content of the effective value (see ACCESSORS).
"""
from __future__ import annotations

import itertools
import re
from typing import Any, Dict, FrozenSet, Iterator, List, Optional, Sequence, Set, Tuple

ESD, PROT, FG, BV, EV = "ECU-SHARED-DATA", "PROTOCOL", "FUNCTIONAL-GROUP", "BASE-VARIANT", "ECU-VARIANT"
TYPES = (ESD, PROT, FG, BV, EV)  # parents always come before children in this order
RANK = {t: i for i, t in enumerate(TYPES)}
SHORT = {ESD: "S", PROT: "P", FG: "F", BV: "B", EV: "E"}

# ODX 2.2: an ECU variant inherits from exactly one base variant, a base variant from functional groups and protocols, a
# functional group from protocols; every hierarchy element may also reference shared-data layers, which have no parents
# and carry no communication parameters.
ALLOWED_PARENTS: Dict[str, Tuple[str, ...]] = {
    ESD: (),
    PROT: (ESD,),
    FG: (ESD, PROT),
    BV: (ESD, PROT, FG),
    EV: (ESD, BV),
}

Hierarchy = Tuple[Tuple[str, ...], Tuple[Tuple[int, ...], ...]]


# ---------------------------------------------------------------------------------------------
# hierarchies
# ---------------------------------------------------------------------------------------------
def _parent_sets(types: Sequence[str], i: int) -> Iterator[Tuple[int, ...]]:
    cand = [j for j in range(i) if types[j] in ALLOWED_PARENTS[types[i]]]
    for k in range(len(cand) + 1):
        for sub in itertools.combinations(cand, k):
            if types[i] == EV and sum(1 for j in sub if types[j] == BV) > 1:
                continue
            yield sub


def _connected(n: int, parents: Sequence[Sequence[int]]) -> bool:
    adj: Dict[int, Set[int]] = {i: set() for i in range(n)}
    for i, ps in enumerate(parents):
        for p in ps:
            adj[i].add(p)
            adj[p].add(i)
    seen = {0}
    todo = [0]
    while todo:
        x = todo.pop()
        for y in adj[x]:
            if y not in seen:
                seen.add(y)
                todo.append(y)
    return len(seen) == n


def _canonical(types: Sequence[str], parents: Sequence[Sequence[int]]) -> Tuple[Tuple[int, ...], ...]:
    """Smallest parent table under permutations of layers of one type.  PROTOCOL layers are NOT permuted: their position
    decides which one is called P1 / P2, and the placement alphabet is not symmetric in P1 / P2."""
    n = len(types)
    groups: List[List[int]] = []
    for t in TYPES:
        idx = [i for i in range(n) if types[i] == t]
        if idx:
            groups.append(idx)
    best: Optional[Tuple[Tuple[int, ...], ...]] = None
    perms_per_group = [([tuple(g)] if types[g[0]] == PROT else list(itertools.permutations(g))) for g in groups]
    for combo in itertools.product(*perms_per_group):
        m: Dict[int, int] = {}
        for g, p in zip(groups, combo):
            for a, b in zip(g, p):
                m[a] = b
        table: List[Tuple[int, ...]] = [()] * n
        for i in range(n):
            table[m[i]] = tuple(sorted(m[p] for p in parents[i]))
        t = tuple(table)
        if best is None or t < best:
            best = t
    assert best is not None
    return best


def hierarchies(n: int) -> List[Hierarchy]:
    """All weakly connected hierarchies with exactly n layers, at least one of which can carry communication parameters,
    whose PARENT-REFs respect ALLOWED_PARENTS; one representative per class of layers of equal non-protocol type being
    interchangeable."""
    out: List[Hierarchy] = []
    seen = set()
    for types in itertools.combinations_with_replacement(TYPES, n):
        if all(t == ESD for t in types):
            continue
        for parents in itertools.product(*[list(_parent_sets(types, i)) for i in range(n)]):
            if n > 1 and not _connected(n, parents):
                continue
            c = _canonical(types, parents)
            if (types, c) in seen:
                continue
            seen.add((types, c))
            out.append((tuple(types), c))
    out.sort(key=lambda h: (sum(len(p) for p in h[1]), [RANK[t] for t in h[0]], h[1]))
    return out


def ancestors(parents: Sequence[Sequence[int]]) -> List[Set[int]]:
    anc: List[Set[int]] = []
    for i in range(len(parents)):
        s: Set[int] = set()
        for p in parents[i]:
            s |= {p} | anc[p]
        anc.append(s)
    return anc


def shape_tags(types: Sequence[str], parents: Sequence[Sequence[int]]) -> Set[str]:
    tags: Set[str] = set()
    anc = ancestors(parents)
    for i in range(len(types)):
        ps = [p for p in parents[i] if types[p] != ESD]
        if len(ps) == 1:
            tags.add("single-parent")
        if len(ps) > 1:
            tags.add("multiple-parents")
            for a, b in itertools.combinations(ps, 2):
                if a in anc[b] or b in anc[a]:
                    tags.add("diamond")
                elif types[a] == types[b]:
                    tags.add("equal-priority-parents")
                else:
                    tags.add("unrelated-mixed-parents")
        if any(anc[p] - {q for q in anc[p] if types[q] == ESD} for p in ps):
            tags.add("chain>=3")
        if any(types[p] == ESD for p in parents[i]):
            tags.add("shared-data-parent")
    return tags


def layer_names(types: Sequence[str], prefix: str = "") -> List[str]:
    """Short names of the layers: protocols are P1, P2, P3 in order, the others L<i>."""
    out = []
    np = 0
    for i, t in enumerate(types):
        if t == PROT:
            np += 1
            out.append(f"{prefix}P{np}")
        else:
            out.append(f"{prefix}{SHORT[t]}{i}")
    return out


# ---------------------------------------------------------------------------------------------
# the parameter specification (what the generated COMPARAM-SUBSET contains)
# ---------------------------------------------------------------------------------------------
# simple parameters: name -> (default text, accessor name or None, reader)
#   reader "value"  : the accessor is specified to read the parameter's value (with default fallback)
SIMPLE: Dict[str, Dict[str, Any]] = {
    "CP_CanFuncReqId": {"default": "2015", "accessor": "get_can_func_req_id", "conv": "int"},
    "CP_Baudrate": {"default": "500000", "accessor": "get_can_baudrate", "conv": "int"},
    "CP_TesterPresentTime": {"default": "3000000", "accessor": "get_tester_present_time", "conv": "us"},
    "CP_DoIPLogicalGatewayAddress": {"default": "3584", "accessor": "get_doip_logical_gateway_address", "conv": "int"},
    "CP_DoIPLogicalTesterAddress": {"default": "3712", "accessor": "get_doip_logical_tester_address", "conv": "int"},
    "CP_DoIPLogicalFunctionalAddress": {"default": "58368", "accessor": "get_doip_logical_functional_address", "conv": "int"},
    "CP_DoIPRoutingActivationTimeout": {"default": "2000000", "accessor": "get_doip_routing_activation_timeout", "conv": "us"},
    "CP_DoIPRoutingActivationType": {"default": "224", "accessor": "get_doip_routing_activation_type", "conv": "int"},
    "CP_CANFDTxMaxDataLength": {"default": "CANFD TX_DL=64", "accessor": "get_max_can_payload_size", "conv": "txdl", "text": True},
    "CP_CANFDBaudrate": {"default": "2000000", "accessor": "get_can_fd_baudrate", "conv": "int"},
}
COMPLEX: Dict[str, Dict[str, Any]] = {
    "CP_UniqueRespIdTable": {
        "subs": [("CP_CanPhysReqId", "2016"), ("CP_CanRespUSDTId", "2024"), ("CP_DoIPLogicalEcuAddress", "4096")],
        "accessors": {"get_can_receive_id": "CP_CanPhysReqId", "get_can_send_id": "CP_CanRespUSDTId",
                      "get_doip_logical_ecu_address": "CP_DoIPLogicalEcuAddress"},
    },
}
CORE = ("CP_CanFuncReqId", "CP_UniqueRespIdTable")  # one simple + one complex parameter: the main enumeration
BASE = tuple(SIMPLE) + tuple(COMPLEX)  # the eleven named parameters the typed accessors read
# Further specifications (no accessor of their own).  A parameter is identified by its key; `name@B` is a DIFFERENT
# specification with the SAME short name `name` in a second COMPARAM-SUBSET (as CP_UniqueRespIdTable of ISO 15765-2 and of
# ISO 13400-2); `CP_CanFuncReqId_Ecu` is a specification whose short name merely EXTENDS another one.
SIMPLE["CP_CanFuncReqId_Ecu"] = {"default": "2014", "accessor": None, "conv": "int"}
SIMPLE["CP_CanFuncReqId@B"] = {"default": "2047", "accessor": None, "conv": "int"}
COMPLEX["CP_UniqueRespIdTable@B"] = {"subs": [("CP_DoIPLogicalEcuAddress", "4097"), ("CP_DoIPEcuName", "7")], "accessors": {}}
ALL = BASE + ("CP_CanFuncReqId_Ecu", "CP_CanFuncReqId@B", "CP_UniqueRespIdTable@B")
PREFIX_SET = ("CP_CanFuncReqId", "CP_CanFuncReqId_Ecu")
NAMESAKE_SET = ("CP_CanFuncReqId", "CP_UniqueRespIdTable", "CP_CanFuncReqId@B", "CP_UniqueRespIdTable@B")
PARAM_SETS = {"core": CORE, "all": BASE, "simple": ("CP_CanFuncReqId",), "complex": ("CP_UniqueRespIdTable",),
              "prefix": PREFIX_SET, "namesake": NAMESAKE_SET}
SUBSET_B = "CS15B"


def short_name(param: str) -> str:
    return param.split("@")[0]


def subset_of(param: str) -> str:
    return SUBSET_B if param.endswith("@B") else "CS15"


def spec_id(param: str) -> str:
    return f"{subset_of(param)}.{short_name(param)}"


def param_of_spec_id(ref_id: str) -> str:
    sub, _, name = ref_id.partition(".")
    return name + ("@B" if sub == SUBSET_B else "")
PROTOS = (None, "P1", "P2")
SUBSET, CSPEC, PSTACK = "CS15", "CSPEC15", "PS15"


# Variants of the specification of CP_UniqueRespIdTable (one variant per database).  A sub-parameter is (name, default) or
# (name, [nested sub-parameters]) for a nested COMPLEX-COMPARAM; its slot in a COMPLEX-VALUE is a nested COMPLEX-VALUE.
_NESTED = ("CP_AddrFormat", [("CP_AddrBits", "11"), ("CP_ExtAddr", "0")])
_FLAT = COMPLEX["CP_UniqueRespIdTable"]["subs"]
VARIANTS: Dict[str, List[Tuple[str, Any]]] = {
    "flat": list(_FLAT),
    "nested-first": [_NESTED] + list(_FLAT),
    "nested-later": [_FLAT[0], _NESTED] + list(_FLAT[1:]),
    "can-only": list(_FLAT[:2]),   # as ISO 15765-2: no CP_DoIPLogicalEcuAddress
    "doip-only": list(_FLAT[2:]),  # as ISO 13400-2: no CAN identifiers -> the bus is not CAN
}


def is_complex(param: str) -> bool:
    return param in COMPLEX


def complex_subs(param: str, variant: str = "flat") -> List[Tuple[str, Any]]:
    if param == "CP_UniqueRespIdTable":
        return VARIANTS[variant]
    return COMPLEX[param]["subs"]


def sub_names(param: str, variant: str = "flat") -> List[str]:
    """Names of the top-level sub-parameters (slots of the COMPLEX-VALUE), nested ones included."""
    return [s for s, _ in complex_subs(param, variant)]


def simple_sub_names(param: str, variant: str = "flat") -> List[str]:
    return [s for s, d in complex_subs(param, variant) if isinstance(d, str)]


# instance modes: bit 0 = value omitted (complex: one slot omitted), bit 1 = the COMPARAM-REF also carries a PROT-STACK-SNREF
M_GIVEN, M_OMIT, M_STACK, M_OMIT_STACK = 0, 1, 2, 3


def is_canfd_instance(layer: int, proto: Optional[str]) -> bool:
    """Whether a GIVEN value of CP_CANFDTxMaxDataLength says CAN-FD ('CANFD TX_DL=n') or classic CAN ('CAN TX_DL=n'):
    alternates with layer and qualifier so that definitions for different protocols disagree."""
    return (layer + PROTOS.index(proto)) % 2 == 0


# ---------------------------------------------------------------------------------------------
# placements
# ---------------------------------------------------------------------------------------------
# One placement of ONE parameter in ONE layer is a tuple of (proto, mode): proto in PROTOS, mode 0 = value / all
# sub-values given, mode k>0 = value omitted (simple) / sub-value number (k-1) omitted (complex; `ROT` = rotating index).
KINDS: Tuple[Tuple[Optional[str], ...], ...] = ((), (None,), ("P1",), ("P2",), (None, "P1"))
KIND_NAME = {(): "absent", (None,): "generic", ("P1",): "P1", ("P2",): "P2", (None, "P1"): "generic+P1"}


def _modes(modes: Any) -> Tuple[int, ...]:
    return tuple(range(modes)) if isinstance(modes, int) else tuple(modes)


def layer_placements(modes: Any = 2, uniform: bool = False) -> List[Tuple[Tuple[Optional[str], int], ...]]:
    """All placements of a parameter in one layer: kind x mode per instance.  modes: a count (2 -> given / omitted, 11
    placements; 4 -> x with / without PROT-STACK-SNREF, 29 placements) or an explicit tuple of modes; uniform: the two
    instances of a generic+P1 pair have the same mode (9 placements for 2 modes)."""
    out = []
    for kind in KINDS:
        for ms in itertools.product(_modes(modes), repeat=len(kind)):
            if uniform and len(set(ms)) > 1:
                continue
            out.append(tuple(zip(kind, ms)))
    return out


def placements(types: Sequence[str], modes: Any = 2, uniform: bool = False
               ) -> Iterator[Tuple[Tuple[Tuple[Optional[str], int], ...], ...]]:
    """All placement vectors for a hierarchy (shared-data layers cannot carry communication parameters)."""
    per = layer_placements(modes, uniform)
    return itertools.product(*[(per if t != ESD else [()]) for t in types])


def n_placements(types: Sequence[str], modes: Any = 2, uniform: bool = False) -> int:
    k = len(layer_placements(modes, uniform))
    n = 1
    for t in types:
        if t != ESD:
            n *= k
    return n


def instance_value(layer: int, proto: Optional[str], pidx: int, sub: int = 0) -> int:
    """A number that identifies the instance (layer, qualifier), the parameter and the sub-value; never equal to a
    default of SIMPLE / COMPLEX and below 2**29 (CAN identifiers)."""
    q = PROTOS.index(proto)
    return 100000 + layer * 10000 + q * 1000 + pidx * 10 + sub


def complex_values(layer: int, proto: Optional[str], pidx: int, subs: Sequence[Tuple[str, Any]], omitted: Optional[int]) -> List[Any]:
    """Slots of a COMPLEX-VALUE: a string per simple sub-parameter, a list per nested one; slot `omitted` is left out
    (for a nested slot: its first inner value)."""
    out: List[Any] = []
    n = 0
    for k, (_, d) in enumerate(subs):
        if isinstance(d, str):
            n += 1
            out.append(None if k == omitted else str(instance_value(layer, proto, pidx, n)))
        else:
            inner = [str(instance_value(layer, proto, pidx, 5 + j)) for j in range(len(d))]
            if k == omitted:
                inner[0] = None  # type: ignore[call-overload]
            out.append(inner)
    return out


def simple_text(param: str, layer: int, proto: Optional[str], pidx: int) -> str:
    v = str(instance_value(layer, proto, pidx))
    if SIMPLE[param].get("text"):
        return ("CANFD" if is_canfd_instance(layer, proto) else "CAN") + f" TX_DL={v}"
    return v


def make_instance(li: int, param: str, proto: Optional[str], mode: int = 0, variant: str = "flat",
                  generation: int = 0) -> Dict[str, Any]:
    """One COMPARAM-REF of layer li.  generation > 0: a replacement written later (other marker, other values)."""
    pidx = ALL.index(param)
    vl = li + 5 * generation  # values as if the instance belonged to a layer that does not exist
    inst: Dict[str, Any] = {"layer": li, "param": param, "proto": proto,
                            "tag": f"i{li}.{pidx}.{proto or 'G'}" + ("" if not generation else f".r{generation}")}
    if mode & M_STACK:
        inst["pstack"] = PSTACK
    if is_complex(param):
        subs = complex_subs(param, variant)
        omitted = None if not mode & M_OMIT else (li + PROTOS.index(proto)) % len(subs)
        inst["subs"] = complex_values(vl, proto, pidx, subs, omitted)
    else:
        inst["value"] = None if mode & M_OMIT else simple_text(param, vl, proto, pidx)
    return inst


def make_instances(placement: Sequence[Sequence[Tuple[Optional[str], int]]], params: Sequence[str],
                   pfirst: bool = False, placement2: Optional[Sequence[Sequence[Tuple[Optional[str], int]]]] = None,
                   params2: Optional[Sequence[str]] = None, variant: str = "flat") -> List[List[Dict[str, Any]]]:
    """Instances per layer, in document order.  Every parameter of `params` is instantiated at the same placement
    (placement2, if given, is used for the parameters of params2 -- default: the complex ones -- instead).  pfirst:
    protocol-specific instances are written before the generic ones (document order is not meaningful in ODX; both
    orders are enumerated)."""
    out: List[List[Dict[str, Any]]] = []
    for li in range(len(placement)):
        insts: List[Dict[str, Any]] = []
        for param in params:
            pidx = ALL.index(param)
            second = placement2 is not None and (is_complex(param) if params2 is None else param in params2)
            pl = placement2[li] if second else placement[li]  # type: ignore[index]
            pl = sorted(pl, key=lambda pm: (pm[0] is None) if pfirst else (pm[0] is not None))
            for proto, mode in pl:
                insts.append(make_instance(li, param, proto, mode, variant))
        out.append(insts)
    return out


# ---------------------------------------------------------------------------------------------
# views
# ---------------------------------------------------------------------------------------------
Key = Tuple[str, Optional[str]]


def views(types: Sequence[str], parents: Sequence[Sequence[int]], local: Sequence[Sequence[Dict[str, Any]]]
          ) -> List[Dict[Key, FrozenSet[str]]]:
    """Per layer: key -> admissible instance tags (singleton = MUST)."""
    anc = ancestors(parents)
    out: List[Dict[Key, FrozenSet[str]]] = []
    for i in range(len(types)):
        v: Dict[Key, Set[str]] = {}
        if types[i] != ESD:
            ps = [p for p in parents[i] if types[p] != ESD]
            live = [p for p in ps if not any(p in anc[q] for q in ps if q != p)]  # drop shadowed parents
            # a parent of a closer layer type (PROTOCOL < FUNCTIONAL-GROUP < BASE-VARIANT) decides over one of a farther type
            # -- also when it only passes on what it inherited itself; parents of EQUAL type are not ranked (DON'T-CARE)
            best: Dict[Key, int] = {}
            for p in live:
                for key in out[p]:
                    best[key] = max(best.get(key, -1), RANK[types[p]])
            for p in live:
                for key, tags in out[p].items():
                    if RANK[types[p]] == best[key]:
                        v.setdefault(key, set()).update(tags)
            for inst in local[i]:
                v[(inst["param"], inst["proto"])] = {inst["tag"]}
        out.append({k: frozenset(s) for k, s in v.items()})
    return out


def index_instances(local: Sequence[Sequence[Dict[str, Any]]]) -> Dict[str, Dict[str, Any]]:
    return {inst["tag"]: inst for insts in local for inst in insts}


def classify_view_error(i: int, key: Key, observed: Optional[str], admissible: FrozenSet[str], parents: Sequence[Sequence[int]],
                        by_tag: Dict[str, Dict[str, Any]]) -> str:
    """Failure mode for a wrong view entry (observed tag not admissible)."""
    anc = ancestors(parents)
    if observed is None:
        return "missing-own-instance" if any(by_tag[t]["layer"] == i for t in admissible) else "missing-inherited-instance"
    if not admissible:
        inst = by_tag.get(observed)
        if inst is not None and (inst["param"], inst["proto"]) != key:
            return "instance-under-wrong-key"
        return "instance-not-inherited-appears"
    inst = by_tag.get(observed)
    if inst is None:
        return "unknown-instance"
    if (inst["param"], inst["proto"]) != key:
        return "instance-under-wrong-key"
    if any(by_tag[t]["layer"] == i for t in admissible):
        return "own-instance-overridden-by-inherited"
    if inst["layer"] not in anc[i] and inst["layer"] != i:
        return "instance-of-unrelated-layer"
    if any(inst["layer"] in anc[by_tag[t]["layer"]] for t in admissible):
        return "farther-layer-wins"
    return "parent-of-farther-layer-type-wins"


# ---------------------------------------------------------------------------------------------
# lookup by name and protocol
# ---------------------------------------------------------------------------------------------
def lookup(view: Dict[Key, str], param: str, proto: Optional[str], parents: Sequence[Sequence[int]],
           by_tag: Dict[str, Dict[str, Any]]) -> Tuple[FrozenSet[Optional[str]], str]:
    """view: key -> instance tag (a concrete view); param: the SHORT NAME asked for (exact match; several specifications
    may share it -- the text does not rank namesakes).  Returns (admissible answers, why)."""
    named = {k: t for k, t in view.items() if short_name(k[0]) == param}
    if proto is None:
        if not named:
            return frozenset([None]), "no instance of that name"
        if len(named) == 1:
            return frozenset(named.values()), "only instance of that name"
        return frozenset(named.values()), "any protocol: several instances, the text does not rank them"
    specs = [t for k, t in named.items() if k[1] == proto]
    gens = [t for k, t in named.items() if k[1] is None]
    if not specs and not gens:
        return frozenset([None]), "neither a protocol-specific nor a generic instance"
    if not specs:
        return frozenset(gens), "generic instance, no protocol-specific one" + (" (namesakes are not ranked)" if len(gens) > 1 else "")
    anc = ancestors(parents)
    adm = set(specs)
    why = "protocol-specific before generic" if gens else "protocol-specific instance"
    for g in gens:
        if any(by_tag[s]["layer"] in anc[by_tag[g]["layer"]] for s in specs):
            adm.add(g)
            why = "generic instance defined in a closer layer than the protocol-specific one (clauses disagree)"
    if len(specs) > 1:
        why += " (namesakes are not ranked)"
    return frozenset(adm), why


# ---------------------------------------------------------------------------------------------
# values and typed accessors
# ---------------------------------------------------------------------------------------------
# Revision of the first COMPARAM-SUBSET document: revision r > 0 has the same specifications with OTHER defaults (the
# re-resolution phase exchanges the document).  The check sets REVISION to the revision the judged database must show.
REVISION = 0
BIG_VALUES = (2 ** 53 + 1, 2 ** 64 - 1)  # not representable as a double / the largest 64 bit value
BIG_REVISIONS = {100: BIG_VALUES[0], 101: BIG_VALUES[1]}


def rev_text(default: str, rev: int) -> str:
    """The PHYSICAL-DEFAULT-VALUE of revision `rev` of a specification whose revision-0 default is `default`."""
    if rev == 0:
        return default
    if rev in BIG_REVISIONS:  # every default is one very large integer
        m = re.fullmatch(r"(.*?)([0-9]+)", default)
        assert m is not None, default
        return m.group(1) + str(BIG_REVISIONS[rev])
    m = re.fullmatch(r"(.*?)([0-9]+)", default)
    assert m is not None, default
    return m.group(1) + str(int(m.group(2)) + 7 * rev)


def default_of(param: str, default: str) -> str:
    return rev_text(default, REVISION) if subset_of(param) == "CS15" else default


def effective_value(inst: Dict[str, Any]) -> str:
    v = inst.get("value")
    return default_of(inst["param"], SIMPLE[inst["param"]]["default"]) if v is None else v


def effective_subvalue(inst: Dict[str, Any], sub: str, variant: str = "flat") -> Optional[str]:
    """None if the complex parameter has no such sub-parameter.  Only for simple sub-parameters."""
    names = sub_names(inst["param"], variant)
    if sub not in names:
        return None
    k = names.index(sub)
    v = inst["subs"][k]
    d = complex_subs(inst["param"], variant)[k][1]
    assert isinstance(d, str), "nested sub-parameters are not read as strings"
    return default_of(inst["param"], d) if v is None else v


def says_canfd(inst: Dict[str, Any]) -> bool:
    return "CANFD" in effective_value(inst)


NAN = "not-a-number"  # the effective value has no numeric content (malformed): no number may be returned


def numeric(conv: str, text: str) -> Any:
    if conv in ("int", "us"):
        if not re.fullmatch(r"[0-9]+", text):
            return NAN
        return int(text) if conv == "int" else int(text) / 1e6  # microseconds -> seconds
    if conv == "txdl":
        m = re.search(r"TX_DL *= *([0-9]+)", text)
        if m is None:
            return 8  # documented fallback of get_max_can_payload_size for a value of unexpected format
        return int(m.group(1))
    raise ValueError(conv)


# accessor -> (parameter name, sub-parameter or None, conversion)
ACCESSORS: Dict[str, Tuple[str, Optional[str], str]] = {}
for _n, _d in SIMPLE.items():
    if _d["accessor"]:
        ACCESSORS[_d["accessor"]] = (_n, None, _d["conv"])
for _n, _d in COMPLEX.items():
    for _a, _s in _d["accessors"].items():
        ACCESSORS[_a] = (_n, _s, "int")


def accessor_expectation(acc: str, inst: Optional[Dict[str, Any]], variant: str = "flat") -> Tuple[str, Any]:
    """inst = the instance the lookup yields for the accessor's parameter (None: no such parameter).
    -> ("must", value) | ("dontcare", None)."""
    param, sub, conv = ACCESSORS[acc]
    if inst is None:
        if acc == "get_max_can_payload_size":
            return "dontcare", None  # 8 for a CAN bus without the parameter, None otherwise: a convention, not content
        return "must", None
    if acc == "get_can_fd_baudrate":
        return "dontcare", None  # conditional on two other parameters (uses_can_fd): see can_fd_expectation
    text = effective_value(inst) if sub is None else effective_subvalue(inst, sub, variant)
    if text is None:
        return "must", None  # a namesake specification without that sub-parameter
    return "must", numeric(conv, text)


def can_fd_expectation(table: Optional[Dict[str, Any]], frame: Optional[Dict[str, Any]], baud: Optional[Dict[str, Any]],
                       variant: str = "flat") -> Dict[str, Any]:
    """The CAN / CAN-FD gate for ONE protocol query.  table / frame / baud: the instances CP_UniqueRespIdTable,
    CP_CANFDTxMaxDataLength and CP_CANFDBaudrate resolve to FOR THAT QUERY (None: not defined).
    uses_can: the response-id table gives a request id (ours always has an effective one); uses_can_fd: additionally the
    frame-size parameter is defined and its effective value says CANFD; get_can_fd_baudrate: the number of the effective
    CP_CANFDBaudrate if CAN-FD is in use and the parameter is defined, else None."""
    # (a response-id table without CP_CanPhysReqId -- the DoIP flavour -- means: not a CAN bus)
    uses_can = table is not None and effective_subvalue(table, "CP_CanPhysReqId", variant) is not None
    uses_fd = uses_can and frame is not None and says_canfd(frame)
    rate = numeric("int", effective_value(baud)) if (uses_fd and baud is not None) else None
    out = {"uses_can": uses_can, "uses_can_fd": uses_fd, "get_can_fd_baudrate": rate}
    if frame is None:
        # documented convention: without the frame-size parameter a CAN bus carries 8 bytes, any other bus has no answer
        out["get_max_can_payload_size"] = 8 if uses_can else None
    return out
