"""link-world (plain dicts) -> ODX 2.2 XML, for the reference-resolution check (C10).

No odxtools import.  A *world* describes a complete small database in which EVERY reference can be written
in every addressing form (ID-REF with or without DOCREF/DOCTYPE, SNREF) and every identifiable object
carries an explicit local ID (so that the same local ID can be defined in several document fragments) and
a unique marker in LONG-NAME.  The same dict is interpreted by odxmodel.reflinks (the oracle).

world  := {"containers": [container..] (file order), "subsets": [subset..], "specs": [spec..],
           "order": [file stem..]?}
container := {"sn", "id", "m", "layers": [layer..] (document order inside their type group)}
layer  := {"sn", "type", "id", "m", "imports": [ref..], "parents": [{"ref": ref, "ptype": layer type, "ni": {...}}],
           "fclasses": [{sn,id,m}], "audiences": [{sn,id,m}], "ddds": [obj..], "units": [..], "physdims": [..],
           "unitgroups": [..], "comms": [service|job|{"k":"commref","ref":ref}],
           "requests"|"posresps"|"negresps"|"gnrs": [{sn,id,m,params}], "comparams": [{"ref","value"}],
           "comparam_spec": ref, "prot_stack": sn}
ref    := {"ref": local id, "doc": (doc name, doc type)?} | {"snref": short name}
Objects are dicts {"k": kind, "sn", "id", "m", ...}; parameters {"t": type, "sn", "m", ...}.
"""
from __future__ import annotations

import os
from typing import Any, Dict, List, Optional

from .emit import T, X, XSI, names

HEAD = '<?xml version="1.0" encoding="UTF-8" standalone="no" ?>\n<ODX MODEL-VERSION="2.2.0" ' + XSI + ">"

LAYER_TAG = {"PROTOCOL": ("PROTOCOLS", "PROTOCOL", "PROTOCOL-REF"),
             "FUNCTIONAL-GROUP": ("FUNCTIONAL-GROUPS", "FUNCTIONAL-GROUP", "FUNCTIONAL-GROUP-REF"),
             "BASE-VARIANT": ("BASE-VARIANTS", "BASE-VARIANT", "BASE-VARIANT-REF"),
             "ECU-VARIANT": ("ECU-VARIANTS", "ECU-VARIANT", "ECU-VARIANT-REF"),
             "ECU-SHARED-DATA": ("ECU-SHARED-DATAS", "ECU-SHARED-DATA", "ECU-SHARED-DATA-REF")}
# order in which odxtools (and the ODX schema) groups the layers of one container
LAYER_GROUP_ORDER = ["ECU-SHARED-DATA", "PROTOCOL", "FUNCTIONAL-GROUP", "BASE-VARIANT", "ECU-VARIANT"]


def R(tag: str, r: Optional[Dict[str, Any]], *children: str, **attrs: Any) -> str:
    """Emit a reference element. r = {"ref": id, "doc": (name, type)?} -> <TAG ID-REF= DOCREF= DOCTYPE=>;
    r = {"snref": name} -> <TAG-with-SNREF SHORT-NAME=>."""
    if r is None:
        return ""
    if "snref" in r:
        if not tag.endswith("-REF"):
            raise ValueError(tag)
        return X(tag[:-4] + "-SNREF", *children, SHORT_NAME=r["snref"])
    doc = r.get("doc")
    return X(tag, *children, ID_REF=r["ref"], DOCREF=doc[0] if doc else None, DOCTYPE=doc[1] if doc else None, **attrs)


def nm(o: Dict[str, Any]) -> str:
    return names(o["sn"], o.get("m"))


U8 = X("DIAG-CODED-TYPE", T("BIT-LENGTH", 8), xsi_type="STANDARD-LENGTH-TYPE", BASE_DATA_TYPE="A_UINT32")
IDENT = X("COMPU-METHOD", T("CATEGORY", "IDENTICAL"))
PHYS = X("PHYSICAL-TYPE", BASE_DATA_TYPE="A_UINT32")


# ---------------------------------------------------------------------------------------------
# parameters and messages
# ---------------------------------------------------------------------------------------------
def param(p: Dict[str, Any]) -> str:
    t = p["t"]
    head = nm(p) + T("BYTE-POSITION", p.get("byte"))
    a = dict(xsi_type=t)
    if t == "CODED-CONST":
        return X("PARAM", head, T("CODED-VALUE", p.get("value", 0)), U8, **a)
    if t == "VALUE":
        return X("PARAM", head, R("DOP-REF", p["dop"]), **a)
    if t == "LENGTH-KEY":
        return X("PARAM", head, R("DOP-REF", p["dop"]), ID=p["id"], **a)
    if t == "TABLE-KEY":
        return X("PARAM", head, R("TABLE-REF", p.get("table")), R("TABLE-ROW-REF", p.get("row")), ID=p["id"], **a)
    if t == "TABLE-STRUCT":
        return X("PARAM", head, R("TABLE-KEY-REF", p["key"]), **a)
    if t == "TABLE-ENTRY":
        return X("PARAM", head, T("TARGET", p.get("target", "KEY")), R("TABLE-ROW-REF", p["row"]), **a)
    raise ValueError(t)


def params(ps: List[Dict[str, Any]]) -> str:
    return X("PARAMS", *[param(p) for p in ps]) or "<PARAMS/>"


def message(tag: str, m: Dict[str, Any]) -> str:
    return X(tag, nm(m), params(m.get("params", [])), ID=m["id"])


# ---------------------------------------------------------------------------------------------
# data dictionary
# ---------------------------------------------------------------------------------------------
DDDS_ORDER = ["DTC-DOPS", "ENV-DATA-DESCS", "DATA-OBJECT-PROPS", "STRUCTURES", "STATIC-FIELDS", "DYNAMIC-LENGTH-FIELDS",
              "DYNAMIC-ENDMARKER-FIELDS", "END-OF-PDU-FIELDS", "MUXS", "ENV-DATAS", "UNIT-SPEC", "TABLES"]
FIELD_TAG = {"sfield": ("STATIC-FIELDS", "STATIC-FIELD"), "dlfield": ("DYNAMIC-LENGTH-FIELDS", "DYNAMIC-LENGTH-FIELD"),
             "emfield": ("DYNAMIC-ENDMARKER-FIELDS", "DYNAMIC-ENDMARKER-FIELD"), "eopfield": ("END-OF-PDU-FIELDS", "END-OF-PDU-FIELD")}


def table_row(r: Dict[str, Any]) -> str:
    if "rowref" in r:
        return R("TABLE-ROW-REF", r["rowref"])
    fc = X("FUNCT-CLASS-REFS", *[R("FUNCT-CLASS-REF", f) for f in r["fclasses"]]) if r.get("fclasses") else ""
    return X("TABLE-ROW", nm(r), T("KEY", r["key"]), R("STRUCTURE-REF", r.get("struct")), R("DATA-OBJECT-PROP-REF", r.get("dop")),
             fc, ID=r["id"])


def ddds_obj(o: Dict[str, Any]) -> (str, str):
    k = o["k"]
    if k == "dop":
        if o.get("plen") is not None:
            dct = X("DIAG-CODED-TYPE", R("LENGTH-KEY-REF", o["plen"]), xsi_type="PARAM-LENGTH-INFO-TYPE", BASE_DATA_TYPE="A_UINT32")
        else:
            dct = U8
        return "DATA-OBJECT-PROPS", X("DATA-OBJECT-PROP", nm(o), IDENT, dct, PHYS, R("UNIT-REF", o.get("unit")), ID=o["id"])
    if k == "dtcdop":
        dtcs = []
        for d in o.get("dtcs", []):
            if "dtcref" in d:
                dtcs.append(R("DTC-REF", d["dtcref"]))
            else:
                dtcs.append(X("DTC", nm(d), T("TROUBLE-CODE", d["code"]), T("DISPLAY-TROUBLE-CODE", "P%04X" % d["code"]),
                              T("TEXT", "dtc " + d["sn"]), ID=d["id"]))
        linked = X("LINKED-DTC-DOPS", *[X("LINKED-DTC-DOP", R("DTC-DOP-REF", l)) for l in o["linked"]]) if o.get("linked") else ""
        return "DTC-DOPS", X("DTC-DOP", nm(o), U8, PHYS, IDENT, X("DTCS", *dtcs) or "<DTCS/>", linked, ID=o["id"])
    if k == "struct":
        return "STRUCTURES", X("STRUCTURE", nm(o), params(o.get("params", [])), ID=o["id"])
    if k == "envdata":
        return "ENV-DATAS", X("ENV-DATA", nm(o), params(o.get("params", [])), "<ALL-VALUE/>", ID=o["id"])
    if k == "envdesc":
        return "ENV-DATA-DESCS", X("ENV-DATA-DESC", nm(o), X("PARAM-SNREF", SHORT_NAME=o.get("param_sn", "dtc")),
                                   X("ENV-DATA-REFS", *[R("ENV-DATA-REF", e) for e in o.get("envdatas", [])]), ID=o["id"])
    if k in FIELD_TAG:
        sref = R("ENV-DATA-DESC-REF", o["of_env"]) if o.get("of_env") is not None else R("BASIC-STRUCTURE-REF", o["of"])
        group, tag = FIELD_TAG[k]
        if k == "sfield":
            body = T("FIXED-NUMBER-OF-ITEMS", 1) + T("ITEM-BYTE-SIZE", 1)
        elif k == "dlfield":
            body = T("OFFSET", 1) + X("DETERMINE-NUMBER-OF-ITEMS", T("BYTE-POSITION", 0), R("DATA-OBJECT-PROP-REF", o["count_dop"]))
        elif k == "emfield":
            body = R("DYN-END-DOP-REF", o["end_dop"], T("TERMINATION-VALUE", 255))
        else:
            body = ""
        return group, X(tag, nm(o), sref, body, ID=o["id"])
    if k == "mux":
        cases = [X("CASE", names(c["sn"], c.get("m")), R("STRUCTURE-REF", c.get("struct")), T("LOWER-LIMIT", c.get("lo", 1)),
                   T("UPPER-LIMIT", c.get("hi", 1))) for c in o.get("cases", [])]
        dflt = ""
        if o.get("default"):
            dc = o["default"]
            dflt = X("DEFAULT-CASE", names(dc["sn"], dc.get("m")), R("STRUCTURE-REF", dc.get("struct")))
        return "MUXS", X("MUX", nm(o), T("BYTE-POSITION", 1), X("SWITCH-KEY", T("BYTE-POSITION", 0), R("DATA-OBJECT-PROP-REF", o["key_dop"])),
                         dflt, X("CASES", *cases) if cases else "", ID=o["id"])
    if k == "table":
        conns = ""
        if o.get("connectors"):
            conns = X("TABLE-DIAG-COMM-CONNECTORS", *[X("TABLE-DIAG-COMM-CONNECTOR", R("DIAG-COMM-REF", c["comm"]), T("SEMANTIC", c.get("semantic", "S")))
                                                       for c in o["connectors"]])
        return "TABLES", X("TABLE", nm(o), R("KEY-DOP-REF", o.get("key_dop")), *[table_row(r) for r in o.get("rows", [])], conns, ID=o["id"])
    raise ValueError(k)


def unit_spec(l: Dict[str, Any]) -> str:
    if not (l.get("units") or l.get("physdims") or l.get("unitgroups")):
        return ""
    groups = [X("UNIT-GROUP", nm(g), T("CATEGORY", "COUNTRY"), X("UNIT-REFS", *[R("UNIT-REF", u) for u in g.get("units", [])]))
              for g in l.get("unitgroups", [])]
    units = [X("UNIT", nm(u), T("DISPLAY-NAME", u["sn"]), R("PHYSICAL-DIMENSION-REF", u.get("physdim")), ID=u["id"]) for u in l.get("units", [])]
    dims = [X("PHYSICAL-DIMENSION", nm(d), T("LENGTH-EXP", 1), ID=d["id"]) for d in l.get("physdims", [])]
    return X("UNIT-SPEC", X("UNIT-GROUPS", *groups) if groups else "", X("UNITS", *units) if units else "",
             X("PHYSICAL-DIMENSIONS", *dims) if dims else "")


# ---------------------------------------------------------------------------------------------
# diag comms
# ---------------------------------------------------------------------------------------------
def comparam_refs(cs: List[Dict[str, Any]]) -> str:
    if not cs:
        return ""
    return X("COMPARAM-REFS", *[R("COMPARAM-REF", c["ref"], T("SIMPLE-VALUE", c.get("value", "1"))) for c in cs])


def diag_comm(s: Dict[str, Any]) -> str:
    k = s["k"]
    if k == "commref":
        return R("DIAG-COMM-REF", s["ref"])
    fc = X("FUNCT-CLASS-REFS", *[R("FUNCT-CLASS-REF", f) for f in s["fclasses"]]) if s.get("fclasses") else ""
    aud = ""
    if s.get("audience"):
        a = s["audience"]
        aud = X("AUDIENCE", X("ENABLED-AUDIENCE-REFS", *[R("ENABLED-AUDIENCE-REF", r) for r in a["enabled"]]) if a.get("enabled") else "",
                X("DISABLED-AUDIENCE-REFS", *[R("DISABLED-AUDIENCE-REF", r) for r in a["disabled"]]) if a.get("disabled") else "") or "<AUDIENCE/>"
    prot = X("PROTOCOL-SNREFS", *[X("PROTOCOL-SNREF", SHORT_NAME=p) for p in s["protocols"]]) if s.get("protocols") else ""
    rel = X("RELATED-DIAG-COMM-REFS", *[R("RELATED-DIAG-COMM-REF", r, T("RELATION-TYPE", "rel")) for r in s["related"]]) if s.get("related") else ""
    if k == "job":
        ins = X("INPUT-PARAMS", *[X("INPUT-PARAM", nm(p), R("DOP-BASE-REF", p["dop"])) for p in s["inputs"]]) if s.get("inputs") else ""
        outs = X("OUTPUT-PARAMS", *[X("OUTPUT-PARAM", nm(p), R("DOP-BASE-REF", p["dop"]), ID=p["id"]) for p in s["outputs"]]) if s.get("outputs") else ""
        negs = X("NEG-OUTPUT-PARAMS", *[X("NEG-OUTPUT-PARAM", nm(p), R("DOP-BASE-REF", p["dop"])) for p in s["negoutputs"]]) if s.get("negoutputs") else ""
        return X("SINGLE-ECU-JOB", nm(s), fc, aud, prot, rel,
                 X("PROG-CODES", X("PROG-CODE", T("CODE-FILE", "job.jar"), T("SYNTAX", "JAR"), T("REVISION", "1"))), ins, outs, negs, ID=s["id"])
    if k == "service":
        return X("DIAG-SERVICE", nm(s), fc, aud, prot, rel, comparam_refs(s.get("comparams", [])), R("REQUEST-REF", s["request"]),
                 X("POS-RESPONSE-REFS", *[R("POS-RESPONSE-REF", r) for r in s["pos"]]) if s.get("pos") else "",
                 X("NEG-RESPONSE-REFS", *[R("NEG-RESPONSE-REF", r) for r in s["neg"]]) if s.get("neg") else "", ID=s["id"])
    raise ValueError(k)


# ---------------------------------------------------------------------------------------------
# layers, containers, comparam documents
# ---------------------------------------------------------------------------------------------
def parent_ref(p: Dict[str, Any]) -> str:
    ni = p.get("ni", {})
    parts = []
    if ni.get("comms"):
        parts.append(X("NOT-INHERITED-DIAG-COMMS", *[X("NOT-INHERITED-DIAG-COMM", X("DIAG-COMM-SNREF", SHORT_NAME=n)) for n in ni["comms"]]))
    if ni.get("dops"):
        parts.append(X("NOT-INHERITED-DOPS", *[X("NOT-INHERITED-DOP", X("DOP-BASE-SNREF", SHORT_NAME=n)) for n in ni["dops"]]))
    if ni.get("tables"):
        parts.append(X("NOT-INHERITED-TABLES", *[X("NOT-INHERITED-TABLE", X("TABLE-SNREF", SHORT_NAME=n)) for n in ni["tables"]]))
    return R("PARENT-REF", p["ref"], *parts, xsi_type=LAYER_TAG[p["ptype"]][2])


def layer(l: Dict[str, Any]) -> str:
    typ = l["type"]
    group: Dict[str, List[str]] = {}
    for o in l.get("ddds", []):
        tag, xml = ddds_obj(o)
        group.setdefault(tag, []).append(xml)
    us = unit_spec(l)
    inner = ""
    for tag in DDDS_ORDER:
        if tag == "UNIT-SPEC":
            inner += us
        elif tag in group:
            inner += X(tag, *group[tag])
    ddds = X("DIAG-DATA-DICTIONARY-SPEC", inner) if inner else ""

    def coll(tag: str, key: str, sub: str) -> str:
        return X(tag, *[message(sub, m) for m in l.get(key, [])]) if l.get(key) else ""

    fcs = X("FUNCT-CLASSS", *[X("FUNCT-CLASS", nm(f), ID=f["id"]) for f in l["fclasses"]]) if l.get("fclasses") else ""
    auds = X("ADDITIONAL-AUDIENCES", *[X("ADDITIONAL-AUDIENCE", nm(a), ID=a["id"]) for a in l["audiences"]]) if l.get("audiences") else ""
    comms = X("DIAG-COMMS", *[diag_comm(s) for s in l["comms"]]) if l.get("comms") else ""
    imports = X("IMPORT-REFS", *[R("IMPORT-REF", i) for i in l["imports"]]) if l.get("imports") else ""
    prefs = X("PARENT-REFS", *[parent_ref(p) for p in l["parents"]]) if l.get("parents") else ""
    tail = ""
    if typ == "PROTOCOL":
        tail = R("COMPARAM-SPEC-REF", l["comparam_spec"]) + (X("PROT-STACK-SNREF", SHORT_NAME=l["prot_stack"]) if l.get("prot_stack") else "") + prefs
    elif typ != "ECU-SHARED-DATA":
        tail = prefs
    body = (names(l["sn"], l.get("m")) + fcs + ddds + comms + coll("REQUESTS", "requests", "REQUEST") +
            coll("POS-RESPONSES", "posresps", "POS-RESPONSE") + coll("NEG-RESPONSES", "negresps", "NEG-RESPONSE") +
            coll("GLOBAL-NEG-RESPONSES", "gnrs", "GLOBAL-NEG-RESPONSE") + imports + auds +
            (comparam_refs(l.get("comparams", [])) if typ != "ECU-SHARED-DATA" else "") + tail)
    return X(LAYER_TAG[typ][1], body, ID=l["id"])


def container(c: Dict[str, Any]) -> str:
    inner = names(c["sn"], c.get("m"))
    for typ in LAYER_GROUP_ORDER:
        ls = [layer(l) for l in c["layers"] if l["type"] == typ]
        if ls:
            inner += X(LAYER_TAG[typ][0], *ls)
    return HEAD + X("DIAG-LAYER-CONTAINER", inner, ID=c["id"]) + "</ODX>"


def comparam_subset(s: Dict[str, Any]) -> str:
    cps = [X("COMPARAM", nm(c), T("PHYSICAL-DEFAULT-VALUE", "0"), R("DATA-OBJECT-PROP-REF", c["dop"]), ID=c["id"], PARAM_CLASS="COM",
             CPTYPE="STANDARD", CPUSAGE="TESTER") for c in s.get("comparams", [])]
    dops = [ddds_obj(d)[1] for d in s.get("dops", [])]
    inner = nm(s) + (X("COMPARAMS", *cps) if cps else "") + (X("DATA-OBJECT-PROPS", *dops) if dops else "")
    return HEAD + X("COMPARAM-SUBSET", inner, ID=s["id"], CATEGORY="APPLICATION") + "</ODX>"


def comparam_spec(s: Dict[str, Any]) -> str:
    stacks = [X("PROT-STACK", nm(p), T("PDU-PROTOCOL-TYPE", "ISO_15765_3_on_ISO_15765_2"), T("PHYSICAL-LINK-TYPE", "ISO_11898_2_DWCAN"),
                X("COMPARAM-SUBSET-REFS", *[R("COMPARAM-SUBSET-REF", r) for r in p.get("subsets", [])]), ID=p["id"]) for p in s.get("stacks", [])]
    inner = nm(s) + (X("PROT-STACKS", *stacks) if stacks else "")
    return HEAD + X("COMPARAM-SPEC", inner, ID=s["id"]) + "</ODX>"


def world_files(w: Dict[str, Any]) -> List[tuple]:
    """-> [(file name, xml)] in the order in which the files are to be added to the database.
    Default order: comparam subsets, comparam specs, containers (as listed); w["order"] (list of SHORT-NAMEs) overrides."""
    items = []
    for s in w.get("subsets", []):
        items.append((s["sn"], s["sn"] + ".odx-cs", comparam_subset(s)))
    for s in w.get("specs", []):
        items.append((s["sn"], s["sn"] + ".odx-c", comparam_spec(s)))
    for c in w.get("containers", []):
        items.append((c["sn"], c["sn"] + ".odx-d", container(c)))
    if w.get("order"):
        pos = {n: i for i, n in enumerate(w["order"])}
        items.sort(key=lambda it: pos.get(it[0], len(pos)))
    return [(fn, xml) for _, fn, xml in items]


def write_world(w: Dict[str, Any], directory: str) -> List[str]:
    os.makedirs(directory, exist_ok=True)
    paths = []
    for fn, xml in world_files(w):
        p = os.path.join(directory, fn)
        with open(p, "w", encoding="utf-8") as f:
            f.write(xml)
        paths.append(p)
    return paths
