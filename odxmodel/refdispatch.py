"""Independent three-valued reference dispatcher for C06 (no odxtools import).

Input: one *layer spec* of the description language of odxmodel (the same dict that emit.py turns into ODX XML):
{dops:[{name,dct}], msgs:[{kind,name,params}], svcs:[{name,request,pos:[..],neg:[..]}]}.

For a byte string M and a service s the reference classifies every coding object c of s (its request, its
positive and negative responses) and every global negative response of the layer:

  MATCH    the constant prefix of c is on M, M has exactly the length of c, every coded constant equals, every
           NRC-CONST value is in its list, every MATCHING-REQUEST-PARAM byte that is a known constant of the
           request of s equals
  NOMATCH  the constant prefix of c is not on M, or M is shorter than c, or an NRC-CONST value is not listed
  MAYBE    everything else: trailing bytes after a complete c, a coded constant *behind* the prefix differs,
           a MATCHING-REQUEST-PARAM that is only partially (or not at the front) backed by request constants differs

The *constant prefix* of a request is its leading run of CODED-CONST and PHYS-CONST parameters; the constant prefix of a
response (given the service whose request has constant prefix rp) is its leading run of CODED-CONST parameters
and of MATCHING-REQUEST-PARAMs which lie completely inside rp.

Service level:   ambiguous(s) = at least two OWN coding objects of s are not NOMATCH (odxtools refuses such a
                                service by design: "cannot uniquely decode")           -> MAY
                 MUST(s)      = not ambiguous and some own object or global negative response is MATCH
                 MUSTNOT(s)   = every own object and every global negative response is NOMATCH
                 MAY(s)       = otherwise
Pair level:      a reported (s, c) is forbidden if c is NOMATCH for s (or c is neither an object of s nor a global
                 negative response); required pairs of a MUST service: its own MATCH object; if all own objects are
                 NOMATCH, every MATCH global negative response.

The envelope is deliberately small and boring: STANDARD-LENGTH A_UINT32 types (high-low byte order), whole bytes
except for CODED-CONSTs and VALUEs (1..32 bits at a bit position; the prefix is the leading run of bytes which
the leading constants cover completely),
IDENTICAL compu methods, parameters CODED-CONST, PHYS-CONST (whole bytes; a differing PHYS-CONST is NOMATCH
anywhere: the parameter refuses it itself in strict mode), VALUE, MATCHING-REQUEST-PARAM, NRC-CONST, explicit or automatic
byte positions.  Anything else raises Envelope.
"""
from __future__ import annotations

from typing import Any, Dict, List, Optional, Tuple

MATCH, MAYBE, NOMATCH = "MATCH", "MAYBE", "NOMATCH"
MUST, MAY, MUSTNOT = "MUST", "MAY", "MUST-NOT"


class Envelope(Exception):
    """construct outside what this reference understands"""


def _nbits(dct: Dict[str, Any]) -> int:
    """CODED-CONST: any bit length up to 32 (high-low byte order, placed at a bit position)"""
    if dct.get("k") != "STD" or dct.get("base") != "A_UINT32" or not 1 <= dct["bits"] <= 32 or dct.get("mask") is not None \
            or dct.get("enc") is not None or dct.get("hilo") is False:
        raise Envelope(f"diag coded type {dct}")
    return dct["bits"]


def _nbytes(dct: Dict[str, Any]) -> int:
    if dct.get("k") != "STD" or dct.get("base") != "A_UINT32" or dct["bits"] % 8 or dct.get("mask") is not None \
            or dct.get("enc") is not None or dct.get("hilo") is False:
        raise Envelope(f"diag coded type {dct}")
    return dct["bits"] // 8


class Step:
    __slots__ = ("kind", "name", "pos", "n", "arg", "hard")

    def __init__(self, kind: str, name: str, pos: int, n: int, arg: Any, hard: bool) -> None:
        self.kind, self.name, self.pos, self.n, self.arg, self.hard = kind, name, pos, n, arg, hard


class Plan:
    """A coding object laid out for one request prefix: steps with absolute byte positions."""
    __slots__ = ("steps", "length", "prefix")

    def __init__(self, steps: List[Step], length: int, prefix: bytes) -> None:
        self.steps, self.length, self.prefix = steps, length, prefix


class RefLayer:

    def __init__(self, layer: Dict[str, Any]) -> None:
        self.dops = {d["name"]: d for d in layer.get("dops", [])}
        self.msgs = {m["name"]: m for m in layer.get("msgs", [])}
        self.svcs: List[Dict[str, Any]] = list(layer.get("svcs", []))
        self.gnrs: List[str] = [m["name"] for m in layer.get("msgs", []) if m["kind"] == "GLOBAL-NEG-RESPONSE"]
        self.rp: Dict[str, bytes] = {}
        self.own: Dict[str, List[str]] = {}
        self._plans: Dict[Tuple[str, bytes], Plan] = {}
        self._tab: Any = None
        self.fast = True  # use the (self-tested) shortcuts
        for s in self.svcs:
            objs = list(s.get("pos", [])) + list(s.get("neg", []))
            if s.get("request") is not None:
                objs.append(s["request"])
            self.own[s["name"]] = objs
            self.rp[s["name"]] = self.plan(s["request"], b"").prefix if s.get("request") is not None else b""

    # -- layout -------------------------------------------------------------------------------------
    def plan(self, msg: str, rp: bytes) -> Plan:
        steps: List[Step] = []
        cursor = 0
        length = 0
        in_prefix = True
        pbytes = bytearray()  # bytes of the constant prefix built so far ...
        cover = bytearray()   # ... and which of their bits are claimed by a constant
        for p in self.msgs[msg]["params"]:
            pos = p["byte"] if p.get("byte") is not None else cursor
            t = p["t"]
            hard = False
            if p.get("bit") and t not in ("CODED-CONST", "VALUE"):
                raise Envelope("bit position")
            if t == "CODED-CONST" and p["dct"].get("k") == "MINMAX":
                # a constant byte field of variable-length type: only as the LAST parameter (then it ends the PDU and
                # is encoded without terminator); anything behind its bytes counts as trailing bytes (MAYBE)
                if p is not self.msgs[msg]["params"][-1] or p["dct"].get("base") != "A_BYTEFIELD" or p.get("bit"):
                    raise Envelope("MIN-MAX-LENGTH constant")
                t = "BYTES-CONST"
            if t in ("CODED-CONST", "PHYS-CONST", "BYTES-CONST"):
                if t == "BYTES-CONST":
                    bit, nbits, cval = 0, 8 * len(p["value"]), int.from_bytes(bytes(p["value"]), "big")
                elif t == "PHYS-CONST":  # (IDENTICAL compu method: the physical constant is the coded value)
                    bit, nbits, cval = 0, 8 * _nbytes(self._simple_dop(p["dop"])), int(p["const"])
                else:
                    bit, nbits, cval = p.get("bit") or 0, _nbits(p["dct"]), int(p["value"])
                n = (bit + nbits + 7) // 8
                vb = (cval << bit).to_bytes(n, "big")
                mb = (((1 << nbits) - 1) << bit).to_bytes(n, "big")
                arg: Any = (vb, mb, bit, nbits)
                # part of the constant prefix: in the leading run of constants and adjacent to / inside the bytes built so far
                hard = in_prefix and pos <= len(cover) and all(c == 0xFF for c in cover[:pos])
                if hard:
                    if len(cover) < pos + n:
                        cover.extend(bytes(pos + n - len(cover)))
                        pbytes.extend(bytes(pos + n - len(pbytes)))
                    for i in range(n):
                        if cover[pos + i] & mb[i]:
                            raise Envelope("overlapping constants")
                        cover[pos + i] |= mb[i]
                        pbytes[pos + i] |= vb[i]
                else:
                    in_prefix = False
            elif t == "MATCHING-REQUEST-PARAM":
                n = p["len"]
                rq = p["rq_byte"]
                known = rp[rq:rq + n]  # the part of the echoed request bytes which is constant for this service
                arg = known
                hard = in_prefix and pos == len(cover) and all(c == 0xFF for c in cover) and len(known) == n
                if hard:
                    pbytes.extend(known)
                    cover.extend(b"\xff" * n)
                else:
                    in_prefix = False
            elif t == "VALUE":
                bit, nbits = p.get("bit") or 0, _nbits(self._simple_dop(p["dop"]))
                n = (bit + nbits + 7) // 8
                arg = (bit, nbits)
                in_prefix = False
            elif t == "NRC-CONST":
                n = _nbytes(p["dct"])
                arg = [int(v) for v in p["values"]]
                in_prefix = False
            else:
                raise Envelope("parameter type " + t)
            steps.append(Step(t, p["name"], pos, n, arg, hard))
            cursor = pos + n
            length = max(length, cursor)
        # the prefix is made of whole bytes: it ends in front of the first byte that the leading constants do not cover
        # completely; a constant reaching beyond that point is an ordinary constant behind the prefix
        plen = 0
        while plen < len(cover) and cover[plen] == 0xFF:
            plen += 1
        for st in steps:
            if st.hard and st.pos + st.n > plen:
                st.hard = False
        return Plan(steps, length, bytes(pbytes[:plen]))

    def _simple_dop(self, name: str) -> Dict[str, Any]:
        d = self.dops[name]
        if d.get("kind", "dop") != "dop" or d.get("cm", {"cat": "IDENTICAL"})["cat"] != "IDENTICAL":
            raise Envelope("DOP " + name)
        return d["dct"]

    def plan_for(self, msg: str, rp: bytes) -> Plan:
        k = (msg, rp)
        pl = self._plans.get(k)
        if pl is None:
            pl = self._plans[k] = self.plan(msg, rp)
        return pl

    # -- classification of one coding object --------------------------------------------------------
    def classify(self, msg: str, M: bytes, rp: bytes) -> Tuple[str, Optional[Dict[str, Any]], str]:
        """-> (MATCH|MAYBE|NOMATCH, decoded values if not NOMATCH, reason)"""
        pl = self.plan_for(msg, rp)
        if self.fast and not M.startswith(pl.prefix):  # shortcut only; the walk below gives the same answer
            return NOMATCH, None, "prefix"
        if len(M) < pl.length:
            # (a message shorter than the prefix does not carry the prefix; longer than the prefix but shorter
            #  than the object: too short) -- decide which, for the reason only
            return NOMATCH, None, ("short" if M.startswith(pl.prefix) else "prefix")
        soft = ""
        values: Dict[str, Any] = {}
        for st in pl.steps:
            raw = M[st.pos:st.pos + st.n]
            if st.kind in ("CODED-CONST", "PHYS-CONST", "BYTES-CONST"):
                vb, mb, bit, nbits = st.arg
                if bytes(x & m for x, m in zip(raw, mb)) != vb:
                    if st.hard:
                        return NOMATCH, None, "prefix"
                    if st.kind == "PHYS-CONST":  # (checked by the parameter itself; an error in strict mode)
                        return NOMATCH, None, "physconst"
                    soft = soft or "coded constant behind the prefix differs"
                values[st.name] = bytes(raw) if st.kind == "BYTES-CONST" else (int.from_bytes(raw, "big") >> bit) & ((1 << nbits) - 1)
            elif st.kind == "MATCHING-REQUEST-PARAM":
                if raw[:len(st.arg)] != st.arg:
                    if st.hard:
                        return NOMATCH, None, "prefix"
                    soft = soft or "echoed request bytes differ from the request constants outside the prefix"
                values[st.name] = {"echo": bytes(raw)}
            elif st.kind == "VALUE":
                values[st.name] = (int.from_bytes(raw, "big") >> st.arg[0]) & ((1 << st.arg[1]) - 1)
            else:  # NRC-CONST
                v = int.from_bytes(raw, "big")
                if v not in st.arg:
                    return NOMATCH, None, "nrc"
                values[st.name] = v
        if len(M) > pl.length:
            soft = soft or "trailing bytes"
        if soft:
            return MAYBE, values, soft
        return MATCH, values, ""

    # -- dispatch ------------------------------------------------------------------------------------
    def _tables(self) -> None:
        self._tab: List[Tuple[str, List[Tuple[str, Plan, bool]], Dict[str, Any]]] = []
        dead_c = (NOMATCH, None, "prefix")
        for s in self.svcs:
            name = s["name"]
            rp = self.rp[name]
            objs = [(m, self.plan_for(m, rp), False) for m in self.own[name]] + [(m, self.plan_for(m, rp), True) for m in self.gnrs]
            dead = {"status": MUSTNOT, "own": {m: dead_c for m in self.own[name]}, "gnr": {m: dead_c for m in self.gnrs},
                    "required": [], "ambiguous": False, "dead": True}
            self._tab.append((name, objs, dead))

    def expect(self, M: bytes) -> Dict[str, Dict[str, Any]]:
        """service name -> {status, own:{obj:(cls,values,reason)}, gnr:{obj:(..)}, required:[obj..], ambiguous}"""
        if self._tab is None:
            self._tables()
        out: Dict[str, Dict[str, Any]] = {}
        for name, objs, dead in self._tab:
            if self.fast:
                # shortcut: no object of the service carries its constant prefix on M -> everything NOMATCH (prefix)
                for _, pl, _ in objs:
                    if M.startswith(pl.prefix):
                        break
                else:
                    out[name] = dead
                    continue
            rp = self.rp[name]
            own = {m: self.classify(m, M, rp) for m in self.own[name]}
            gnr = {m: self.classify(m, M, rp) for m in self.gnrs}
            live = [m for m, c in own.items() if c[0] != NOMATCH]
            ambiguous = len(live) >= 2
            any_match = any(c[0] == MATCH for c in own.values()) or any(c[0] == MATCH for c in gnr.values())
            if not live and all(c[0] == NOMATCH for c in gnr.values()):
                status = MUSTNOT
            elif any_match and not ambiguous:
                status = MUST
            else:
                status = MAY
            required: List[str] = []
            if status == MUST:
                if live:
                    if own[live[0]][0] == MATCH:
                        required = [live[0]]
                else:
                    required = [m for m, c in gnr.items() if c[0] == MATCH]
            out[name] = {"status": status, "own": own, "gnr": gnr, "required": required, "ambiguous": ambiguous, "dead": False}
        return out

    def expect_slow(self, M: bytes) -> Dict[str, Dict[str, Any]]:
        """the same without any shortcut (self-test of the shortcuts)"""
        f = self.fast
        self.fast = False
        try:
            return self.expect(M)
        finally:
            self.fast = f

    # -- service groups -----------------------------------------------------------------------------
    def sid(self, svc: str) -> Optional[int]:
        rp = self.rp[svc]
        return rp[0] if rp else None

    def group(self, sid: int) -> List[str]:
        return [s["name"] for s in self.svcs if self.sid(s["name"]) == sid]

    # -- encoding (own messages) --------------------------------------------------------------------
    def encode(self, msg: str, values: Dict[str, int], request: Optional[bytes] = None) -> bytes:
        pl = self.plan_for(msg, b"")
        out = bytearray(pl.length)
        for st in pl.steps:
            if st.kind in ("CODED-CONST", "PHYS-CONST", "BYTES-CONST"):
                for i, x in enumerate(st.arg[0]):
                    out[st.pos + i] |= x
                continue
            elif st.kind == "MATCHING-REQUEST-PARAM":
                p = next(q for q in self.msgs[msg]["params"] if q["name"] == st.name)
                if request is None or len(request) < p["rq_byte"] + st.n:
                    raise Envelope("request too short for the matching-request parameter")
                bs = bytes(request[p["rq_byte"]:p["rq_byte"] + st.n])
            elif st.kind == "VALUE":
                bit, nbits = st.arg
                if not 0 <= int(values[st.name]) < (1 << nbits):
                    raise Envelope("value out of range")
                mb = (((1 << nbits) - 1) << bit).to_bytes(st.n, "big")
                vb = (int(values[st.name]) << bit).to_bytes(st.n, "big")
                for i in range(st.n):
                    out[st.pos + i] = (out[st.pos + i] & ~mb[i] & 0xFF) | vb[i]
                continue
            else:
                continue  # NRC-CONST claims nothing (an overlapping VALUE supplies the byte)
            out[st.pos:st.pos + st.n] = bs
        return bytes(out)

    def constants(self) -> List[int]:
        """every byte of a constant of the layer (coded constants, NRC lists), sorted"""
        s = set()
        for svc in self.svcs:
            for m in self.own[svc["name"]]:
                for st in self.plan_for(m, b"").steps:
                    if st.kind in ("CODED-CONST", "PHYS-CONST", "BYTES-CONST"):
                        s.update(st.arg[0])
                    elif st.kind == "NRC-CONST":
                        for v in st.arg:
                            s.update(v.to_bytes(st.n, "big"))
                s.update(self.plan_for(m, b"").prefix)  # (constants sharing a byte: the assembled byte)
        for m in self.gnrs:
            for st in self.plan_for(m, b"").steps:
                if st.kind in ("CODED-CONST", "PHYS-CONST", "BYTES-CONST"):
                    s.update(st.arg[0])
                elif st.kind == "NRC-CONST":
                    for v in st.arg:
                        s.update(v.to_bytes(st.n, "big"))
        return sorted(s)
