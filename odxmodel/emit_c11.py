"""The generated "kitchen-sink" database for C11: every construct the parser reads that the shipped
somersault example lacks, in 4 ODX documents (2 x .odx-d, 1 x .odx-cs, 1 x .odx-c) + 3 auxiliary files.

The database is a *core* (always present) plus named **features**; `members(off)` builds the archive
members with the features in `off` left out.  C11 needs that because a single construct that makes the
writer (or the re-load) raise would otherwise hide every other construct: the check first finds the
features that block the round trip in isolation (each is a finding), and perturbs the database built from
all the others.

Built from `spec` dicts rendered by odxmodel.emit; constructs the spec language has no word for (admin /
company data, SDGs, state charts, sub-components, libraries, diag variables, dyn-defined spec, variant
patterns, audiences, job parameters, ...) are raw XML built with emit.X/T and placed through the `*_xml`
hooks of emit.layer or injected after rendering.  No odxtools import.
"""
from __future__ import annotations

import re
from typing import Any, Dict, Iterable, List, Optional, Set, Tuple

from odxmodel.emit import T, X, container, comparam_spec, comparam_subset, names

B = "ksbase"  # the layer that carries most constructs

# feature -> the (class.field) of the parser model that the feature exercises (used in finding keys)
FEATURES: Dict[str, str] = {}
# feature -> features it needs
DEPS: Dict[str, Tuple[str, ...]] = {
    "row_refs": ("state_charts", "additional_audiences", "table"),
    "svc_state_refs": ("state_charts",),
    "svc_audience": ("additional_audiences",),
    "job_audience": ("additional_audiences", "job"),
    "job_params": ("job",), "job_attrs": ("job",), "job_sdgs": ("job",), "job_progcode_extras": ("job", "libraries"),
    "subc_param_conn": ("sub_components",), "subc_row_conn": ("sub_components", "table"),
    "subc_env_conn": ("sub_components", "env_data"), "subc_dtc_conn": ("sub_components", "dtc_dop"),
    "subc_patterns": ("sub_components",), "external_access_method": ("state_charts",),
    "dtc_linked": ("dtc_dop",), "dtc_ref": ("dtc_dop",), "dtc_attrs": ("dtc_dop",), "dtc_sdgs": ("dtc_dop",), "dtc_dop_attrs": ("dtc_dop",),
    "env_data": ("dtc_dop",), "emfield_env": ("env_data", "emfield"), "envdata_attrs": ("env_data",),
    "mux_snref_case": ("mux",), "mux_snref_default": ("mux",), "mux_attrs": ("mux",), "mux_case_nostruct": ("mux",),
    "table_labels": ("table",), "table_semantic": ("table",), "row_struct_snref": ("table",), "row_dop_snref": ("table",),
    "table_row_ref": ("table",), "table_connectors": ("table",), "table_sdgs": ("table",), "table_admin": ("table",), "table_oid": ("table",),
    "row_attrs": ("table",), "row_key_text": ("table",), "row_sdgs": ("table",), "row_admin": ("table",), "row_names": ("table",),
    "p_tablekey": ("table",), "p_tablekey_row": ("table",), "p_tablekey_snref": ("table",), "p_tablestruct_snref": ("table", "p_tablekey_snref"),
    "p_tableentry": ("table",), "dyn_spec_base": ("table",), "dyn_spec_ecu": ("table",), "dv_table_snref": ("dv_base", "table"),
    "dv_comm_ref": ("dv_base",), "dv_admin": ("dv_base",), "dv_sdgs": ("dv_base",), "dv_attrs": ("dv_base",), "dv_sw_variables": ("dv_base",),
    "dct_plen": ("p_lengthkey",), "eopfield_snref": ("eopfield",), "field_attrs": ("sfield", "dlfield", "eopfield", "emfield"),
    "bvp_snpathref": ("bv_pattern", "mux"), "evp_snpathref": ("ev_patterns", "mux"),
    "cross_doc_dop": ("import_ref",), "dop_unit_ref": ("unit_spec", "compu_linear"), "dop_internal_constr": ("compu_linear",),
    "dop_phys_constr": ("compu_linear",), "unit_groups": ("unit_spec",), "unitspec_sdgs_layer": ("unit_spec",),
    "unitspec_sdgs_subset": ("cs_unit_spec",), "compu_default_value": ("compu_texttable",),
}


class Sel:
    """Feature selection. `on(name, label)` registers the feature and tells whether it is enabled."""

    def __init__(self, off: Iterable[str] = ()) -> None:
        self.off: Set[str] = set(off)

    def on(self, name: str, label: str = "") -> bool:
        if label:
            FEATURES.setdefault(name, label)
        if name in self.off:
            return False
        return all(self.on(d) for d in DEPS.get(name, ()))

    def opt(self, name: str, label: str, xml: str) -> str:
        return xml if self.on(name, label) else ""


def closure(name: str) -> Set[str]:
    out = {name}
    for d in DEPS.get(name, ()):
        out |= closure(d)
    return out


def all_features() -> Dict[str, str]:
    """{feature: label} in definition order (builds the full database once to collect them)."""
    if not FEATURES:
        members(())
    return dict(FEATURES)


# ---------------------------------------------------------------------------------------------
# raw XML helpers
# ---------------------------------------------------------------------------------------------
def sdgs(tag: str) -> str:
    """SDGS with a caption-by-value group, a nested group and SDs with SI/TI, and a caption-by-reference group."""
    return X("SDGS",
             X("SDG", X("SDG-CAPTION", names(tag.replace(".", "_") + "_cap", "caption of " + tag, "caption desc"), ID=tag + ".cap"),
               X("SD", "plain value", SI="si1", TI="ti1"), X("SDG", X("SD", "nested"), SI="inner"), X("SD", "v2"), SI="outer"),
             X("SDG", X("SDG-CAPTION-REF", ID_REF=tag + ".cap"), X("SD", "by ref")))


def admin_data(cd: str, tm: str, s: Optional["Sel"] = None) -> str:
    return X("ADMIN-DATA", T("LANGUAGE", "en-UK"),
             X("COMPANY-DOC-INFOS", X("COMPANY-DOC-INFO", X("COMPANY-DATA-REF", ID_REF=cd), X("TEAM-MEMBER-REF", ID_REF=tm),
                                      T("DOC-LABEL", "label"), s.opt("cdi_sdgs", "CompanyDocInfo.sdgs", sdgs(cd + ".cdi")) if s else "")),
             X("DOC-REVISIONS", X("DOC-REVISION", X("TEAM-MEMBER-REF", ID_REF=tm), T("REVISION-LABEL", "1.0"), T("STATE", "draft"),
                                  T("DATE", "1926-07-18T11:11:11+01:00"), T("TOOL", "odxtools"),
                                  X("COMPANY-REVISION-INFOS", X("COMPANY-REVISION-INFO", X("COMPANY-DATA-REF", ID_REF=cd),
                                                                T("REVISION-LABEL", "r1"), T("STATE", "released"))),
                                  X("MODIFICATIONS", X("MODIFICATION", T("CHANGE", "add somersaults"), T("REASON", "fun")),
                                    X("MODIFICATION", T("CHANGE", "second change"))))))


def company_datas(prefix: str, s: Optional["Sel"] = None) -> str:
    cd = prefix + ".CD"
    csi = ""
    if s is not None and s.on("company_specific_info", "CompanyData.company_specific_info"):
        csi = X("COMPANY-SPECIFIC-INFO",
                X("RELATED-DOCS", X("RELATED-DOC", X("XDOC", names("xdoc1", "X doc"), T("NUMBER", "1"), T("STATE", "ok"),
                                                    T("DATE", "2020-01-01"), T("PUBLISHER", "pub"), T("URL", "http://x.example/a"),
                                                    T("POSITION", "p. 7")), X("DESC", T("p", "related doc desc")))),
                s.opt("csi_sdgs", "CompanySpecificInfo.sdgs", sdgs(cd + ".csi")))
    return X("COMPANY-DATAS",
             X("COMPANY-DATA", names("acme", "ACME Corp", "a company"), X("ROLES", T("ROLE", "maker"), T("ROLE", "tester")),
               X("TEAM-MEMBERS", X("TEAM-MEMBER", names("doggy", "Doggy"), X("ROLES", T("ROLE", "gymnast")), T("DEPARTMENT", "sport"),
                                   T("ADDRESS", "Some Street 1"), T("ZIP", "12345"), T("CITY", "Town"), T("PHONE", "+0 1234"),
                                   T("FAX", "+0 1235"), T("EMAIL", "doggy@acme.example"), ID=cd + ".doggy", OID="oid.doggy")),
               csi, ID=cd, OID="oid.acme"))


def desc(text: str, ti: Optional[str] = "en", ext: bool = True) -> str:
    return X("DESC", T("p", text), X("EXTERNAL-DOCS", X("EXTERNAL-DOC", "ext doc text", HREF="http://doc.example/1"),
                                      X("EXTERNAL-DOC", HREF="http://doc.example/2")) if ext else "", TI=ti)


def unit_spec(prefix: str, s: "Sel", where: str) -> str:
    return X("UNIT-SPEC",
             s.opt("unit_groups", "UnitSpec.unit_groups",
                   X("UNIT-GROUPS", X("UNIT-GROUP", names("metric", "Metric"), T("CATEGORY", "COUNTRY"),
                                      X("UNIT-REFS", X("UNIT-REF", ID_REF=prefix + ".unit.m"), X("UNIT-REF", ID_REF=prefix + ".unit.km")),
                                      OID="oid.ug"))),
             X("UNITS", X("UNIT", names("m", "metre"), T("DISPLAY-NAME", "m"), T("FACTOR-SI-TO-UNIT", 1), T("OFFSET-SI-TO-UNIT", 0),
                          X("PHYSICAL-DIMENSION-REF", ID_REF=prefix + ".pd.len"), ID=prefix + ".unit.m", OID="oid.m"),
               X("UNIT", names("km"), T("DISPLAY-NAME", "km"), T("FACTOR-SI-TO-UNIT", 0.001), ID=prefix + ".unit.km")),
             X("PHYSICAL-DIMENSIONS", X("PHYSICAL-DIMENSION", names("len", "length"), T("LENGTH-EXP", 1), T("MASS-EXP", 2), T("TIME-EXP", -1),
                                        T("CURRENT-EXP", 3), T("TEMPERATURE-EXP", 4), T("MOLAR-AMOUNT-EXP", 5), T("LUMINOUS-INTENSITY-EXP", 6),
                                        ID=prefix + ".pd.len", OID="oid.len")),
             s.opt("unitspec_sdgs_" + where, "UnitSpec.sdgs", sdgs(prefix + ".us")))


def audience(layer: str) -> str:
    return X("AUDIENCE", X("ENABLED-AUDIENCE-REFS", X("ENABLED-AUDIENCE-REF", ID_REF=layer + ".AA.attentive")),
             X("DISABLED-AUDIENCE-REFS", X("DISABLED-AUDIENCE-REF", ID_REF=layer + ".AA.sleepy")),
             IS_SUPPLIER="true", IS_DEVELOPMENT="false", IS_MANUFACTURING="true", IS_AFTERSALES="false", IS_AFTERMARKET="true")


def state_charts(layer: str, s: "Sel") -> str:
    p = layer + ".SC"
    return X("STATE-CHARTS",
             X("STATE-CHART", names("mood", "Mood", "state chart desc"), T("SEMANTIC", "SESSION"),
               X("STATE-TRANSITIONS",
                 X("STATE-TRANSITION", names("cheer", "cheer up"), X("SOURCE-SNREF", SHORT_NAME="grumpy"), X("TARGET-SNREF", SHORT_NAME="happy"),
                   s.opt("external_access_method", "StateTransition.external_access_method",
                         X("EXTERNAL-ACCESS-METHOD", names("eam", "external method"), T("METHOD", "do it"), ID=p + ".cheer.eam", OID="oid.eam")),
                   ID=p + ".cheer", OID="oid.cheer"),
                 X("STATE-TRANSITION", names("annoy"), X("SOURCE-SNREF", SHORT_NAME="happy"), X("TARGET-SNREF", SHORT_NAME="grumpy"), ID=p + ".annoy")),
               X("START-STATE-SNREF", SHORT_NAME="grumpy"),
               X("STATES", X("STATE", names("grumpy", "Grumpy"), ID=p + ".grumpy", OID="oid.grumpy"), X("STATE", names("happy"), ID=p + ".happy")),
               ID=p + ".mood", OID="oid.mood"))


def additional_audiences(layer: str) -> str:
    return X("ADDITIONAL-AUDIENCES", X("ADDITIONAL-AUDIENCE", names("attentive", "Attentive", "aa desc"), ID=layer + ".AA.attentive", OID="oid.aa"),
             X("ADDITIONAL-AUDIENCE", names("sleepy"), ID=layer + ".AA.sleepy"))


def libraries(layer: str) -> str:
    return X("LIBRARYS", X("LIBRARY", names("lib1", "Library one", "lib desc"), T("CODE-FILE", "lib1.jar"), T("ENCRYPTION", "rot13"),
                           T("SYNTAX", "JAR"), T("REVISION", "1.2.3"), T("ENTRYPOINT", "main"), ID=layer + ".LIB.lib1", OID="oid.lib1"))


def sub_components(layer: str, s: "Sel") -> str:
    return X("SUB-COMPONENTS",
             X("SUB-COMPONENT", names("subc", "Sub component", "subc desc"),
               s.opt("subc_patterns", "SubComponent.<SUB-COMPONENT-PATTERNS>",
                     X("SUB-COMPONENT-PATTERNS", X("SUB-COMPONENT-PATTERN", X("MATCHING-PARAMETERS", X(
                         "MATCHING-PARAMETER", T("EXPECTED-VALUE", "7"), X("DIAG-COMM-SNREF", SHORT_NAME="svc_all"), X("OUT-PARAM-IF-SNREF", SHORT_NAME="echo")))))),
               s.opt("subc_param_conn", "SubComponent.sub_component_param_connectors",
                     X("SUB-COMPONENT-PARAM-CONNECTORS", X("SUB-COMPONENT-PARAM-CONNECTOR", names("spc", "param connector"),
                                                           X("DIAG-COMM-SNREF", SHORT_NAME="svc_all"),
                                                           X("OUT-PARAM-IF-REFS", X("OUT-PARAM-IF-SNREF", SHORT_NAME="echo")),
                                                           X("IN-PARAM-IF-REFS", X("IN-PARAM-IF-SNREF", SHORT_NAME="v_u8")),
                                                           ID=layer + ".SUBC.spc", OID="oid.spc"))),
               s.opt("subc_row_conn", "SubComponent.table_row_connectors",
                     X("TABLE-ROW-CONNECTORS", X("TABLE-ROW-CONNECTOR", names("trc", "row connector"), X("TABLE-REF", ID_REF=layer + ".tab"),
                                                 X("TABLE-ROW-SNREF", SHORT_NAME="r1")))),
               s.opt("subc_env_conn", "SubComponent.env_data_connectors",
                     X("ENV-DATA-CONNECTORS", X("ENV-DATA-CONNECTOR", names("edc", "env connector"), X("ENV-DATA-DESC-REF", ID_REF=layer + ".envdesc"),
                                                X("ENV-DATA-SNREF", SHORT_NAME="env_all")))),
               s.opt("subc_dtc_conn", "SubComponent.dtc_connectors",
                     X("DTC-CONNECTORS", X("DTC-CONNECTOR", names("dtcc", "dtc connector"), X("DTC-DOP-REF", ID_REF=layer + ".dtcs"),
                                           X("DTC-SNREF", SHORT_NAME="d1")))),
               ID=layer + ".SUBC.subc", OID="oid.subc", SEMANTIC="FUNCTION"))


def diag_variables(layer: str, s: "Sel", rich: bool, svc: str) -> str:
    """rich: the variable of the base variant carries every optional part (each its own feature)."""
    o = (lambda f, lab, xml: s.opt(f, lab, xml)) if rich else (lambda f, lab, xml: "")
    attrs: Dict[str, Any] = dict(ID=layer + ".DV.dv1")
    if rich and s.on("dv_attrs", "DiagVariable.is_read_before_write_raw"):
        attrs.update(OID="oid.dv1", IS_READ_BEFORE_WRITE="true")
    return X("DIAG-VARIABLES",
             X("DIAG-VARIABLE", names("dv1", "Diag variable", "dv desc"),
               o("dv_admin", "DiagVariable.admin_data", admin_data("KS.CD", "KS.CD.doggy")),
               (X("VARIABLE-GROUP-REF", ID_REF=layer + ".VG.vg1") if (rich and s.on("vg_base", "BaseVariantRaw.variable_groups")) else ""),
               o("dv_sw_variables", "DiagVariable.sw_variables",
                 X("SW-VARIABLES", X("SW-VARIABLE", names("swv", "software variable", "swv desc"), T("ORIGIN", "somewhere"), OID="oid.swv"))),
               X("COMM-RELATIONS",
                 X("COMM-RELATION", X("DESC", T("p", "relation desc")), T("RELATION-TYPE", "READ"),
                   X("DIAG-COMM-REF", ID_REF=layer + "." + svc) if (rich and s.on("dv_comm_ref", "CommRelation.diag_comm_ref")) else X("DIAG-COMM-SNREF", SHORT_NAME=svc),
                   VALUE_TYPE="CURRENT"),
                 X("COMM-RELATION", T("RELATION-TYPE", "WRITE"), X("DIAG-COMM-SNREF", SHORT_NAME=svc))),
               o("dv_table_snref", "DiagVariable.table_snref", X("SNREF-TO-TABLEROW", X("TABLE-SNREF", SHORT_NAME="tab"), X("TABLE-ROW-SNREF", SHORT_NAME="r1"))),
               o("dv_sdgs", "DiagVariable.sdgs", sdgs(layer + ".dv1")), **attrs),
             X("DIAG-VARIABLE", names("dv2"), ID=layer + ".DV.dv2"))


def variable_groups(layer: str) -> str:
    """Loadable since the repair of VariableGroup.from_et in /repo (it built the keyword arguments with
    NamedElement.from_et although the class is an IdentifiableElement and raised TypeError for every element)."""
    return X("VARIABLE-GROUPS", X("VARIABLE-GROUP", names("vg1", "Variable group", "vg desc"), ID=layer + ".VG.vg1", OID="oid.vg1"))


def dyn_defined_spec(layer: str, sn_table: str) -> str:
    """First mode info: the SNREF forms, second: the ODXLINK forms (loadable since /repo a4db7b5; before that
    DynIdDefModeInfo.from_et raised UnboundLocalError unless all three *-SNREF elements were present)."""
    return X("DYN-DEFINED-SPEC", X("DYN-ID-DEF-MODE-INFOS",
                                   X("DYN-ID-DEF-MODE-INFO", T("DEF-MODE", "DYN-DEF-BY-ID"),
                                     X("CLEAR-DYN-DEF-MESSAGE-SNREF", SHORT_NAME="svc_dyn_clear"),
                                     X("READ-DYN-DEF-MESSAGE-SNREF", SHORT_NAME="svc_dyn_read"),
                                     X("DYN-DEF-MESSAGE-SNREF", SHORT_NAME="svc_dyn_def"),
                                     X("SUPPORTED-DYN-IDS", T("SUPPORTED-DYN-ID", "F200"), T("SUPPORTED-DYN-ID", "F201")),
                                     X("SELECTION-TABLE-REFS", X("SELECTION-TABLE-REF", ID_REF=layer + ".tab"),
                                       X("SELECTION-TABLE-SNREF", SHORT_NAME=sn_table))),
                                   X("DYN-ID-DEF-MODE-INFO", T("DEF-MODE", "OTHER"),
                                     X("CLEAR-DYN-DEF-MESSAGE-REF", ID_REF=layer + ".svc_dyn_clear"),
                                     X("READ-DYN-DEF-MESSAGE-REF", ID_REF=layer + ".svc_dyn_read"),
                                     X("DYN-DEF-MESSAGE-REF", ID_REF=layer + ".svc_dyn_def"),
                                     X("SUPPORTED-DYN-IDS", T("SUPPORTED-DYN-ID", "F300")))))


def matching_parameter(tag: str, value: str, path: bool, base: bool) -> str:
    return X(tag, T("EXPECTED-VALUE", value), X("DIAG-COMM-SNREF", SHORT_NAME="svc_all"),
             X("OUT-PARAM-IF-SNPATHREF", SHORT_NAME_PATH="mx.c1.a") if path else X("OUT-PARAM-IF-SNREF", SHORT_NAME="echo"),
             T("USE-PHYSICAL-ADDRESSING", "false") if base else "")


def base_variant_pattern(s: "Sel") -> str:
    return X("BASE-VARIANT-PATTERN", X("MATCHING-BASE-VARIANT-PARAMETERS",
                                       matching_parameter("MATCHING-BASE-VARIANT-PARAMETER", "7", False, True),
                                       s.opt("bvp_snpathref", "MatchingBaseVariantParameter.out_param_if_snpathref",
                                             matching_parameter("MATCHING-BASE-VARIANT-PARAMETER", "8", True, False))))


def ecu_variant_patterns(s: "Sel") -> str:
    return X("ECU-VARIANT-PATTERNS",
             X("ECU-VARIANT-PATTERN", X("MATCHING-PARAMETERS", matching_parameter("MATCHING-PARAMETER", "1", False, False),
                                        s.opt("evp_snpathref", "MatchingParameter.out_param_if_snpathref",
                                              matching_parameter("MATCHING-PARAMETER", "2", True, False)))),
             X("ECU-VARIANT-PATTERN", X("MATCHING-PARAMETERS", matching_parameter("MATCHING-PARAMETER", "3", False, False))))


def service_extras(layer: str, s: "Sel") -> str:
    """Sub-elements of DIAG-SERVICE the spec language has no word for (placed via the audience_xml hook)."""
    return (s.opt("svc_admin", "DiagService.admin_data", admin_data("KS.CD", "KS.CD.doggy")) +
            s.opt("svc_sdgs", "DiagService.sdgs", sdgs(layer + ".svc_all")) +
            s.opt("svc_audience", "DiagService.audience", audience(layer)) +
            s.opt("svc_protocol_snrefs", "DiagService.protocol_snrefs", X("PROTOCOL-SNREFS", X("PROTOCOL-SNREF", SHORT_NAME="ksproto"))) +
            s.opt("svc_related", "DiagService.related_diag_comm_refs",
                  X("RELATED-DIAG-COMM-REFS", X("RELATED-DIAG-COMM-REF", T("RELATION-TYPE", "follow-up"), ID_REF=layer + ".svc_min"))) +
            s.opt("svc_state_refs", "DiagService.pre_condition_state_refs",
                  X("PRE-CONDITION-STATE-REFS", X("PRE-CONDITION-STATE-REF", ID_REF=layer + ".SC.grumpy")) +
                  X("STATE-TRANSITION-REFS", X("STATE-TRANSITION-REF", ID_REF=layer + ".SC.cheer"))) +
            s.opt("svc_comparam_refs", "DiagService.comparam_refs",
                  X("COMPARAM-REFS", X("COMPARAM-REF", T("SIMPLE-VALUE", "17"), X("DESC", T("p", "svc comparam")), X("PROTOCOL-SNREF", SHORT_NAME="ksproto"),
                                       ID_REF="KSCS.cp_simple", DOCREF="KSCS", DOCTYPE="COMPARAM-SUBSET"))) +
            s.opt("svc_pos_suppress", "DiagService.pos_response_suppressible",
                  X("POS-RESPONSE-SUPPRESSABLE", T("BITMASK", "128"), X("CODED-CONST-SNREF", SHORT_NAME="sid"))))


def job_params(layer: str) -> str:
    return (X("INPUT-PARAMS", X("INPUT-PARAM", names("inp", "Input", "in desc"), T("PHYSICAL-DEFAULT-VALUE", "3"),
                                X("DOP-BASE-REF", ID_REF=layer + ".u8"), OID="oid.inp", SEMANTIC="DATA")) +
            X("OUTPUT-PARAMS", X("OUTPUT-PARAM", names("outp", "Output", "out desc"), X("DOP-BASE-REF", ID_REF=layer + ".u8"),
                                 ID=layer + ".job.outp", OID="oid.outp", SEMANTIC="DATA")) +
            X("NEG-OUTPUT-PARAMS", X("NEG-OUTPUT-PARAM", names("negp", "Neg output", "neg desc"), X("DOP-BASE-REF", ID_REF=layer + ".u8"))))


# ---------------------------------------------------------------------------------------------
# the codec constructs (spec language of emit.py); dicts may carry "feat": (name, label)
# ---------------------------------------------------------------------------------------------
def std(bits: int, base: str = "A_UINT32", **kw: Any) -> Dict[str, Any]:
    return dict(k="STD", base=base, bits=bits, **kw)


def lim(v: Any, t: Optional[str] = None) -> Dict[str, Any]:
    return {"v": v, "type": t}


def prune(x: Any, s: "Sel") -> Any:
    """Drop every dict whose "feat" is off (recursively through lists/dicts); strip the marker."""
    if isinstance(x, list):
        out = []
        for e in x:
            if isinstance(e, dict) and "feat" in e:
                f = e["feat"]
                if not s.on(f[0], f[1]):
                    continue
            out.append(prune(e, s))
        return out
    if isinstance(x, dict):
        return {k: prune(v, s) for k, v in x.items() if k != "feat"}
    return x


def dops(s: "Sel") -> List[Dict[str, Any]]:
    lin: Dict[str, Any] = dict(name="lin", dct=std(8), phys={"base": "A_FLOAT64", "precision": 1},
                               cm=dict(cat="LINEAR", i2p=[dict(label="lbl", lo=lim(0, "CLOSED"), hi=lim(200, "OPEN"), num=[1, 0.5], den=[2])]),
                               feat=("compu_linear", "LinearCompuMethod.compu_internal_to_phys"))
    if s.on("dop_unit_ref", "DataObjectProperty.unit_ref"):
        lin["unit"] = "unit.m"
    if s.on("dop_internal_constr", "DataObjectProperty.internal_constr"):
        lin["internal_constr"] = dict(lo=lim(0, "CLOSED"), hi=lim(250, "CLOSED"),
                                      scales=[dict(label="na", lo=lim(240, "CLOSED"), hi=lim(250, "CLOSED"), validity="NOT-AVAILABLE"),
                                              dict(lo=lim(230), hi=lim(239), validity="NOT-DEFINED")])
    if s.on("dop_phys_constr", "DataObjectProperty.physical_constr"):
        lin["phys_constr"] = dict(lo=lim(0.5, "OPEN"), hi=lim(63, "CLOSED"), scales=[dict(label="pna", lo=lim(60, "OPEN"), hi=lim(63), validity="NOT-VALID")])
    tab_rows = [dict(name="r1", key=1, struct="st_item"), dict(name="r2", key=2, dop="u16le"),
                dict(name="r3", key=3, struct="st_other", snref=True, feat=("row_struct_snref", "TableRow.structure_snref")),
                dict(name="r4", key=4, dop="u8", snref=True, feat=("row_dop_snref", "TableRow.dop_snref")),
                dict(name="r5", key="05", dop="u8", feat=("row_key_text", "TableRow.key_raw"))]
    tab: Dict[str, Any] = dict(kind="table", name="tab", key_dop="u8", long_name="Table", desc="a table", rows=tab_rows, feat=("table", "DiagDataDictionarySpec.tables"))
    if s.on("table_labels", "Table.key_label"):
        tab.update(key_label="the key", struct_label="the struct")
    if s.on("table_semantic", "Table.semantic"):
        tab.update(semantic="TABSEM")
    return [
        dict(name="u8", dct=std(8), long_name="unsigned byte", desc="plain byte"),
        dict(name="u16le", dct=std(16, hilo=False), phys={"base": "A_UINT32", "radix": "HEX"}),
        dict(name="u4m", dct=std(8, mask=0x0F), feat=("dct_bit_mask", "StandardLengthType.bit_mask")),
        dict(name="u4c", dct=std(8, mask=0x3C, condensed=True), feat=("dct_condensed", "StandardLengthType.is_condensed_raw")),
        dict(name="i8", dct=std(8, base="A_INT32", enc="2C", hilo=True)),
        dict(name="f32", dct=std(32, base="A_FLOAT32"), phys={"base": "A_FLOAT32", "precision": 2}),
        lin,
        dict(name="sclin", dct=std(8), phys="A_FLOAT64", feat=("compu_scale_linear", "ScaleLinearCompuMethod.compu_internal_to_phys"),
             cm=dict(cat="SCALE-LINEAR", i2p=[dict(lo=lim(0, "CLOSED"), hi=lim(10, "OPEN"), num=[0, 1], den=[1]),
                                              dict(lo=lim(10, "CLOSED"), hi=lim(None, "INFINITE"), num=[5, 0], den=[1], inv=12)])),
        dict(name="tabintp", dct=std(8), phys="A_FLOAT64", feat=("compu_tab_intp", "TabIntpCompuMethod.compu_internal_to_phys"),
             cm=dict(cat="TAB-INTP", i2p=[dict(lo=lim(0), const=1.5), dict(lo=lim(10), const=3.5), dict(lo=lim(20), const=9)])),
        dict(name="ratfunc", dct=std(8), phys="A_FLOAT64", feat=("compu_rat_func", "RatFuncCompuMethod.compu_phys_to_internal"),
             cm=dict(cat="RAT-FUNC", i2p=[dict(lo=lim(1), hi=lim(100), num=[1, 2], den=[3, 1])],
                     p2i=[dict(lo=lim(0.2), hi=lim(2), num=[1, -3], den=[-2, 1])])),
        dict(name="scratfunc", dct=std(8), phys="A_FLOAT64", feat=("compu_scale_rat_func", "ScaleRatFuncCompuMethod.compu_phys_to_internal"),
             cm=dict(cat="SCALE-RAT-FUNC", i2p=[dict(lo=lim(0), hi=lim(9), num=[0, 1], den=[1]), dict(lo=lim(10), hi=lim(99), num=[1, 1], den=[2])],
                     p2i=[dict(lo=lim(0), hi=lim(9), num=[0, 1], den=[1]), dict(lo=lim(5.5), hi=lim(50), num=[-1, 2], den=[1])])),
        dict(name="texttab", dct=std(8), phys="A_UNICODE2STRING", feat=("compu_texttable", "TexttableCompuMethod.compu_internal_to_phys"),
             cm=dict(cat="TEXTTABLE", i2p=[dict(label="off", lo=lim(0), hi=lim(0), const="off"), dict(lo=lim(1), hi=lim(5), const="on", inv=2),
                                           dict(lo=lim(6, "OPEN"), hi=lim(9, "CLOSED"), const="a<b&c")],
                     **(dict(default_phys="undefined", default_inv=255) if s.on("compu_default_value", "CompuInternalToPhys.compu_default_value") else {}))),
        dict(name="compucode", dct=std(8), phys="A_UINT32", cm=dict(cat="COMPUCODE", i2p=[], progcode=True),
             feat=("compu_code", "CompuCodeCompuMethod.compu_internal_to_phys")),
        dict(name="str_mm", dct=dict(k="MINMAX", base="A_ASCIISTRING", enc="ISO-8859-1", min=1, max=10, term="ZERO"), phys="A_UNICODE2STRING",
             feat=("dct_minmax", "MinMaxLengthType.min_length")),
        dict(name="utf8_eop", dct=dict(k="MINMAX", base="A_UTF8STRING", min=0, term="END-OF-PDU"), phys="A_UNICODE2STRING",
             feat=("dct_minmax", "MinMaxLengthType.min_length")),
        dict(name="bytes_hexff", dct=dict(k="MINMAX", base="A_BYTEFIELD", min=1, max=4, term="HEX-FF"), phys="A_BYTEFIELD",
             feat=("dct_minmax", "MinMaxLengthType.min_length")),
        dict(name="str_opt", dct=dict(k="MINMAX", base="A_ASCIISTRING", min=0, max=5, term="ZERO"), phys="A_UNICODE2STRING",
             feat=("p_empty_default", "ValueParameter.physical_default_value_raw<empty string>")),
        dict(name="bytes_lead", dct=dict(k="LEAD", base="A_BYTEFIELD", bits=8), phys="A_BYTEFIELD", feat=("dct_lead", "LeadingLengthInfoType.bit_length")),
        dict(name="bytes_plen", dct=dict(k="PLEN", base="A_BYTEFIELD", key_id=B + ".rq_all.lk"), phys="A_BYTEFIELD",
             feat=("dct_plen", "ParamLengthInfoType.length_key_ref")),
        dict(kind="dtcdop", name="dtcs", dct=std(24), dtcs=[dict(name="d1", code=0x0101, level=2, text="first <dtc>"), dict(name="d2", code=0x0102)],
             feat=("dtc_dop", "DiagDataDictionarySpec.dtc_dops")),
        dict(kind="dtcdop", name="dtcs2", dct=std(24), dtcs=[dict(name="e1", code=0x0201), dict(name="e2", code=0x0202)], feat=("dtc_dop", "DiagDataDictionarySpec.dtc_dops")),
        dict(kind="struct", name="st_item", long_name="item", desc="an item", **(dict(byte_size=2) if s.on("struct_byte_size", "Structure.byte_size") else {}),
             params=[dict(t="VALUE", name="a", dop="u8", byte=0), dict(t="VALUE", name="b", dop="u8", byte=1, default="5")]),
        dict(kind="struct", name="st_other", params=[dict(t="VALUE", name="c", dop="u16le", byte=0)]),
        dict(kind="envdata", name="env_all", all=True, params=[dict(t="VALUE", name="e0", dop="u8", byte=0)], feat=("env_data", "DiagDataDictionarySpec.env_datas")),
        dict(kind="envdata", name="env_d1", dtcs=[0x0101, 0x0102], params=[dict(t="VALUE", name="e1", dop="u16le", byte=0)],
             feat=("env_data", "DiagDataDictionarySpec.env_datas")),
        dict(kind="envdesc", name="envdesc", param="dtc", envdatas=["env_all", "env_d1"], feat=("env_data", "DiagDataDictionarySpec.env_datas")),
        dict(kind="sfield", name="sf", of="st_item", n=2, item_size=3, feat=("sfield", "DiagDataDictionarySpec.static_fields")),
        dict(kind="dlfield", name="dlf", of="st_item", offset=1, count=dict(byte=0, bit=1, dop="u8"), feat=("dlfield", "DiagDataDictionarySpec.dynamic_length_fields")),
        dict(kind="eopfield", name="eopf", of="st_item", min=0, max=5, feat=("eopfield", "DiagDataDictionarySpec.end_of_pdu_fields")),
        dict(kind="eopfield", name="eopf_sn", of="st_other", snref=True, feat=("eopfield_snref", "EndOfPduField.structure_snref")),
        dict(kind="emfield", name="emf", of="st_item", end_dop="u8", term=255, feat=("emfield", "DiagDataDictionarySpec.dynamic_endmarker_fields")),
        dict(kind="emfield", name="emf_env", of_env="envdesc", end_dop="u8", term=0, feat=("emfield_env", "DynamicEndmarkerField.env_data_desc_ref")),
        dict(kind="mux", name="mx", byte=1, key=dict(byte=0, bit=0, dop="u8"), feat=("mux", "DiagDataDictionarySpec.muxs"),
             cases=[dict(name="c1", lo=lim(1, "CLOSED"), hi=lim(3, "CLOSED"), struct="st_item"),
                    dict(name="c2", lo=lim(4), hi=lim(4), struct="st_other", snref=True, feat=("mux_snref_case", "MultiplexerCase.structure_snref")),
                    dict(name="c3", lo=lim(5), hi=lim(6), feat=("mux_case_nostruct", "MultiplexerCase.structure_ref"))],
             default=dict(name="dflt", struct="st_item")),
        dict(kind="mux", name="mx2", key=dict(byte=0, dop="u8"), cases=[], default=dict(name="only", struct="st_other", snref=True),
             feat=("mux_snref_default", "MultiplexerDefaultCase.structure_snref")),
        tab,
        dict(kind="table", name="tab2", key_dop="u8", rows=[dict(name="q1", key=1, struct="st_item")], feat=("table", "DiagDataDictionarySpec.tables")),
    ]


def cc(name: str, v: int, byte: Optional[int] = None, bits: int = 8) -> Dict[str, Any]:
    return dict(t="CODED-CONST", name=name, dct=std(bits), value=v, byte=byte)


def messages(s: "Sel") -> List[Dict[str, Any]]:
    v_u8: Dict[str, Any] = dict(t="VALUE", name="v_u8", dop="u8", byte=1, long_name="a byte", desc="param desc")
    if s.on("param_semantic", "ValueParameter.semantic"):
        v_u8["semantic"] = "DATA"
    if s.on("param_oid", "ValueParameter.oid"):
        v_u8["oid"] = "oid.v_u8"
    return [
        dict(kind="REQUEST", name="rq_all", long_name="all request parameter kinds", desc="request desc", params=[
            cc("sid", 0x22, 0), v_u8,
            dict(t="VALUE", name="v_lin", dop="lin", byte=2, default="10", feat=("compu_linear", "")),
            dict(t="PHYS-CONST", name="pc", dop="u8", byte=3, const="7", feat=("p_physconst", "PhysicalConstantParameter.physical_constant_value_raw")),
            dict(t="RESERVED", name="rsv", bits=4, byte=4, bit=2, feat=("p_reserved", "ReservedParameter.bit_length")),
            dict(t="SYSTEM", name="sys", dop="u16le", byte=5, sysparam="YEAR", feat=("p_system", "SystemParameter.sysparam")),
            dict(t="VALUE", name="v_sn", dop="i8", snref=True, byte=7, feat=("p_dop_snref", "ValueParameter.dop_snref")),
            dict(t="VALUE", name="v_lib", dop="@kslib.lib_u8", byte=8, docref="KSLIB", doctype="CONTAINER", feat=("cross_doc_dop", "ValueParameter.dop_ref.ref_docs")),
            dict(t="TABLE-KEY", name="tk", table="tab", id=B + ".rq_all.tk", byte=9, feat=("p_tablekey", "TableKeyParameter.table_ref")),
            dict(t="TABLE-STRUCT", name="ts", key_id=B + ".rq_all.tk", byte=10, feat=("p_tablekey", "TableKeyParameter.table_ref")),
            dict(t="LENGTH-KEY", name="lk", dop="u8", id=B + ".rq_all.lk", byte=13, semantic="LK", feat=("p_lengthkey", "LengthKeyParameter.odx_id")),
            dict(t="VALUE", name="v_plen", dop="bytes_plen", byte=14, feat=("dct_plen", "")),
        ]),
        dict(kind="REQUEST", name="rq_min", params=[cc("sid", 0x3E, 0), dict(t="VALUE", name="x", dop="i8", byte=1, bit=0)]),
        dict(kind="REQUEST", name="rq_tk", feat=("table", ""), params=[
            cc("sid", 0x23, 0),
            dict(t="TABLE-KEY", name="tk1", table="tab", row="r2", id=B + ".rq_tk.tk1", byte=1, feat=("p_tablekey_row", "TableKeyParameter.table_row_ref")),
            dict(t="TABLE-KEY", name="tk2", table="tab2", snref=True, id=B + ".rq_tk.tk2", byte=2, feat=("p_tablekey_snref", "TableKeyParameter.table_snref")),
            dict(t="TABLE-STRUCT", name="ts2", key="tk2", key_snref=True, byte=3, feat=("p_tablestruct_snref", "TableStructParameter.table_key_snref"))]),
        dict(kind="REQUEST", name="rq_str", params=[cc("sid", 0x2E, 0), dict(t="VALUE", name="s1", dop="str_mm", byte=1, feat=("dct_minmax", "")),
                                                     dict(t="VALUE", name="b1", dop="bytes_lead", feat=("dct_lead", "")), dict(t="VALUE", name="f", dop="f32"),
                                                     dict(t="VALUE", name="s0", dop="str_opt", default="", feat=("p_empty_default", "")),
                                                     dict(t="VALUE", name="s3", dop="str_opt", default="abc", feat=("p_empty_default", "")),
                                                     dict(t="VALUE", name="s2", dop="utf8_eop", feat=("dct_minmax", ""))]),
        dict(kind="POS-RESPONSE", name="pr_all", long_name="all response parameter kinds", params=[
            cc("sid", 0x62, 0), dict(t="MATCHING-REQUEST-PARAM", name="echo", rq_byte=1, len=1, byte=1),
            dict(t="VALUE", name="mx", dop="mx", byte=2, feat=("mux", "")), dict(t="VALUE", name="sf", dop="sf", byte=6, feat=("sfield", "")),
            dict(t="TABLE-ENTRY", name="te", table="tab", row="r1", target="STRUCT", byte=12, feat=("p_tableentry", "TableEntryParameter.table_row_ref")),
            dict(t="VALUE", name="t1", dop="texttab", byte=14, feat=("compu_texttable", "")), dict(t="VALUE", name="r1", dop="ratfunc", byte=15, feat=("compu_rat_func", "")),
            dict(t="VALUE", name="um", dop="u4m", byte=16, feat=("dct_bit_mask", "")), dict(t="VALUE", name="uc", dop="u4c", byte=17, feat=("dct_condensed", "")),
            dict(t="VALUE", name="eop", dop="eopf", byte=18, feat=("eopfield", ""))]),
        dict(kind="POS-RESPONSE", name="pr_min", params=[cc("sid", 0x7E, 0), dict(t="VALUE", name="y", dop="sclin", byte=1, feat=("compu_scale_linear", "")),
                                                         dict(t="VALUE", name="z", dop="tabintp", byte=2, feat=("compu_tab_intp", "")),
                                                         dict(t="VALUE", name="w", dop="scratfunc", byte=3, feat=("compu_scale_rat_func", "")),
                                                         dict(t="VALUE", name="cc", dop="compucode", byte=4, feat=("compu_code", ""))]),
        dict(kind="POS-RESPONSE", name="pr_dyn", params=[cc("sid", 0x63, 0), dict(t="VALUE", name="dl", dop="dlf", byte=1, feat=("dlfield", "")),
                                                         dict(t="VALUE", name="em", dop="emf", feat=("emfield", "")),
                                                         dict(t="VALUE", name="hx", dop="bytes_hexff", feat=("dct_minmax", "")),
                                                         dict(t="DYNAMIC", name="dyn", feat=("p_dynamic", "DynamicParameter.short_name")),
                                                         dict(t="VALUE", name="m2", dop="mx2", feat=("mux_snref_default", "")),
                                                         dict(t="VALUE", name="es", dop="eopf_sn", feat=("eopfield_snref", ""))]),
        dict(kind="POS-RESPONSE", name="pr_env", feat=("dtc_dop", ""), params=[cc("sid", 0x59, 0), dict(t="VALUE", name="dtc", dop="dtcs", byte=1),
                                                                              dict(t="VALUE", name="env", dop="envdesc", byte=4, feat=("env_data", "")),
                                                                              dict(t="VALUE", name="eme", dop="emf_env", feat=("emfield_env", ""))]),
        dict(kind="NEG-RESPONSE", name="nr", params=[cc("nsid", 0x7F, 0), dict(t="MATCHING-REQUEST-PARAM", name="rsid", rq_byte=0, len=1, byte=1),
                                                     dict(t="NRC-CONST", name="nrc", dct=std(8), values=[0x10, 0x11, 0x12], byte=2,
                                                          feat=("p_nrcconst", "NrcConstParameter.coded_values"))]),
        dict(kind="GLOBAL-NEG-RESPONSE", name="gnr", params=[cc("nsid", 0x7F, 0), dict(t="VALUE", name="gsid", dop="u8", byte=1),
                                                             dict(t="VALUE", name="gnrc", dop="u8", byte=2)]),
    ]


def services(s: "Sel") -> List[Dict[str, Any]]:
    svc_all: Dict[str, Any] = dict(name="svc_all", long_name="service with everything", desc="service desc", request="rq_all",
                                   pos=["pr_all"] + (["pr_env"] if s.on("dtc_dop") else []), neg=["nr"], audience_xml=service_extras(B, s))
    if s.on("svc_funct_classes", "DiagService.functional_class_refs"):
        svc_all["funct_classes"] = ["fc1", "fc2"]
    if s.on("svc_semantic", "DiagService.semantic"):
        svc_all["semantic"] = "FUNCTION"
    if s.on("svc_addressing", "DiagService.addressing_raw"):
        svc_all.update(addressing="FUNCTIONAL-OR-PHYSICAL", transmission_mode="SEND-AND-RECEIVE")
    return [
        svc_all,
        dict(name="svc_min", request="rq_min", pos=["pr_min"]),
        dict(name="svc_tk", request="rq_tk", pos=["pr_dyn"], feat=("table", "")),
        dict(name="svc_str", request="rq_str", pos=["pr_min", "pr_dyn"], neg=["nr"]),
        dict(job=True, name="job", long_name="a job", feat=("job", "DiagLayerRaw.diag_comms_raw<SingleEcuJob>")),
        dict(name="svc_dyn_clear", request="rq_min"), dict(name="svc_dyn_read", request="rq_min"), dict(name="svc_dyn_def", request="rq_min"),
    ]


def ksbase(s: "Sel") -> Dict[str, Any]:
    d = dops(s)
    ni = s.on("not_inherited", "ParentRef.not_inherited_diag_comms")
    return prune(dict(
        type="BASE-VARIANT", name=B, long_name="kitchen sink base variant", desc="layer desc",
        head_xml=s.opt("layer_admin", "DiagLayerRaw.admin_data", admin_data("KS.CD", "KS.CD.doggy")) +
        s.opt("layer_company_datas", "DiagLayerRaw.company_datas", company_datas(B)),
        funct_classes=[dict(name="fc1", long_name="class one"), "fc2"],
        dops=d, unit_spec_xml=s.opt("unit_spec", "DiagDataDictionarySpec.unit_spec", unit_spec(B, s, "layer")), msgs=messages(s), svcs=services(s),
        imports=[dict(id="kslib", docref="KSLIB", doctype="CONTAINER", feat=("import_ref", "DiagLayerRaw.import_refs"))],
        mid_xml=s.opt("state_charts", "DiagLayerRaw.state_charts", state_charts(B, s)) +
        s.opt("additional_audiences", "DiagLayerRaw.additional_audiences", additional_audiences(B)) +
        s.opt("sub_components", "DiagLayerRaw.sub_components", sub_components(B, s)) +
        s.opt("libraries", "DiagLayerRaw.libraries", libraries(B)) + s.opt("layer_sdgs", "DiagLayerRaw.sdgs", sdgs(B)),
        comparams=[dict(id="KSCS.cp_simple", docref="KSCS", value="1000", protocol="ksproto", prot_stack="stack1",
                        feat=("layer_comparam_simple", "HierarchyElementRaw.comparam_refs")),
                   dict(id="KSCS.cp_complex", docref="KSCS", complex=["1", ["2", "3"], "4"], protocol="ksproto",
                        feat=("layer_comparam_complex", "ComparamInstance.value<complex>"))],
        variant_xml=s.opt("dv_base", "BaseVariantRaw.diag_variables_raw", diag_variables(B, s, True, "svc_all")) +
        s.opt("vg_base", "BaseVariantRaw.variable_groups", variable_groups(B)) +
        s.opt("dyn_spec_base", "BaseVariantRaw.dyn_defined_spec", dyn_defined_spec(B, "tab2")) +
        s.opt("bv_pattern", "BaseVariantRaw.base_variant_pattern", base_variant_pattern(s)),
        parents=[dict(layer="ksproto", not_inherited=dict(comms=["proto_svc"], dops=["p_dop"], gnrs=["p_gnr"]) if ni else {}),
                 dict(layer="ksshared", not_inherited=dict(**(dict(tables=["sh_tab"]) if s.on("table") else {}),
                                                           **(dict(vars=["dv2"]) if s.on("dv_shared", "EcuSharedDataRaw.diag_variables_raw") else {})) if ni else {}),
                 dict(layer="ksfg")],
    ), s)


def container_ks(s: "Sel") -> Dict[str, Any]:
    ni = s.on("not_inherited", "ParentRef.not_inherited_diag_comms")
    proto = dict(
        type="PROTOCOL", name="ksproto", long_name="protocol", comparam_spec="KSC", prot_stack="stack1",
        dops=[dict(name="p_dop", dct=std(8)), dict(name="p_u8", dct=std(8))],
        msgs=[dict(kind="REQUEST", name="p_rq", params=[cc("sid", 0x10, 0), dict(t="VALUE", name="sess", dop="p_u8", byte=1)]),
              dict(kind="POS-RESPONSE", name="p_pr", params=[cc("sid", 0x50, 0), dict(t="VALUE", name="sess", dop="p_u8", byte=1)]),
              dict(kind="GLOBAL-NEG-RESPONSE", name="p_gnr", params=[cc("nsid", 0x7F, 0)]),
              dict(kind="GLOBAL-NEG-RESPONSE", name="p_gnr2", params=[cc("nsid", 0x7F, 0), dict(t="VALUE", name="rs", dop="p_u8", byte=1)])],
        svcs=[dict(name="proto_svc", request="p_rq", pos=["p_pr"]), dict(name="proto_svc2", request="p_rq", pos=["p_pr"], semantic="SESSION")],
        comparams=[dict(id="KSCS.cp_simple", docref="KSCS", value="500")],
    )
    fg = dict(
        type="FUNCTIONAL-GROUP", name="ksfg", long_name="functional group", parents=[dict(layer="ksproto")],
        dops=[dict(name="fg_u8", dct=std(8))],
        msgs=[dict(kind="REQUEST", name="fg_rq", params=[cc("sid", 0x11, 0), dict(t="VALUE", name="rt", dop="fg_u8", byte=1)])],
        svcs=[dict(name="svc_fg", request="fg_rq")],
        variant_xml=s.opt("dv_fg", "FunctionalGroupRaw.diag_variables_raw", diag_variables("ksfg", s, False, "svc_fg")),
    )
    shared = dict(
        type="ECU-SHARED-DATA", name="ksshared", long_name="shared data",
        dops=[dict(name="sh_u8", dct=std(8)), dict(kind="struct", name="sh_st", params=[dict(t="VALUE", name="a", dop="sh_u8", byte=0)]),
              dict(kind="table", name="sh_tab", key_dop="sh_u8", rows=[dict(name="s1", key=1, struct="sh_st")], feat=("table", ""))],
        msgs=[dict(kind="REQUEST", name="sh_rq", params=[cc("sid", 0x12, 0)])], svcs=[dict(name="svc_sh", request="sh_rq")],
        tail_xml=s.opt("dv_shared", "EcuSharedDataRaw.diag_variables_raw", diag_variables("ksshared", s, False, "svc_sh")) +
        s.opt("vg_shared", "EcuSharedDataRaw.variable_groups", variable_groups("ksshared")),
    )
    ecu = dict(
        type="ECU-VARIANT", name="ksecu", long_name="ecu variant",
        parents=[dict(layer=B, not_inherited=dict(comms=["svc_str"], dops=["f32"], **(dict(tables=["tab2"]) if s.on("table") else {})) if ni else {})],
        dops=[dict(name="ev_u8", dct=std(8))],
        msgs=[dict(kind="REQUEST", name="ev_rq", params=[cc("sid", 0x31, 0), dict(t="VALUE", name="rid", dop="ev_u8", byte=1)]),
              dict(kind="POS-RESPONSE", name="ev_pr", params=[cc("sid", 0x71, 0), dict(t="MATCHING-REQUEST-PARAM", name="rid", rq_byte=1, len=1, byte=1)])],
        svcs=[dict(name="svc_ev", request="ev_rq", pos=["ev_pr"]), dict(ref=B + ".svc_min", feat=("diag_comm_ref", "DiagLayerRaw.diag_comms_raw<OdxLinkRef>")),
              dict(ref=B + ".svc_dyn_read", feat=("diag_comm_ref", "DiagLayerRaw.diag_comms_raw<OdxLinkRef>"))],
        variant_xml=s.opt("ev_patterns", "EcuVariantRaw.ecu_variant_patterns", ecu_variant_patterns(s)) +
        s.opt("dyn_spec_ecu", "EcuVariantRaw.dyn_defined_spec", dyn_defined_spec(B, "tab")) +
        s.opt("dv_ecu", "EcuVariantRaw.diag_variables_raw", diag_variables("ksecu", s, False, "svc_ev")) +
        s.opt("vg_ecu", "EcuVariantRaw.variable_groups", variable_groups("ksecu")),
    )
    return dict(name="KS", long_name="kitchen sink container", layers=[prune(proto, s), prune(fg, s), prune(shared, s), ksbase(s), prune(ecu, s)],
                head_xml=desc("container desc", ext=s.on("desc_external_docs", "Description.external_docs"),
                              ti="en" if s.on("desc_ti", "Description.text_identifier") else None) +
                admin_data("KS.CD", "KS.CD.doggy", s) + company_datas("KS", s) + s.opt("category_sdgs", "DiagLayerContainer.sdgs", sdgs("KS")))


def container_lib(s: "Sel") -> Dict[str, Any]:
    lib = dict(type="ECU-SHARED-DATA", name="kslib", long_name="library layer in a second container",
               dops=[dict(name="lib_u8", dct=std(8), long_name="byte of the library")])
    return dict(name="KSLIB", long_name="second container", layers=[lib])


def container_x(s: "Sel") -> Dict[str, Any]:
    """Third container: layers that inherit across containers (PARENT-REF with DOCREF): an ECU variant from the base variant of
    container KS, and a base variant from the shared data of container KSLIB and the protocol of KS."""
    ecu2 = dict(type="ECU-VARIANT", name="ksecu2", long_name="ecu variant in a container of its own",
                parents=[dict(layer=B, docref="KS", doctype="CONTAINER")],
                dops=[dict(name="x_u8", dct=std(8))],
                msgs=[dict(kind="REQUEST", name="x_rq", params=[cc("sid", 0x32, 0), dict(t="VALUE", name="xv", dop="x_u8", byte=1)]),
                      dict(kind="POS-RESPONSE", name="x_pr", params=[cc("sid", 0x72, 0), dict(t="VALUE", name="xr", dop="u8", snref=True, byte=1)])],
                svcs=[dict(name="svc_x", request="x_rq", pos=["x_pr"])])
    base2 = dict(type="BASE-VARIANT", name="ksbase2", long_name="base variant in a container of its own",
                 parents=[dict(layer="kslib", docref="KSLIB", doctype="CONTAINER"), dict(layer="ksproto", docref="KS", doctype="CONTAINER")],
                 msgs=[dict(kind="REQUEST", name="y_rq", params=[cc("sid", 0x33, 0), dict(t="VALUE", name="yv", dop="@kslib.lib_u8", docref="KSLIB", doctype="CONTAINER", byte=1)])],
                 svcs=[dict(name="svc_y", request="y_rq")])
    return dict(name="KSX", long_name="container of layers with parents in other containers", layers=[base2, ecu2],
                foreign_layer_types={B: "BASE-VARIANT", "kslib": "ECU-SHARED-DATA", "ksproto": "PROTOCOL"})


def subset(s: "Sel") -> Dict[str, Any]:
    cplx: Dict[str, Any] = dict(name="cp_complex", long_name="complex comparam", cptype="STANDARD", param_class="UNIQUE_ID", usage="ECU-COMM",
                                subs=[dict(name="sub1", dop="cs_u32", default="1", param_class="UNIQUE_ID"),
                                      dict(name="sub2", param_class="UNIQUE_ID", subs=[dict(name="sub2a", dop="cs_u32", default="2", param_class="UNIQUE_ID"),
                                                                                        dict(name="sub2b", dop="cs_u32", default="3", param_class="UNIQUE_ID")]),
                                      dict(name="sub3", dop="cs_u32", default="4", param_class="UNIQUE_ID")])
    if s.on("cs_complex_default", "ComplexComparam.physical_default_value"):
        cplx["default_complex"] = [["1", ["2", "3"], "4"], ["5", ["6", "7"], "8"]]
    if s.on("cs_allow_multiple", "ComplexComparam.allow_multiple_values_raw"):
        cplx["allow_multiple"] = True
    cp_simple: Dict[str, Any] = dict(name="cp_simple", long_name="simple comparam", cptype="STANDARD", param_class="TIMING", usage="ECU-COMM", dop="cs_u32", default="100")
    if s.on("cs_display_level", "Comparam.display_level"):
        cp_simple["display_level"] = 1
    return dict(
        name="KSCS", long_name="kitchen sink comparam subset", category="APPLICATION",
        comparams=[cp_simple, dict(name="cp_second", cptype="OPTIONAL", param_class="COM", usage="TESTER", dop="cs_text", default="fast")],
        complex=[cplx],
        dops=[dict(name="cs_u32", dct=std(32), **(dict(unit="unit.m") if s.on("cs_unit_spec", "ComparamSubset.unit_spec") else {})),
              dict(name="cs_text", dct=std(8), phys="A_UNICODE2STRING",
                   cm=dict(cat="TEXTTABLE", i2p=[dict(lo=lim(0), hi=lim(0), const="slow"), dict(lo=lim(1), hi=lim(1), const="fast")]))],
        tail_xml=s.opt("cs_unit_spec", "ComparamSubset.unit_spec", unit_spec("KSCS", s, "subset")) + desc("subset desc", ext=False) +
        s.opt("cs_admin", "ComparamSubset.admin_data", admin_data("KSCS.CD", "KSCS.CD.doggy") + company_datas("KSCS")) +
        s.opt("cs_sdgs", "ComparamSubset.sdgs", sdgs("KSCS")),
    )


def spec(s: "Sel") -> Dict[str, Any]:
    return dict(name="KSC", prot_stacks=[dict(name="stack1", subsets=[("KSCS", "KSCS")]),
                                         dict(name="stack2", pdu_protocol_type="ISO_14230_3_on_ISO_14230_2", physical_link_type="ISO_14230_1_UART",
                                              subsets=[("KSCS", "KSCS")])])


# ---------------------------------------------------------------------------------------------
# post-processing (constructs neither the spec language nor a hook can place)
# ---------------------------------------------------------------------------------------------
def _attrs(xml: str, tag: str, ident: str, extra: str) -> str:
    old = f'<{tag} ID="{ident}"'
    assert xml.count(old) == 1, (tag, ident, xml.count(old))
    return xml.replace(old, old + " " + extra)


def _before_end(xml: str, tag: str, ident: str, extra: str) -> str:
    """Insert extra before the end tag of the element <tag ID=ident ...>."""
    start = xml.index(f'<{tag} ID="{ident}"')
    end = xml.index(f"</{tag}>", start)
    return xml[:end] + extra + xml[end:]


def _after_names(xml: str, tag: str, ident: str, extra: str) -> str:
    """Insert extra after the SHORT-NAME/LONG-NAME/DESC group of the element <tag ID=ident ...>."""
    start = xml.index(f'<{tag} ID="{ident}"')
    m = re.compile(r"<SHORT-NAME>[^<]*</SHORT-NAME>(<LONG-NAME>[^<]*</LONG-NAME>)?(<DESC>.*?</DESC>)?").search(xml, start)
    assert m is not None
    return xml[:m.end()] + extra + xml[m.end():]


def finish_ks(xml: str, s: "Sel") -> str:
    AD = admin_data("KS.CD", "KS.CD.doggy")
    xml = re.sub(r'ID-REF="[^".]+\.@', 'ID-REF="', xml)  # references into another layer: "@layer.name"
    for nm, dc in (("svc_dyn_clear", "CLEAR-DYN-DEF-MESSAGE"), ("svc_dyn_read", "READ-DYN-DEFINED-MESSAGE"), ("svc_dyn_def", "DYN-DEF-MESSAGE")):
        xml = _attrs(xml, "DIAG-SERVICE", f"{B}.{nm}", f'DIAGNOSTIC-CLASS="{dc}"')
    if s.on("svc_oid", "DiagService.oid"):
        xml = _attrs(xml, "DIAG-SERVICE", B + ".svc_all", 'OID="oid.svc_all"')
    if s.on("svc_flags", "DiagService.is_mandatory_raw"):
        xml = _attrs(xml, "DIAG-SERVICE", B + ".svc_all", 'DIAGNOSTIC-CLASS="STARTCOMM" IS-MANDATORY="true" IS-EXECUTABLE="false" IS-FINAL="true"')
    if s.on("svc_cyclic", "DiagService.is_cyclic_raw"):
        xml = _attrs(xml, "DIAG-SERVICE", B + ".svc_all", 'IS-CYCLIC="true" IS-MULTIPLE="true"')
    if s.on("job"):
        if s.on("job_attrs", "SingleEcuJob.is_mandatory_raw"):
            xml = _attrs(xml, "SINGLE-ECU-JOB", B + ".job", 'OID="oid.job" SEMANTIC="JOBSEM" IS-MANDATORY="false" IS-EXECUTABLE="true" IS-FINAL="false"')
        xml = _before_end(xml, "SINGLE-ECU-JOB", B + ".job",
                          s.opt("job_params", "SingleEcuJob.input_params", job_params(B)) + s.opt("job_audience", "SingleEcuJob.audience", audience(B)) +
                          s.opt("job_sdgs", "SingleEcuJob.sdgs", sdgs(B + ".job")))
        if s.on("job_progcode_extras", "ProgCode.library_refs"):
            xml = xml.replace("<REVISION>1</REVISION></PROG-CODE></PROG-CODES>",
                              "<REVISION>1</REVISION><ENCRYPTION>none</ENCRYPTION><ENTRYPOINT>run</ENTRYPOINT>" +
                              X("LIBRARY-REFS", X("LIBRARY-REF", ID_REF=B + ".LIB.lib1")) + "</PROG-CODE></PROG-CODES>", 1)
    if s.on("dop_oid", "DataObjectProperty.oid"):
        xml = _attrs(xml, "DATA-OBJECT-PROP", B + ".u8", 'OID="oid.u8"')
    xml = _after_names(xml, "DATA-OBJECT-PROP", B + ".u8", s.opt("dop_admin", "DataObjectProperty.admin_data", AD) + s.opt("dop_sdgs", "DataObjectProperty.sdgs", sdgs(B + ".u8")))
    if s.on("struct_attrs", "Structure.is_visible_raw"):
        xml = _attrs(xml, "STRUCTURE", B + ".st_item", 'OID="oid.st_item" IS-VISIBLE="true"')
    xml = _after_names(xml, "STRUCTURE", B + ".st_item", s.opt("struct_admin", "Structure.admin_data", AD) + s.opt("struct_sdgs", "Structure.sdgs", sdgs(B + ".st_item")))
    if s.on("dtc_dop"):
        if s.on("dtc_dop_attrs", "DtcDop.is_visible_raw"):
            xml = _attrs(xml, "DTC-DOP", B + ".dtcs", 'OID="oid.dtcs" IS-VISIBLE="true"')
        if s.on("dtc_linked", "DtcDop.linked_dtc_dops_raw"):
            xml = _before_end(xml, "DTC-DOP", B + ".dtcs",
                              X("LINKED-DTC-DOPS", X("LINKED-DTC-DOP", X("NOT-INHERITED-DTC-SNREFS", X("NOT-INHERITED-DTC-SNREF", SHORT_NAME="e1")),
                                                     X("DTC-DOP-REF", ID_REF=B + ".dtcs2"))))
        if s.on("dtc_attrs", "DiagnosticTroubleCode.is_temporary_raw"):
            xml = _attrs(xml, "DTC", B + ".DTC.d1", 'OID="oid.d1" IS-TEMPORARY="true"')
        if s.on("dtc_sdgs", "DiagnosticTroubleCode.sdgs"):
            xml = _before_end(xml, "DTC", B + ".DTC.d1", sdgs(B + ".d1"))
        if s.on("dtc_ref", "DtcDop.dtcs_raw<OdxLinkRef>"):
            xml = xml.replace(f'<DTC ID="{B}.DTC.e1">', f'<DTC-REF ID-REF="{B}.DTC.d2"/><DTC ID="{B}.DTC.e1">', 1)
    if s.on("field_attrs", "Field.is_visible_raw"):
        for tag, ident in (("STATIC-FIELD", "sf"), ("DYNAMIC-LENGTH-FIELD", "dlf"), ("END-OF-PDU-FIELD", "eopf"), ("DYNAMIC-ENDMARKER-FIELD", "emf")):
            xml = _attrs(xml, tag, f"{B}.{ident}", f'OID="oid.{ident}" IS-VISIBLE="false"')
    if s.on("mux_attrs", "Multiplexer.is_visible_raw"):
        xml = _attrs(xml, "MUX", f"{B}.mx", 'OID="oid.mx" IS-VISIBLE="false"')
    if s.on("envdata_attrs", "EnvironmentData.oid"):
        xml = _attrs(xml, "ENV-DATA-DESC", f"{B}.envdesc", 'OID="oid.envdesc"')
        xml = _attrs(xml, "ENV-DATA", f"{B}.env_all", 'OID="oid.env_all"')
    if s.on("table"):
        if s.on("table_oid", "Table.oid"):
            xml = _attrs(xml, "TABLE", B + ".tab", 'OID="oid.tab"')
        xml = _before_end(xml, "TABLE", B + ".tab",
                          s.opt("table_row_ref", "Table.table_rows_raw<OdxLinkRef>", X("TABLE-ROW-REF", ID_REF=B + ".tab2.q1")) +
                          s.opt("table_connectors", "Table.table_diag_comm_connectors",
                                X("TABLE-DIAG-COMM-CONNECTORS", X("TABLE-DIAG-COMM-CONNECTOR", T("SEMANTIC", "TDCSEM"), X("DIAG-COMM-REF", ID_REF=B + ".svc_min")),
                                  X("TABLE-DIAG-COMM-CONNECTOR", T("SEMANTIC", "TDCSEM2"), X("DIAG-COMM-SNREF", SHORT_NAME="svc_tk")))) +
                          s.opt("table_sdgs", "Table.sdgs", sdgs(B + ".tab")) + s.opt("table_admin", "Table.admin_data", AD))
        if s.on("row_attrs", "TableRow.is_executable_raw"):
            xml = _attrs(xml, "TABLE-ROW", B + ".tab.r1", 'OID="oid.r1" SEMANTIC="ROWSEM" IS-EXECUTABLE="true" IS-MANDATORY="false" IS-FINAL="true"')
        xml = _before_end(xml, "TABLE-ROW", B + ".tab.r1",
                          s.opt("row_sdgs", "TableRow.sdgs", sdgs(B + ".tab.r1")) +
                          s.opt("row_refs", "TableRow.audience", audience(B) + X("FUNCT-CLASS-REFS", X("FUNCT-CLASS-REF", ID_REF=B + ".fc1")) +
                                X("STATE-TRANSITION-REFS", X("STATE-TRANSITION-REF", ID_REF=B + ".SC.cheer")) +
                                X("PRE-CONDITION-STATE-REFS", X("PRE-CONDITION-STATE-REF", ID_REF=B + ".SC.happy"))) +
                          s.opt("row_admin", "TableRow.admin_data", AD))
        if s.on("row_names", "TableRow.long_name"):
            xml = _after_names(xml, "TABLE-ROW", B + ".tab.r1", "<LONG-NAME>row one</LONG-NAME><DESC><p>row desc</p></DESC>")
    if s.on("request_oid", "Request.oid"):
        xml = _attrs(xml, "REQUEST", B + ".rq_all", 'OID="oid.rq_all"')
        xml = _attrs(xml, "POS-RESPONSE", B + ".pr_all", 'OID="oid.pr_all"')
    xml = _before_end(xml, "REQUEST", B + ".rq_all", s.opt("request_admin", "Request.admin_data", AD) + s.opt("request_sdgs", "Request.sdgs", sdgs(B + ".rq_all")))
    xml = _before_end(xml, "POS-RESPONSE", B + ".pr_all", s.opt("response_admin", "Response.admin_data", AD) + s.opt("response_sdgs", "Response.sdgs", sdgs(B + ".pr_all")))
    if s.on("fc_oid", "FunctionalClass.oid"):
        xml = _attrs(xml, "FUNCT-CLASS", B + ".fc1", 'OID="oid.fc1"')
    xml = _before_end(xml, "FUNCT-CLASS", B + ".fc1", s.opt("fc_admin", "FunctionalClass.admin_data", AD))
    if s.on("layer_oid", "DiagLayerRaw.oid"):
        xml = _attrs(xml, "BASE-VARIANT", B, 'OID="oid.ksbase"')
    if s.on("category_oid", "DiagLayerContainer.oid"):
        xml = _attrs(xml, "DIAG-LAYER-CONTAINER", "KS", 'OID="oid.KS"')
    if s.on("param_sdgs", "ValueParameter.sdgs"):
        xml = xml.replace('<SHORT-NAME>v_u8</SHORT-NAME><LONG-NAME>a byte</LONG-NAME><DESC><p>param desc</p></DESC>',
                          '<SHORT-NAME>v_u8</SHORT-NAME><LONG-NAME>a byte</LONG-NAME><DESC><p>param desc</p></DESC>' + sdgs(B + ".v_u8"), 1)
    i = xml.index("<DIAG-DATA-DICTIONARY-SPEC>", xml.index(f'<BASE-VARIANT ID="{B}"'))
    j = xml.index("</DIAG-DATA-DICTIONARY-SPEC>", i)
    xml = (xml[:i] + "<DIAG-DATA-DICTIONARY-SPEC>" + s.opt("ddds_admin", "DiagDataDictionarySpec.admin_data", AD) +
           xml[i + len("<DIAG-DATA-DICTIONARY-SPEC>"):j] + s.opt("ddds_sdgs", "DiagDataDictionarySpec.sdgs", sdgs(B + ".ddds")) + xml[j:])
    return xml


def finish_cs(xml: str, s: "Sel") -> str:
    if s.on("cs_oid", "ComparamSubset.oid"):
        xml = _attrs(xml, "COMPARAM-SUBSET", "KSCS", 'OID="oid.KSCS"')
        xml = _attrs(xml, "COMPARAM", "KSCS.cp_simple", 'OID="oid.cp_simple"')
    if s.on("cs_comparam_desc", "Comparam.description"):
        xml = xml.replace('<LONG-NAME>simple comparam</LONG-NAME>', '<LONG-NAME>simple comparam</LONG-NAME><DESC><p>cp desc</p></DESC>', 1)
    return xml


def finish_c(xml: str, s: "Sel") -> str:
    if s.on("c_oid", "ComparamSpec.oid"):
        xml = _attrs(xml, "COMPARAM-SPEC", "KSC", 'OID="oid.KSC"')
        xml = _attrs(xml, "PROT-STACK", "KSC.stack1", 'OID="oid.stack1"')
    xml = xml.replace("<SHORT-NAME>KSC</SHORT-NAME>", "<SHORT-NAME>KSC</SHORT-NAME><LONG-NAME>kitchen sink spec</LONG-NAME>" + desc("spec desc", ext=False) +
                      s.opt("c_admin", "ComparamSpec.admin_data", admin_data("KSC.CD", "KSC.CD.doggy") + company_datas("KSC")) +
                      s.opt("c_sdgs", "ComparamSpec.sdgs", sdgs("KSC")), 1)
    if s.on("c_protstack_names", "ProtStack.long_name"):
        xml = xml.replace("<SHORT-NAME>stack1</SHORT-NAME>", "<SHORT-NAME>stack1</SHORT-NAME><LONG-NAME>stack one</LONG-NAME><DESC><p>stack desc</p></DESC>", 1)
    return xml


def files(off: Iterable[str] = ()) -> Dict[str, str]:
    """{file name: XML text} of the kitchen-sink database without the features in `off`."""
    s = Sel(off)
    out = {
        "KS.odx-d": finish_ks(container(container_ks(s)), s),
        "KSLIB.odx-d": container(container_lib(s)),
        "KSCS.odx-cs": finish_cs(comparam_subset(subset(s)), s),
        "KSC.odx-c": finish_c(comparam_spec(spec(s)), s),
    }
    if s.on("cross_container_parent", "ParentRef.layer_ref<layer of another container>"):
        # (the documents of the parents come first here; the member-order part of C11 enumerates all other orders)
        out["KSX.odx-d"] = re.sub(r'ID-REF="[^".]+\.@', 'ID-REF="', container(container_x(s)))
    return out


def mini_members(model_version: str) -> Dict[str, bytes]:
    """A small database as ODX before 2.2 has it (no PROTOCOL layer -- odxtools needs an ODX 2.2 COMPARAM-SPEC for those): a container
    with a base and an ECU variant, a COMPARAM-SUBSET document, and a document whose root is COMPARAM-SPEC carrying communication
    parameters directly (ODX 2.0; the parser reads it as a comparam subset without CATEGORY)."""
    s = Sel(all_features())
    mb = dict(type="BASE-VARIANT", name="mb", long_name="base variant",
              dops=[dict(name="m_u8", dct=std(8))],
              msgs=[dict(kind="REQUEST", name="m_rq", params=[cc("sid", 0x22, 0), dict(t="VALUE", name="v", dop="m_u8", byte=1)]),
                    dict(kind="POS-RESPONSE", name="m_pr", params=[cc("sid", 0x62, 0), dict(t="VALUE", name="r", dop="m_u8", byte=1)])],
              svcs=[dict(name="m_svc", request="m_rq", pos=["m_pr"])],
              comparams=[dict(id="KSCS.cp_simple", docref="KSCS", value="77"),
                         dict(id="MINISPEC.cp_old", docref="MINISPEC", doctype="COMPARAM-SPEC", value="5")])
    me = dict(type="ECU-VARIANT", name="me", long_name="ecu variant", parents=[dict(layer="mb", docref="MINI", doctype="CONTAINER")])
    old_spec = comparam_subset(dict(name="MINISPEC", long_name="ODX 2.0 comparam spec", category=None,
                                    comparams=[dict(name="cp_old", cptype="STANDARD", param_class="COM", usage="TESTER", dop="os_u8", default="1")],
                                    dops=[dict(name="os_u8", dct=std(8))]))
    old_spec = old_spec.replace("<COMPARAM-SUBSET ", "<COMPARAM-SPEC ").replace("</COMPARAM-SUBSET>", "</COMPARAM-SPEC>").replace(' CATEGORY="APPLICATION"', "")
    docs = {"MINI.odx-d": container(dict(name="MINI", long_name="pre-2.2 container", layers=[mb, me])),
            "KSCS.odx-cs": finish_cs(comparam_subset(subset(s)), s), "MINISPEC.odx-c": old_spec}
    out: Dict[str, bytes] = {n: x.replace('<ODX MODEL-VERSION="2.2.0"', f'<ODX MODEL-VERSION="{model_version}"', 1).encode("utf-8") for n, x in docs.items()}
    out["index.xml"] = index_xml("mini").encode("utf-8")
    return out


def dv_members() -> Dict[str, bytes]:
    """A minimal database of its own for DIAG-VARIABLES: one container, one BASE-VARIANT with one service and two DIAG-VARIABLEs (the first
    with OID, IS-READ-BEFORE-WRITE, SW-VARIABLES, COMM-RELATIONS by reference and by short name, SDGS). No VARIABLE-GROUPS: VariableGroup.from_et
    raises TypeError for every VARIABLE-GROUP element, so the parser cannot read them."""
    s = Sel(set(all_features()) - {"dv_base", "dv_attrs", "dv_sw_variables", "dv_sdgs", "dv_comm_ref"})
    layer_ = dict(type="BASE-VARIANT", name="dvb", long_name="base variant with diag variables",
                  dops=[dict(name="d_u8", dct=std(8))],
                  msgs=[dict(kind="REQUEST", name="d_rq", params=[cc("sid", 0x22, 0), dict(t="VALUE", name="v", dop="d_u8", byte=1)])],
                  svcs=[dict(name="dv_svc", request="d_rq")],
                  variant_xml=diag_variables("dvb", s, True, "dv_svc"))
    out: Dict[str, bytes] = {"DV.odx-d": container(dict(name="DV", long_name="diag variable container", layers=[layer_])).encode("utf-8")}
    out["index.xml"] = index_xml("diag_variables").encode("utf-8")
    return out


def aux_files() -> Dict[str, bytes]:
    """Auxiliary files referenced by PROG-CODE / LIBRARY elements (the loader requires them to exist)."""
    return {"code.java": b"class Code {}\n", "job.jar": b"PK-not-really-a-jar\n", "lib1.jar": b"PK-library\n"}


def index_xml(short_name: str = "kitchen_sink") -> str:
    return ('<?xml version="1.0" encoding="UTF-8"?>\n<CATALOG F-DTD-VERSION="ODX-2.2.0">' + T("SHORT-NAME", short_name) + "<ABLOCKS/></CATALOG>")


def members(off: Iterable[str] = (), model_version: str = "2.2.0") -> Dict[str, bytes]:
    """All members of the kitchen-sink PDX archive (ODX documents first, then auxiliary files, then index.xml).
    model_version: value of the MODEL-VERSION attribute of every ODX document."""
    out: Dict[str, bytes] = {n: x.replace('<ODX MODEL-VERSION="2.2.0"', f'<ODX MODEL-VERSION="{model_version}"', 1).encode("utf-8")
                             for n, x in files(off).items()}
    out.update(aux_files())
    out["index.xml"] = index_xml().encode("utf-8")
    return out
