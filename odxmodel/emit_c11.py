"""The generated "kitchen-sink" database for C11: every construct of the parser that the shipped somersault
example lacks, in 4 ODX documents (2 x .odx-d, 1 x .odx-cs, 1 x .odx-c).

Built from `spec` dicts rendered by odxmodel.emit; constructs the spec language has no word for (admin /
company data, SDGs, state charts, sub-components, libraries, diag variables, dyn-defined spec, variant
patterns, audiences, job parameters, ...) are raw XML built with emit.X/T and placed through the
`*_xml` hooks of emit.layer or injected after rendering.  No odxtools import.
"""
from __future__ import annotations

import re
from typing import Any, Dict, List

from odxmodel.emit import T, X, container, comparam_spec, comparam_subset, names

B = "ksbase"  # the layer that carries most constructs


# ---------------------------------------------------------------------------------------------
# raw XML helpers
# ---------------------------------------------------------------------------------------------
def sdgs(tag: str) -> str:
    """SDGS with a caption-by-value group, a nested group and SDs with SI/TI."""
    return X("SDGS",
             X("SDG", X("SDG-CAPTION", names(tag + "_cap", "caption of " + tag, "caption desc"), ID=tag + ".cap"),
               X("SD", "plain value", SI="si1", TI="ti1"), X("SDG", X("SD", "nested"), SI="inner"), X("SD", "v2"), SI="outer"),
             X("SDG", X("SDG-CAPTION-REF", ID_REF=tag + ".cap"), X("SD", "by ref")))


def admin_data(cd: str, tm: str) -> str:
    return X("ADMIN-DATA", T("LANGUAGE", "en-UK"),
             X("COMPANY-DOC-INFOS", X("COMPANY-DOC-INFO", X("COMPANY-DATA-REF", ID_REF=cd), X("TEAM-MEMBER-REF", ID_REF=tm),
                                      T("DOC-LABEL", "label"), sdgs(cd + ".cdi"))),
             X("DOC-REVISIONS", X("DOC-REVISION", X("TEAM-MEMBER-REF", ID_REF=tm), T("REVISION-LABEL", "1.0"), T("STATE", "draft"),
                                  T("DATE", "1926-07-18T11:11:11+01:00"), T("TOOL", "odxtools"),
                                  X("COMPANY-REVISION-INFOS", X("COMPANY-REVISION-INFO", X("COMPANY-DATA-REF", ID_REF=cd),
                                                                T("REVISION-LABEL", "r1"), T("STATE", "released"))),
                                  X("MODIFICATIONS", X("MODIFICATION", T("CHANGE", "add somersaults"), T("REASON", "fun")),
                                    X("MODIFICATION", T("CHANGE", "second change"))))))


def company_datas(prefix: str) -> str:
    cd = prefix + ".CD"
    return X("COMPANY-DATAS",
             X("COMPANY-DATA", names("acme", "ACME Corp", "a company"), X("ROLES", T("ROLE", "maker"), T("ROLE", "tester")),
               X("TEAM-MEMBERS", X("TEAM-MEMBER", names("doggy", "Doggy"), X("ROLES", T("ROLE", "gymnast")), T("DEPARTMENT", "sport"),
                                   T("ADDRESS", "Some Street 1"), T("ZIP", "12345"), T("CITY", "Town"), T("PHONE", "+0 1234"),
                                   T("FAX", "+0 1235"), T("EMAIL", "doggy@acme.example"), ID=cd + ".doggy", OID="oid.doggy")),
               X("COMPANY-SPECIFIC-INFO",
                 X("RELATED-DOCS", X("RELATED-DOC", X("XDOC", names("xdoc1", "X doc"), T("NUMBER", "1"), T("STATE", "ok"),
                                                     T("DATE", "2020-01-01"), T("PUBLISHER", "pub"), T("URL", "http://x.example/a"),
                                                     T("POSITION", "p. 7")), X("DESC", T("p", "related doc desc")))),
                 sdgs(cd + ".csi")), ID=cd, OID="oid.acme"))


def desc(text: str, ti: str = "en", ext: bool = True) -> str:
    return X("DESC", T("p", text), X("EXTERNAL-DOCS", X("EXTERNAL-DOC", "ext doc text", HREF="http://doc.example/1"),
                                      X("EXTERNAL-DOC", HREF="http://doc.example/2")) if ext else "", TI=ti)


def unit_spec(prefix: str) -> str:
    return X("UNIT-SPEC",
             X("UNIT-GROUPS", X("UNIT-GROUP", names("metric", "Metric"), T("CATEGORY", "COUNTRY"),
                                X("UNIT-REFS", X("UNIT-REF", ID_REF=prefix + ".unit.m"), X("UNIT-REF", ID_REF=prefix + ".unit.km")),
                                OID="oid.ug")),
             X("UNITS", X("UNIT", names("m", "metre"), T("DISPLAY-NAME", "m"), T("FACTOR-SI-TO-UNIT", 1), T("OFFSET-SI-TO-UNIT", 0),
                          X("PHYSICAL-DIMENSION-REF", ID_REF=prefix + ".pd.len"), ID=prefix + ".unit.m", OID="oid.m"),
               X("UNIT", names("km"), T("DISPLAY-NAME", "km"), T("FACTOR-SI-TO-UNIT", 0.001), ID=prefix + ".unit.km")),
             X("PHYSICAL-DIMENSIONS", X("PHYSICAL-DIMENSION", names("len", "length"), T("LENGTH-EXP", 1), T("MASS-EXP", 2), T("TIME-EXP", -1),
                                        T("CURRENT-EXP", 3), T("TEMPERATURE-EXP", 4), T("MOLAR-AMOUNT-EXP", 5), T("LUMINOUS-INTENSITY-EXP", 6),
                                        ID=prefix + ".pd.len", OID="oid.len")),
             sdgs(prefix + ".us"))


def audience(layer: str) -> str:
    return X("AUDIENCE", X("ENABLED-AUDIENCE-REFS", X("ENABLED-AUDIENCE-REF", ID_REF=layer + ".AA.attentive")),
             X("DISABLED-AUDIENCE-REFS", X("DISABLED-AUDIENCE-REF", ID_REF=layer + ".AA.sleepy")),
             IS_SUPPLIER="true", IS_DEVELOPMENT="false", IS_MANUFACTURING="true", IS_AFTERSALES="false", IS_AFTERMARKET="true")


def state_charts(layer: str) -> str:
    p = layer + ".SC"
    return X("STATE-CHARTS",
             X("STATE-CHART", names("mood", "Mood", "state chart desc"), T("SEMANTIC", "SESSION"),
               X("STATE-TRANSITIONS",
                 X("STATE-TRANSITION", names("cheer", "cheer up"), X("SOURCE-SNREF", SHORT_NAME="grumpy"), X("TARGET-SNREF", SHORT_NAME="happy"),
                   X("EXTERNAL-ACCESS-METHOD", names("eam", "external method"), T("METHOD", "do it"), ID=p + ".cheer.eam", OID="oid.eam"),
                   ID=p + ".cheer", OID="oid.cheer"),
                 X("STATE-TRANSITION", names("annoy"), X("SOURCE-SNREF", SHORT_NAME="happy"), X("TARGET-SNREF", SHORT_NAME="grumpy"), ID=p + ".annoy")),
               X("START-STATE-SNREF", SHORT_NAME="grumpy"),
               X("STATES", X("STATE", names("grumpy", "Grumpy"), ID=p + ".grumpy", OID="oid.grumpy"), X("STATE", names("happy"), ID=p + ".happy")),
               ID=p + ".mood", OID="oid.mood"))


def additional_audiences(layer: str) -> str:
    return X("ADDITIONAL-AUDIENCES", X("ADDITIONAL-AUDIENCE", names("attentive", "Attentive", "aa desc"), ID=layer + ".AA.attentive", OID="oid.aa"),
             X("ADDITIONAL-AUDIENCE", names("sleepy"), ID=layer + ".AA.sleepy"))


def libraries(layer: str) -> str:
    return X("LIBRARYS", X("LIBRARY", names("lib1", "Library one", "lib desc"), T("CODE-FILE", "lib1.jar"), T("ENCRYPTION", "rot13"),
                           T("SYNTAX", "JAR"), T("REVISION", "1.2.3"), T("ENTRYPOINT", "main"), ID=layer + ".LIB.lib1", OID="oid.lib1"))


def sub_components(layer: str) -> str:
    return X("SUB-COMPONENTS",
             X("SUB-COMPONENT", names("subc", "Sub component", "subc desc"),
               X("SUB-COMPONENT-PATTERNS", X("SUB-COMPONENT-PATTERN", X("MATCHING-PARAMETERS", X(
                   "MATCHING-PARAMETER", T("EXPECTED-VALUE", "7"), X("DIAG-COMM-SNREF", SHORT_NAME="svc_all"), X("OUT-PARAM-IF-SNREF", SHORT_NAME="echo"))))),
               X("SUB-COMPONENT-PARAM-CONNECTORS", X("SUB-COMPONENT-PARAM-CONNECTOR", names("spc", "param connector"),
                                                     X("DIAG-COMM-SNREF", SHORT_NAME="svc_all"),
                                                     X("OUT-PARAM-IF-REFS", X("OUT-PARAM-IF-SNREF", SHORT_NAME="echo")),
                                                     X("IN-PARAM-IF-REFS", X("IN-PARAM-IF-SNREF", SHORT_NAME="v_u8")),
                                                     ID=layer + ".SUBC.spc", OID="oid.spc")),
               X("TABLE-ROW-CONNECTORS", X("TABLE-ROW-CONNECTOR", names("trc", "row connector"), X("TABLE-REF", ID_REF=layer + ".tab"),
                                           X("TABLE-ROW-SNREF", SHORT_NAME="r1"))),
               X("ENV-DATA-CONNECTORS", X("ENV-DATA-CONNECTOR", names("edc", "env connector"), X("ENV-DATA-DESC-REF", ID_REF=layer + ".envdesc"),
                                          X("ENV-DATA-SNREF", SHORT_NAME="env_all"))),
               X("DTC-CONNECTORS", X("DTC-CONNECTOR", names("dtcc", "dtc connector"), X("DTC-DOP-REF", ID_REF=layer + ".dtcs"),
                                     X("DTC-SNREF", SHORT_NAME="d1"))),
               ID=layer + ".SUBC.subc", OID="oid.subc", SEMANTIC="FUNCTION"))


def diag_variables(layer: str, table: bool) -> str:
    return X("DIAG-VARIABLES",
             X("DIAG-VARIABLE", names("dv1", "Diag variable", "dv desc"), admin_data(layer + ".CD", layer + ".CD.doggy") if table else "",
               X("SW-VARIABLES", X("SW-VARIABLE", names("swv", "software variable", "swv desc"), T("ORIGIN", "somewhere"), OID="oid.swv")),
               X("COMM-RELATIONS",
                 X("COMM-RELATION", X("DESC", T("p", "relation desc")), T("RELATION-TYPE", "READ"),
                   X("DIAG-COMM-REF", ID_REF=layer + ".svc_all") if table else X("DIAG-COMM-SNREF", SHORT_NAME="svc_fg"),
                   X("OUT-PARAM-IF-SNREF", SHORT_NAME="echo") if table else "", VALUE_TYPE="CURRENT"),
                 X("COMM-RELATION", T("RELATION-TYPE", "WRITE"), X("DIAG-COMM-SNREF", SHORT_NAME="svc_all" if table else "svc_fg"),
                   X("IN-PARAM-IF-SNREF", SHORT_NAME="v_u8") if table else "")),
               X("SNREF-TO-TABLEROW", X("TABLE-SNREF", SHORT_NAME="tab"), X("TABLE-ROW-SNREF", SHORT_NAME="r1")) if table else "",
               sdgs(layer + ".dv1"), ID=layer + ".DV.dv1", OID="oid.dv1", IS_READ_BEFORE_WRITE="true"),
             X("DIAG-VARIABLE", names("dv2"), ID=layer + ".DV.dv2"))


def variable_groups(layer: str) -> str:
    """NOT part of the database: VariableGroup.from_et raises TypeError for every VARIABLE-GROUP element (it builds the
    keyword arguments with NamedElement.from_et although the class is an IdentifiableElement), so the construct cannot
    be loaded at all (parser defect outside C11, see REPORT)."""
    return X("VARIABLE-GROUPS", X("VARIABLE-GROUP", names("vg1", "Variable group", "vg desc"), ID=layer + ".VG.vg1", OID="oid.vg1"))


def dyn_defined_spec(layer: str, sn_table: str = "tab2") -> str:
    """Only the SNREF forms: DynIdDefModeInfo.from_et raises UnboundLocalError unless all three *-SNREF elements are
    present (parser defect outside C11, see REPORT), so the *-REF forms cannot be loaded."""
    return X("DYN-DEFINED-SPEC", X("DYN-ID-DEF-MODE-INFOS",
                                   X("DYN-ID-DEF-MODE-INFO", T("DEF-MODE", "DYN-DEF-BY-ID"),
                                     X("CLEAR-DYN-DEF-MESSAGE-SNREF", SHORT_NAME="svc_dyn_clear"),
                                     X("READ-DYN-DEF-MESSAGE-SNREF", SHORT_NAME="svc_dyn_read"),
                                     X("DYN-DEF-MESSAGE-SNREF", SHORT_NAME="svc_dyn_def"),
                                     X("SUPPORTED-DYN-IDS", T("SUPPORTED-DYN-ID", "F200"), T("SUPPORTED-DYN-ID", "F201")),
                                     X("SELECTION-TABLE-REFS", X("SELECTION-TABLE-REF", ID_REF=layer + ".tab"),
                                       X("SELECTION-TABLE-SNREF", SHORT_NAME=sn_table))),
                                   X("DYN-ID-DEF-MODE-INFO", T("DEF-MODE", "OTHER"),
                                     X("CLEAR-DYN-DEF-MESSAGE-SNREF", SHORT_NAME="svc_dyn_clear"),
                                     X("READ-DYN-DEF-MESSAGE-SNREF", SHORT_NAME="svc_dyn_read"),
                                     X("DYN-DEF-MESSAGE-SNREF", SHORT_NAME="svc_dyn_def"),
                                     X("SUPPORTED-DYN-IDS", T("SUPPORTED-DYN-ID", "F300")))))


def matching_parameter(tag: str, value: str, path: bool, base: bool) -> str:
    return X(tag, T("EXPECTED-VALUE", value), X("DIAG-COMM-SNREF", SHORT_NAME="svc_all"),
             X("OUT-PARAM-IF-SNPATHREF", SHORT_NAME_PATH="mx.c1.a") if path else X("OUT-PARAM-IF-SNREF", SHORT_NAME="echo"),
             T("USE-PHYSICAL-ADDRESSING", "false") if base else "")


def base_variant_pattern() -> str:
    return X("BASE-VARIANT-PATTERN", X("MATCHING-BASE-VARIANT-PARAMETERS",
                                       matching_parameter("MATCHING-BASE-VARIANT-PARAMETER", "7", False, True),
                                       matching_parameter("MATCHING-BASE-VARIANT-PARAMETER", "8", True, False)))


def ecu_variant_patterns() -> str:
    return X("ECU-VARIANT-PATTERNS",
             X("ECU-VARIANT-PATTERN", X("MATCHING-PARAMETERS", matching_parameter("MATCHING-PARAMETER", "1", False, False),
                                        matching_parameter("MATCHING-PARAMETER", "2", True, False))),
             X("ECU-VARIANT-PATTERN", X("MATCHING-PARAMETERS", matching_parameter("MATCHING-PARAMETER", "3", False, False))))


def service_extras(layer: str) -> str:
    """Sub-elements of DIAG-SERVICE the spec language has no word for (placed via the audience_xml hook)."""
    return (admin_data(layer + ".CD", layer + ".CD.doggy") + sdgs(layer + ".svc_all") + audience(layer) +
            X("PROTOCOL-SNREFS", X("PROTOCOL-SNREF", SHORT_NAME="ksproto")) +
            X("RELATED-DIAG-COMM-REFS", X("RELATED-DIAG-COMM-REF", T("RELATION-TYPE", "follow-up"), ID_REF=layer + ".svc_min")) +
            X("PRE-CONDITION-STATE-REFS", X("PRE-CONDITION-STATE-REF", ID_REF=layer + ".SC.grumpy")) +
            X("STATE-TRANSITION-REFS", X("STATE-TRANSITION-REF", ID_REF=layer + ".SC.cheer")) +
            X("COMPARAM-REFS", X("COMPARAM-REF", T("SIMPLE-VALUE", "17"), X("DESC", T("p", "svc comparam")), X("PROTOCOL-SNREF", SHORT_NAME="ksproto"),
                                 ID_REF="KSCS.cp_simple", DOCREF="KSCS", DOCTYPE="COMPARAM-SUBSET")) +
            X("POS-RESPONSE-SUPPRESSABLE", T("BITMASK", "128"), X("CODED-CONST-SNREF", SHORT_NAME="sid")))


def job_extras(layer: str) -> str:
    return (X("INPUT-PARAMS", X("INPUT-PARAM", names("inp", "Input", "in desc"), T("PHYSICAL-DEFAULT-VALUE", "3"),
                                X("DOP-BASE-REF", ID_REF=layer + ".u8"), OID="oid.inp", SEMANTIC="DATA")) +
            X("OUTPUT-PARAMS", X("OUTPUT-PARAM", names("outp", "Output", "out desc"), X("DOP-BASE-REF", ID_REF=layer + ".u8"),
                                 ID=layer + ".job.outp", OID="oid.outp", SEMANTIC="DATA")) +
            X("NEG-OUTPUT-PARAMS", X("NEG-OUTPUT-PARAM", names("negp", "Neg output", "neg desc"), X("DOP-BASE-REF", ID_REF=layer + ".u8"))))


# ---------------------------------------------------------------------------------------------
# the codec constructs (spec language of emit.py)
# ---------------------------------------------------------------------------------------------
def std(bits: int, base: str = "A_UINT32", **kw: Any) -> Dict[str, Any]:
    return dict(k="STD", base=base, bits=bits, **kw)


def dops() -> List[Dict[str, Any]]:
    lim = lambda v, t=None: {"v": v, "type": t}
    return [
        dict(name="u8", dct=std(8), long_name="unsigned byte", desc="plain byte"),
        dict(name="u16le", dct=std(16, hilo=False), phys={"base": "A_UINT32", "radix": "HEX"}),
        dict(name="u4m", dct=std(8, mask=0x0F, condensed=True)),
        dict(name="i8", dct=std(8, base="A_INT32", enc="2C", hilo=True)),
        dict(name="f32", dct=std(32, base="A_FLOAT32"), phys={"base": "A_FLOAT32", "precision": 2}),
        dict(name="lin", dct=std(8), phys={"base": "A_FLOAT64", "precision": 1}, unit="unit.m",
             cm=dict(cat="LINEAR", i2p=[dict(label="lbl", lo=lim(0, "CLOSED"), hi=lim(200, "OPEN"), num=[1, 0.5], den=[2])]),
             internal_constr=dict(lo=lim(0, "CLOSED"), hi=lim(250, "CLOSED"),
                                  scales=[dict(label="na", lo=lim(240, "CLOSED"), hi=lim(250, "CLOSED"), validity="NOT-AVAILABLE"),
                                          dict(lo=lim(230), hi=lim(239), validity="NOT-DEFINED")]),
             phys_constr=dict(lo=lim(0.5, "OPEN"), hi=lim(63, "CLOSED"),
                              scales=[dict(label="pna", lo=lim(60, "OPEN"), hi=lim(63), validity="NOT-VALID")])),
        dict(name="sclin", dct=std(8), phys="A_FLOAT64",
             cm=dict(cat="SCALE-LINEAR", i2p=[dict(lo=lim(0, "CLOSED"), hi=lim(10, "OPEN"), num=[0, 1], den=[1]),
                                              dict(lo=lim(10, "CLOSED"), hi=lim(None, "INFINITE"), num=[5, 0], den=[1], inv=12)])),
        dict(name="tabintp", dct=std(8), phys="A_FLOAT64",
             cm=dict(cat="TAB-INTP", i2p=[dict(lo=lim(0), const=1.5), dict(lo=lim(10), const=3.5), dict(lo=lim(20), const=9)])),
        dict(name="ratfunc", dct=std(8), phys="A_FLOAT64",
             cm=dict(cat="RAT-FUNC", i2p=[dict(lo=lim(1), hi=lim(100), num=[1, 2], den=[3, 1])],
                     p2i=[dict(lo=lim(0.2), hi=lim(2), num=[1, -3], den=[-2, 1])])),
        dict(name="scratfunc", dct=std(8), phys="A_FLOAT64",
             cm=dict(cat="SCALE-RAT-FUNC", i2p=[dict(lo=lim(0), hi=lim(9), num=[0, 1], den=[1]), dict(lo=lim(10), hi=lim(99), num=[1, 1], den=[2])],
                     p2i=[dict(lo=lim(0), hi=lim(9), num=[0, 1], den=[1]), dict(lo=lim(5.5), hi=lim(50), num=[-1, 2], den=[1])])),
        dict(name="texttab", dct=std(8), phys="A_UNICODE2STRING",
             cm=dict(cat="TEXTTABLE", i2p=[dict(label="off", lo=lim(0), hi=lim(0), const="off"), dict(lo=lim(1), hi=lim(5), const="on", inv=2),
                                           dict(lo=lim(6, "OPEN"), hi=lim(9, "CLOSED"), const="a<b&c")],
                     default_phys="undefined", default_inv=255)),
        dict(name="compucode", dct=std(8), phys="A_UINT32", cm=dict(cat="COMPUCODE", i2p=[], progcode=True)),
        dict(name="str_mm", dct=dict(k="MINMAX", base="A_ASCIISTRING", enc="ISO-8859-1", min=1, max=10, term="ZERO"), phys="A_UNICODE2STRING"),
        dict(name="utf8_eop", dct=dict(k="MINMAX", base="A_UTF8STRING", min=0, term="END-OF-PDU"), phys="A_UNICODE2STRING"),
        dict(name="bytes_hexff", dct=dict(k="MINMAX", base="A_BYTEFIELD", min=1, max=4, term="HEX-FF"), phys="A_BYTEFIELD"),
        dict(name="bytes_lead", dct=dict(k="LEAD", base="A_BYTEFIELD", bits=8), phys="A_BYTEFIELD"),
        dict(name="bytes_plen", dct=dict(k="PLEN", base="A_BYTEFIELD", key_id=B + ".rq_all.lk"), phys="A_BYTEFIELD"),
        dict(kind="dtcdop", name="dtcs", dct=std(24), dtcs=[dict(name="d1", code=0x0101, level=2, text="first <dtc>"), dict(name="d2", code=0x0102)]),
        dict(kind="dtcdop", name="dtcs2", dct=std(24), dtcs=[dict(name="e1", code=0x0201)]),
        dict(kind="struct", name="st_item", byte_size=2, long_name="item", desc="an item",
             params=[dict(t="VALUE", name="a", dop="u8", byte=0), dict(t="VALUE", name="b", dop="u8", byte=1, default="5")]),
        dict(kind="struct", name="st_other", params=[dict(t="VALUE", name="c", dop="u16le", byte=0)]),
        dict(kind="struct", name="st_env", params=[dict(t="VALUE", name="dtc", dop="dtcs", byte=0), dict(t="VALUE", name="env", dop="envdesc", byte=3)]),
        dict(kind="envdata", name="env_all", all=True, params=[dict(t="VALUE", name="e0", dop="u8", byte=0)]),
        dict(kind="envdata", name="env_d1", dtcs=[0x0101, 0x0102], params=[dict(t="VALUE", name="e1", dop="u16le", byte=0)]),
        dict(kind="envdesc", name="envdesc", param="dtc", envdatas=["env_all", "env_d1"]),
        dict(kind="sfield", name="sf", of="st_item", n=2, item_size=3),
        dict(kind="dlfield", name="dlf", of="st_item", offset=1, count=dict(byte=0, bit=1, dop="u4m")),
        dict(kind="eopfield", name="eopf", of="st_item", min=0, max=5),
        dict(kind="eopfield", name="eopf_sn", of="st_other", snref=True),
        dict(kind="emfield", name="emf", of="st_item", end_dop="u8", term=255),
        dict(kind="emfield", name="emf_env", of_env="envdesc", end_dop="u8", term=0),
        dict(kind="mux", name="mx", byte=1, key=dict(byte=0, bit=0, dop="u8"),
             cases=[dict(name="c1", lo={"v": 1, "type": "CLOSED"}, hi={"v": 3, "type": "CLOSED"}, struct="st_item"),
                    dict(name="c2", lo={"v": 4}, hi={"v": 4}, struct="st_other", snref=True),
                    dict(name="c3", lo={"v": 5}, hi={"v": 6})],
             default=dict(name="dflt", struct="st_item")),
        dict(kind="mux", name="mx2", key=dict(byte=0, dop="u8"), cases=[], default=dict(name="only", struct="st_other", snref=True)),
        dict(kind="table", name="tab", key_dop="u8", key_label="the key", struct_label="the struct", semantic="TABSEM", long_name="Table", desc="a table",
             rows=[dict(name="r1", key=1, struct="st_item"), dict(name="r2", key=2, dop="u16le"), dict(name="r3", key=3, struct="st_other", snref=True),
                   dict(name="r4", key=4, dop="u8", snref=True)]),
        dict(kind="table", name="tab2", key_dop="u8", rows=[dict(name="q1", key=1, struct="st_item")]),
    ]


def messages() -> List[Dict[str, Any]]:
    cc = lambda name, v, byte=None, bits=8: dict(t="CODED-CONST", name=name, dct=std(bits), value=v, byte=byte)
    return [
        dict(kind="REQUEST", name="rq_all", long_name="all request parameter kinds", desc="request desc", params=[
            cc("sid", 0x22, 0), dict(t="VALUE", name="v_u8", dop="u8", byte=1, semantic="DATA", oid="oid.v_u8", long_name="a byte", desc="param desc"),
            dict(t="VALUE", name="v_lin", dop="lin", byte=2, default="10"),
            dict(t="PHYS-CONST", name="pc", dop="u8", byte=3, const="7"),
            dict(t="RESERVED", name="rsv", bits=4, byte=4, bit=2),
            dict(t="SYSTEM", name="sys", dop="u16le", byte=5, sysparam="YEAR"),
            dict(t="VALUE", name="v_sn", dop="u4m", snref=True, byte=7),
            dict(t="VALUE", name="v_lib", dop="@kslib.lib_u8", byte=8, docref="KSLIB", doctype="CONTAINER"),
            dict(t="TABLE-KEY", name="tk", table="tab", id=B + ".rq_all.tk", byte=9),
            dict(t="TABLE-STRUCT", name="ts", key_id=B + ".rq_all.tk", byte=10),
            dict(t="LENGTH-KEY", name="lk", dop="u8", id=B + ".rq_all.lk", byte=13, semantic="LK"),
            dict(t="VALUE", name="v_plen", dop="bytes_plen", byte=14),
        ]),
        dict(kind="REQUEST", name="rq_min", params=[cc("sid", 0x3E, 0), dict(t="VALUE", name="x", dop="i8", byte=1, bit=0)]),
        dict(kind="REQUEST", name="rq_tk", params=[
            cc("sid", 0x23, 0), dict(t="TABLE-KEY", name="tk1", table="tab", row="r2", id=B + ".rq_tk.tk1", byte=1),
            dict(t="TABLE-KEY", name="tk2", table="tab2", snref=True, id=B + ".rq_tk.tk2", byte=2),
            dict(t="TABLE-STRUCT", name="ts2", key="tk2", key_snref=True, byte=3)]),
        dict(kind="REQUEST", name="rq_str", params=[cc("sid", 0x2E, 0), dict(t="VALUE", name="s1", dop="str_mm", byte=1),
                                                     dict(t="VALUE", name="b1", dop="bytes_lead"), dict(t="VALUE", name="f", dop="f32"),
                                                     dict(t="VALUE", name="s2", dop="utf8_eop")]),
        dict(kind="POS-RESPONSE", name="pr_all", long_name="all response parameter kinds", params=[
            cc("sid", 0x62, 0), dict(t="MATCHING-REQUEST-PARAM", name="echo", rq_byte=1, len=1, byte=1),
            dict(t="VALUE", name="mx", dop="mx", byte=2), dict(t="VALUE", name="sf", dop="sf", byte=6),
            dict(t="TABLE-ENTRY", name="te", table="tab", row="r1", target="STRUCT", byte=12),
            dict(t="VALUE", name="t1", dop="texttab", byte=14), dict(t="VALUE", name="r1", dop="ratfunc", byte=15),
            dict(t="VALUE", name="eop", dop="eopf", byte=16)]),
        dict(kind="POS-RESPONSE", name="pr_min", params=[cc("sid", 0x7E, 0), dict(t="VALUE", name="y", dop="sclin", byte=1),
                                                         dict(t="VALUE", name="z", dop="tabintp", byte=2), dict(t="VALUE", name="w", dop="scratfunc", byte=3),
                                                         dict(t="VALUE", name="cc", dop="compucode", byte=4)]),
        dict(kind="POS-RESPONSE", name="pr_dyn", params=[cc("sid", 0x63, 0), dict(t="VALUE", name="dl", dop="dlf", byte=1),
                                                         dict(t="VALUE", name="em", dop="emf"), dict(t="VALUE", name="hx", dop="bytes_hexff"),
                                                         dict(t="DYNAMIC", name="dyn"), dict(t="VALUE", name="m2", dop="mx2")]),
        dict(kind="POS-RESPONSE", name="pr_env", params=[cc("sid", 0x59, 0), dict(t="VALUE", name="dtc", dop="dtcs", byte=1),
                                                         dict(t="VALUE", name="env", dop="envdesc", byte=4)]),
        dict(kind="NEG-RESPONSE", name="nr", params=[cc("nsid", 0x7F, 0), dict(t="MATCHING-REQUEST-PARAM", name="rsid", rq_byte=0, len=1, byte=1),
                                                     dict(t="NRC-CONST", name="nrc", dct=std(8), values=[0x10, 0x11, 0x12], byte=2)]),
        dict(kind="GLOBAL-NEG-RESPONSE", name="gnr", params=[cc("nsid", 0x7F, 0), dict(t="VALUE", name="gsid", dop="u8", byte=1),
                                                             dict(t="VALUE", name="gnrc", dop="u8", byte=2)]),
    ]


def services() -> List[Dict[str, Any]]:
    return [
        dict(name="svc_all", long_name="service with everything", desc="service desc", request="rq_all", pos=["pr_all", "pr_env"], neg=["nr"],
             funct_classes=["fc1", "fc2"], semantic="FUNCTION", addressing="FUNCTIONAL-OR-PHYSICAL", transmission_mode="SEND-AND-RECEIVE",
             audience_xml=service_extras(B)),
        dict(name="svc_min", request="rq_min", pos=["pr_min"]),
        dict(name="svc_tk", request="rq_tk", pos=["pr_dyn"], addressing="PHYSICAL", transmission_mode="SEND-ONLY"),
        dict(name="svc_str", request="rq_str", pos=["pr_min"], neg=["nr"]),
        dict(job=True, name="job", long_name="a job", funct_classes=["fc1"]),
        dict(name="svc_dyn_clear", request="rq_min"), dict(name="svc_dyn_read", request="rq_min"), dict(name="svc_dyn_def", request="rq_min"),
    ]


def ksbase() -> Dict[str, Any]:
    return dict(
        type="BASE-VARIANT", name=B, long_name="kitchen sink base variant", desc="layer desc",
        head_xml=admin_data(B + ".CD", B + ".CD.doggy") + company_datas(B),
        funct_classes=[dict(name="fc1", long_name="class one"), "fc2"],
        dops=dops(), unit_spec_xml=unit_spec(B), msgs=messages(), svcs=services(),
        imports=[dict(id="kslib", docref="KSLIB", doctype="CONTAINER")],
        mid_xml=state_charts(B) + additional_audiences(B) + sub_components(B) + libraries(B) + sdgs(B),
        comparams=[dict(id="KSCS.cp_simple", docref="KSCS", value="1000", protocol="ksproto", prot_stack="stack1"),
                   dict(id="KSCS.cp_complex", docref="KSCS", complex=["1", ["2", "3"], "4"], protocol="ksproto")],
        variant_xml=diag_variables(B, True) + dyn_defined_spec(B) + base_variant_pattern(),
        parents=[dict(layer="ksproto", not_inherited=dict(comms=["proto_svc"], dops=["p_dop"], gnrs=["p_gnr"])),
                 dict(layer="ksshared", not_inherited=dict(tables=["sh_tab"], vars=["dv2"])), dict(layer="ksfg")],
    )


def container_ks() -> Dict[str, Any]:
    cc = lambda name, v, byte=None: dict(t="CODED-CONST", name=name, dct=std(8), value=v, byte=byte)
    proto = dict(
        type="PROTOCOL", name="ksproto", long_name="protocol", comparam_spec="KSC", prot_stack="stack1",
        dops=[dict(name="p_dop", dct=std(8)), dict(name="p_u8", dct=std(8))],
        msgs=[dict(kind="REQUEST", name="p_rq", params=[cc("sid", 0x10, 0), dict(t="VALUE", name="sess", dop="p_u8", byte=1)]),
              dict(kind="POS-RESPONSE", name="p_pr", params=[cc("sid", 0x50, 0), dict(t="VALUE", name="sess", dop="p_u8", byte=1)]),
              dict(kind="GLOBAL-NEG-RESPONSE", name="p_gnr", params=[cc("nsid", 0x7F, 0)]),
              dict(kind="GLOBAL-NEG-RESPONSE", name="p_gnr2", params=[cc("nsid", 0x7F, 0), dict(t="VALUE", name="rs", dop="p_u8", byte=1)])],
        svcs=[dict(name="proto_svc", request="p_rq", pos=["p_pr"]), dict(name="proto_svc2", request="p_rq", pos=["p_pr"], semantic="SESSION")],
        comparams=[dict(id="KSCS.cp_simple", docref="KSCS", value="500")],
    )
    fg = dict(
        type="FUNCTIONAL-GROUP", name="ksfg", long_name="functional group", parents=[dict(layer="ksproto")],
        dops=[dict(name="fg_u8", dct=std(8))],
        msgs=[dict(kind="REQUEST", name="fg_rq", params=[cc("sid", 0x11, 0), dict(t="VALUE", name="rt", dop="fg_u8", byte=1)])],
        svcs=[dict(name="svc_fg", request="fg_rq")],
        variant_xml=diag_variables("ksfg", False),
    )
    shared = dict(
        type="ECU-SHARED-DATA", name="ksshared", long_name="shared data",
        dops=[dict(name="sh_u8", dct=std(8)), dict(kind="struct", name="sh_st", params=[dict(t="VALUE", name="a", dop="sh_u8", byte=0)]),
              dict(kind="table", name="sh_tab", key_dop="sh_u8", rows=[dict(name="s1", key=1, struct="sh_st")])],
        msgs=[dict(kind="REQUEST", name="sh_rq", params=[cc("sid", 0x12, 0)])], svcs=[dict(name="svc_fg", request="sh_rq"), dict(name="svc_sh", request="sh_rq")],
        tail_xml=diag_variables("ksshared", False),
    )
    ecu = dict(
        type="ECU-VARIANT", name="ksecu", long_name="ecu variant",
        parents=[dict(layer=B, not_inherited=dict(comms=["svc_str"], dops=["f32"], tables=["tab2"]))],
        dops=[dict(name="ev_u8", dct=std(8))],
        msgs=[dict(kind="REQUEST", name="ev_rq", params=[cc("sid", 0x31, 0), dict(t="VALUE", name="rid", dop="ev_u8", byte=1)]),
              dict(kind="POS-RESPONSE", name="ev_pr", params=[cc("sid", 0x71, 0), dict(t="MATCHING-REQUEST-PARAM", name="rid", rq_byte=1, len=1, byte=1)])],
        svcs=[dict(name="svc_ev", request="ev_rq", pos=["ev_pr"]), dict(ref=B + ".svc_min")],
        variant_xml=ecu_variant_patterns() + dyn_defined_spec(B, "tab") + diag_variables("ksecu", False),
    )
    return dict(name="KS", long_name="kitchen sink container", layers=[proto, fg, shared, ksbase(), ecu],
                head_xml=desc("container desc") + admin_data("KS.CD", "KS.CD.doggy") + company_datas("KS") + sdgs("KS"))


def container_lib() -> Dict[str, Any]:
    lib = dict(type="ECU-SHARED-DATA", name="kslib", long_name="library layer in a second container",
               dops=[dict(name="lib_u8", dct=std(8), long_name="byte of the library")])
    return dict(name="KSLIB", long_name="second container", layers=[lib])


def subset() -> Dict[str, Any]:
    return dict(
        name="KSCS", long_name="kitchen sink comparam subset", category="APPLICATION",
        comparams=[dict(name="cp_simple", long_name="simple comparam", cptype="STANDARD", param_class="TIMING", usage="ECU-COMM", dop="cs_u32",
                        default="100", display_level=1),
                   dict(name="cp_second", cptype="OPTIONAL", param_class="COM", usage="TESTER", dop="cs_text", default="fast")],
        complex=[dict(name="cp_complex", long_name="complex comparam", cptype="STANDARD", param_class="UNIQUE_ID", usage="ECU-COMM", allow_multiple=True,
                      subs=[dict(name="sub1", dop="cs_u32", default="1", param_class="UNIQUE_ID"),
                            dict(name="sub2", param_class="UNIQUE_ID", subs=[dict(name="sub2a", dop="cs_u32", default="2", param_class="UNIQUE_ID"),
                                                                              dict(name="sub2b", dop="cs_u32", default="3", param_class="UNIQUE_ID")]),
                            dict(name="sub3", dop="cs_u32", default="4", param_class="UNIQUE_ID")],
                      default_complex=[["1", ["2", "3"], "4"], ["5", ["6", "7"], "8"]])],
        dops=[dict(name="cs_u32", dct=std(32), unit="unit.m"),
              dict(name="cs_text", dct=std(8), phys="A_UNICODE2STRING",
                   cm=dict(cat="TEXTTABLE", i2p=[dict(lo={"v": 0}, hi={"v": 0}, const="slow"), dict(lo={"v": 1}, hi={"v": 1}, const="fast")]))],
        tail_xml=unit_spec("KSCS") + desc("subset desc", ext=False) + admin_data("KSCS.CD", "KSCS.CD.doggy") + company_datas("KSCS") + sdgs("KSCS"),
    )


def spec() -> Dict[str, Any]:
    return dict(name="KSC", prot_stacks=[dict(name="stack1", subsets=[("KSCS", "KSCS")]),
                                         dict(name="stack2", pdu_protocol_type="ISO_14230_3_on_ISO_14230_2", physical_link_type="ISO_14230_1_UART",
                                              subsets=[("KSCS", "KSCS")])])


# ---------------------------------------------------------------------------------------------
# post-processing (constructs neither the spec language nor a hook can place)
# ---------------------------------------------------------------------------------------------
def _attrs(xml: str, tag: str, ident: str, extra: str) -> str:
    old = f'<{tag} ID="{ident}"'
    assert xml.count(old) == 1, (tag, ident, xml.count(old))
    return xml.replace(old, old + " " + extra)


def _before_end(xml: str, tag: str, ident: str, extra: str) -> str:
    """Insert extra before the end tag of the element <tag ID=ident ...>."""
    start = xml.index(f'<{tag} ID="{ident}"')
    end = xml.index(f"</{tag}>", start)
    return xml[:end] + extra + xml[end:]


def finish_ks(xml: str) -> str:
    xml = re.sub(r'ID-REF="[^".]+\.@', 'ID-REF="', xml)  # references into another layer: "@layer.name"
    xml = _attrs(xml, "DIAG-SERVICE", B + ".svc_all",
                 'OID="oid.svc_all" DIAGNOSTIC-CLASS="STARTCOMM" IS-MANDATORY="true" IS-EXECUTABLE="false" IS-FINAL="true" IS-CYCLIC="true" IS-MULTIPLE="true"')
    for nm, dc in (("svc_dyn_clear", "CLEAR-DYN-DEF-MESSAGE"), ("svc_dyn_read", "READ-DYN-DEFINED-MESSAGE"), ("svc_dyn_def", "DYN-DEF-MESSAGE")):
        xml = _attrs(xml, "DIAG-SERVICE", f"{B}.{nm}", f'DIAGNOSTIC-CLASS="{dc}"')
    xml = _attrs(xml, "SINGLE-ECU-JOB", B + ".job", 'OID="oid.job" SEMANTIC="JOBSEM" IS-MANDATORY="false" IS-EXECUTABLE="true" IS-FINAL="false"')
    xml = _before_end(xml, "SINGLE-ECU-JOB", B + ".job", job_extras(B) + audience(B) + sdgs(B + ".job"))
    xml = xml.replace("<REVISION>1</REVISION></PROG-CODE></PROG-CODES>",
                      "<REVISION>1</REVISION><ENCRYPTION>none</ENCRYPTION><ENTRYPOINT>run</ENTRYPOINT>" +
                      X("LIBRARY-REFS", X("LIBRARY-REF", ID_REF=B + ".LIB.lib1")) + "</PROG-CODE></PROG-CODES>", 1)
    xml = _attrs(xml, "DATA-OBJECT-PROP", B + ".u8", 'OID="oid.u8"')
    xml = _before_end(xml, "DATA-OBJECT-PROP", B + ".u8", "")
    xml = xml.replace(f'<DATA-OBJECT-PROP ID="{B}.u8" OID="oid.u8"><SHORT-NAME>u8</SHORT-NAME><LONG-NAME>unsigned byte</LONG-NAME><DESC><p>plain byte</p></DESC>',
                      f'<DATA-OBJECT-PROP ID="{B}.u8" OID="oid.u8"><SHORT-NAME>u8</SHORT-NAME><LONG-NAME>unsigned byte</LONG-NAME><DESC><p>plain byte</p></DESC>' +
                      admin_data(B + ".CD", B + ".CD.doggy") + sdgs(B + ".u8"), 1)
    xml = _attrs(xml, "STRUCTURE", B + ".st_item", 'OID="oid.st_item" IS-VISIBLE="true"')
    xml = _before_end(xml, "STRUCTURE", B + ".st_item", sdgs(B + ".st_item"))
    xml = _attrs(xml, "DTC-DOP", B + ".dtcs", 'OID="oid.dtcs" IS-VISIBLE="true"')
    xml = _before_end(xml, "DTC-DOP", B + ".dtcs",
                      X("LINKED-DTC-DOPS", X("LINKED-DTC-DOP", X("NOT-INHERITED-DTC-SNREFS", X("NOT-INHERITED-DTC-SNREF", SHORT_NAME="e1")),
                                             X("DTC-DOP-REF", ID_REF=B + ".dtcs2"))))
    xml = xml.replace(f'<DTC ID="{B}.DTC.d1">', f'<DTC ID="{B}.DTC.d1" OID="oid.d1" IS-TEMPORARY="true">', 1)
    xml = _before_end(xml, "DTC", B + ".DTC.d1", sdgs(B + ".d1"))
    xml = xml.replace(f'<DTC ID="{B}.DTC.e1">', f'<DTC-REF ID-REF="{B}.DTC.d2"/><DTC ID="{B}.DTC.e1">', 1)
    for tag, ident in (("STATIC-FIELD", "sf"), ("DYNAMIC-LENGTH-FIELD", "dlf"), ("END-OF-PDU-FIELD", "eopf"), ("DYNAMIC-ENDMARKER-FIELD", "emf"),
                       ("MUX", "mx"), ("ENV-DATA-DESC", "envdesc"), ("ENV-DATA", "env_all")):
        xml = _attrs(xml, tag, f"{B}.{ident}", f'OID="oid.{ident}"' + (' IS-VISIBLE="false"' if tag not in ("ENV-DATA-DESC", "ENV-DATA") else ""))
    xml = _attrs(xml, "TABLE", B + ".tab", 'OID="oid.tab"')
    xml = _before_end(xml, "TABLE", B + ".tab",
                      X("TABLE-ROW-REF", ID_REF=B + ".tab2.q1") +
                      X("TABLE-DIAG-COMM-CONNECTORS", X("TABLE-DIAG-COMM-CONNECTOR", T("SEMANTIC", "TDCSEM"), X("DIAG-COMM-REF", ID_REF=B + ".svc_min")),
                        X("TABLE-DIAG-COMM-CONNECTOR", T("SEMANTIC", "TDCSEM2"), X("DIAG-COMM-SNREF", SHORT_NAME="svc_tk"))) + sdgs(B + ".tab") +
                      admin_data(B + ".CD", B + ".CD.doggy"))
    xml = _attrs(xml, "TABLE-ROW", B + ".tab.r1", 'OID="oid.r1" SEMANTIC="ROWSEM" IS-EXECUTABLE="true" IS-MANDATORY="false" IS-FINAL="true"')
    xml = _before_end(xml, "TABLE-ROW", B + ".tab.r1",
                      sdgs(B + ".tab.r1") + audience(B) + X("FUNCT-CLASS-REFS", X("FUNCT-CLASS-REF", ID_REF=B + ".fc1")) +
                      X("STATE-TRANSITION-REFS", X("STATE-TRANSITION-REF", ID_REF=B + ".SC.cheer")) +
                      X("PRE-CONDITION-STATE-REFS", X("PRE-CONDITION-STATE-REF", ID_REF=B + ".SC.happy")) + admin_data(B + ".CD", B + ".CD.doggy"))
    xml = xml.replace('<TABLE-ROW ID="ksbase.tab.r1" OID="oid.r1" SEMANTIC="ROWSEM" IS-EXECUTABLE="true" IS-MANDATORY="false" IS-FINAL="true"><SHORT-NAME>r1</SHORT-NAME>',
                      '<TABLE-ROW ID="ksbase.tab.r1" OID="oid.r1" SEMANTIC="ROWSEM" IS-EXECUTABLE="true" IS-MANDATORY="false" IS-FINAL="true"><SHORT-NAME>r1</SHORT-NAME>'
                      '<LONG-NAME>row one</LONG-NAME><DESC><p>row desc</p></DESC>', 1)
    xml = _attrs(xml, "REQUEST", B + ".rq_all", 'OID="oid.rq_all"')
    xml = _before_end(xml, "REQUEST", B + ".rq_all", admin_data(B + ".CD", B + ".CD.doggy") + sdgs(B + ".rq_all"))
    xml = _attrs(xml, "POS-RESPONSE", B + ".pr_all", 'OID="oid.pr_all"')
    xml = _before_end(xml, "POS-RESPONSE", B + ".pr_all", admin_data(B + ".CD", B + ".CD.doggy") + sdgs(B + ".pr_all"))
    xml = _attrs(xml, "FUNCT-CLASS", B + ".fc1", 'OID="oid.fc1"')
    xml = _before_end(xml, "FUNCT-CLASS", B + ".fc1", admin_data(B + ".CD", B + ".CD.doggy"))
    xml = _attrs(xml, "BASE-VARIANT", B, 'OID="oid.ksbase"')
    xml = _attrs(xml, "DIAG-LAYER-CONTAINER", "KS", 'OID="oid.KS"')
    # an SDG inside a parameter, a DIAG-DATA-DICTIONARY-SPEC level ADMIN-DATA and SDGS
    xml = xml.replace('<SHORT-NAME>v_u8</SHORT-NAME><LONG-NAME>a byte</LONG-NAME><DESC><p>param desc</p></DESC>',
                      '<SHORT-NAME>v_u8</SHORT-NAME><LONG-NAME>a byte</LONG-NAME><DESC><p>param desc</p></DESC>' + sdgs(B + ".v_u8"), 1)
    i = xml.index("<DIAG-DATA-DICTIONARY-SPEC>", xml.index(f'<BASE-VARIANT ID="{B}"'))
    j = xml.index("</DIAG-DATA-DICTIONARY-SPEC>", i)
    xml = xml[:i] + "<DIAG-DATA-DICTIONARY-SPEC>" + admin_data(B + ".CD", B + ".CD.doggy") + xml[i + len("<DIAG-DATA-DICTIONARY-SPEC>"):j] + sdgs(B + ".ddds") + xml[j:]
    return xml


def finish_cs(xml: str) -> str:
    xml = _attrs(xml, "COMPARAM-SUBSET", "KSCS", 'OID="oid.KSCS"')
    xml = _attrs(xml, "COMPARAM", "KSCS.cp_simple", 'OID="oid.cp_simple"')
    xml = xml.replace('<LONG-NAME>simple comparam</LONG-NAME>', '<LONG-NAME>simple comparam</LONG-NAME><DESC><p>cp desc</p></DESC>', 1)
    return xml


def finish_c(xml: str) -> str:
    xml = _attrs(xml, "COMPARAM-SPEC", "KSC", 'OID="oid.KSC"')
    xml = xml.replace("<SHORT-NAME>KSC</SHORT-NAME>", "<SHORT-NAME>KSC</SHORT-NAME><LONG-NAME>kitchen sink spec</LONG-NAME>" + desc("spec desc", ext=False) +
                      admin_data("KSC.CD", "KSC.CD.doggy") + company_datas("KSC") + sdgs("KSC"), 1)
    xml = _attrs(xml, "PROT-STACK", "KSC.stack1", 'OID="oid.stack1"')
    xml = xml.replace("<SHORT-NAME>stack1</SHORT-NAME>", "<SHORT-NAME>stack1</SHORT-NAME><LONG-NAME>stack one</LONG-NAME><DESC><p>stack desc</p></DESC>", 1)
    return xml


def files() -> Dict[str, str]:
    """{file name: XML text} of the kitchen-sink database."""
    return {
        "KS.odx-d": finish_ks(container(container_ks())),
        "KSLIB.odx-d": container(container_lib()),
        "KSCS.odx-cs": finish_cs(comparam_subset(subset())),
        "KSC.odx-c": finish_c(comparam_spec(spec())),
    }


def aux_files() -> Dict[str, bytes]:
    """Auxiliary files referenced by PROG-CODE / LIBRARY elements (the loader requires them to exist)."""
    return {"code.java": b"class Code {}\n", "job.jar": b"PK-not-really-a-jar\n", "lib1.jar": b"PK-library\n"}


def index_xml(short_name: str = "kitchen_sink") -> str:
    return ('<?xml version="1.0" encoding="UTF-8"?>\n<CATALOG F-DTD-VERSION="ODX-2.2.0">' + T("SHORT-NAME", short_name) + "<ABLOCKS/></CATALOG>")


def members() -> Dict[str, bytes]:
    """All members of the kitchen-sink PDX archive, ODX documents first."""
    out: Dict[str, bytes] = {n: x.encode("utf-8") for n, x in files().items()}
    out.update(aux_files())
    out["index.xml"] = index_xml().encode("utf-8")
    return out
