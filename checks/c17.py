"""C17 -- strict mode is honoured everywhere and lenient mode changes nothing valid.

(a) corpus: the encode/decode operations of the codec space (reduced bounds) executed in strict and in
    non-strict mode: whenever the strict run succeeds, the non-strict run returns the identical result.
(b) flip schedules: ALL sequences of up to 3 (4) operations from a menu with one mode-sensitive operation per
    module family x EVERY assignment of modes to the steps, executed in ONE process that imported odxtools in
    the default (strict) mode and flips odxtools.exceptions.strict_mode at run time -- which is what
    `odxtools --no-strict` does.  Oracle: the outcome of step i equals the outcome of the same operation in a
    FRESH process whose mode is the mode of step i; the menu's problems are errors in strict mode and are
    downgraded in non-strict mode.
"""
from __future__ import annotations

import contextlib
import io
import itertools
import json
import os
import subprocess
import sys
import warnings
from typing import Any, Callable, Dict, List, Tuple

from mcx.core import VERIF, Ctx, HarnessError, Part, digest, jdump, pmap, repo_root
from odxmodel import emit, harness, refodx, space
from odxmodel.harness import jval, show
from odxmodel.space import P, U8, std

import odxtools.cli.main  # noqa: E402,F401  (imported eagerly, under the default mode: whatever a module remembers from its
# import time is then the same in every exploring worker and in every replay, instead of depending on the schedule that came first)

PROPERTY = "C17"
LEVEL = "model_checking"


def set_mode(strict: bool) -> None:
    import logging

    import odxtools.exceptions
    logging.disable(logging.CRITICAL)  # non-strict mode logs every downgraded problem
    odxtools.exceptions.strict_mode = strict


# ---------------------------------------------------------------------------------------------
# (b) the menu of mode-sensitive operations
# ---------------------------------------------------------------------------------------------
def menu_db() -> Dict[str, Any]:
    lib = space.library()
    lib += [
        {"name": "utf8_2", "dct": std("A_UTF8STRING", 16)},
        {"name": "i8", "dct": std("A_INT32", 8)},
        {"name": "badenc", "dct": std("A_ASCIISTRING", 16, "2C")},  # an encoding that is illegal for strings
        {"name": "Speed", "dct": U8},  # two names that differ in case only; a reference by short name means exactly one of them
        {"name": "SPEED", "dct": std("A_UINT32", 16)},
        {"name": "asc2", "dct": std("A_ASCIISTRING", 16)},
        {"name": "leadasc", "dct": {"k": "LEAD", "base": "A_ASCIISTRING", "bits": 8}},
        {"name": "mmasc", "dct": {"k": "MINMAX", "base": "A_ASCIISTRING", "min": 0, "max": 4, "term": "ZERO"}},
    ]
    msgs = [
        {"kind": "REQUEST", "name": "rq_v8", "params": [P("CODED-CONST", "sid", dct=U8, value=0x22), P("VALUE", "v", dop="u8")]},
        {"kind": "REQUEST", "name": "rq_utf8", "params": [P("VALUE", "s", dop="utf8_2")]},
        {"kind": "REQUEST", "name": "rq_dtc", "params": [P("VALUE", "d", dop="dtc3")]},
        {"kind": "REQUEST", "name": "rq_mux", "params": [P("VALUE", "m", dop="MUXn")]},
        {"kind": "REQUEST", "name": "rq_pc", "params": [P("PHYS-CONST", "pc", dop="i8lin", const=7)]},
        {"kind": "REQUEST", "name": "rq_badenc", "params": [P("VALUE", "s", dop="badenc")]},
        {"kind": "REQUEST", "name": "rq_sf", "params": [P("VALUE", "f", dop="SF2")]},
        {"kind": "REQUEST", "name": "rq_bz", "params": [P("VALUE", "b", dop="bmin2")]},
        {"kind": "REQUEST", "name": "rq_case", "params": [P("VALUE", "v", dop="SPEED", snref=True)]},
        {"kind": "REQUEST", "name": "rq_asc2", "params": [P("VALUE", "s", dop="asc2")]},
        {"kind": "REQUEST", "name": "rq_leadasc", "params": [P("VALUE", "s", dop="leadasc")]},
        {"kind": "REQUEST", "name": "rq_mmasc", "params": [P("VALUE", "s", dop="mmasc")]},
    ]
    lib.append({"name": "bmin2", "dct": {"k": "MINMAX", "base": "A_BYTEFIELD", "min": 2, "max": 4, "term": "ZERO"}})
    layer = {"type": "BASE-VARIANT", "name": "L", "dops": lib, "msgs": msgs, "svcs": []}
    return {"containers": [{"name": "C", "layers": [layer]}]}


def dangling_db() -> Dict[str, Any]:
    layer = {"type": "BASE-VARIANT", "name": "LD", "dops": [{"name": "u8", "dct": U8}],
             "msgs": [{"kind": "REQUEST", "name": "rq", "params": [P("VALUE", "v", dop="nonexistent")]}], "svcs": []}
    return {"containers": [{"name": "CD", "layers": [layer]}]}


def dangling_dtc_db() -> Dict[str, Any]:
    """A DTC whose special data group refers to a caption that does not exist: found while the DTC-DOP resolves references."""
    layer = {"type": "BASE-VARIANT", "name": "LT", "dops": [
        {"kind": "dtcdop", "name": "dtcbad", "dct": std("A_UINT32", 24), "dtcs": [{"name": "P0001", "code": 1, "sdg_caption_ref": "LT.SDGC.nowhere"}]}],
        "msgs": [{"kind": "REQUEST", "name": "rq", "params": [P("VALUE", "d", dop="dtcbad")]}], "svcs": []}
    return {"containers": [{"name": "CT", "layers": [layer]}]}


def _build_lenient_db() -> str:
    """Load the database with the dangling DTC-REF leniently (whatever the current mode is) and keep it."""
    import odxtools.exceptions
    prev = odxtools.exceptions.strict_mode
    set_mode(False)
    try:
        _STORED["bad_db"] = emit.load_db(dangling_dtc_db())
    finally:
        set_mode(prev)
    return "built"


def _refresh_stored_db() -> Any:
    """Database.refresh() on a database that was loaded earlier (leniently): the CURRENT mode decides."""
    if "bad_db" not in _STORED:
        _build_lenient_db()
    db = _STORED["bad_db"]
    db.refresh()
    return sorted(l.short_name for l in db.diag_layers)


def ambiguous_snref_db() -> Dict[str, Any]:
    layer = {"type": "BASE-VARIANT", "name": "LS", "dops": [{"name": "u8", "dct": U8}],
             "msgs": [{"kind": "REQUEST", "name": "rq", "params": [P("VALUE", "v", dop="missing_name", snref=True)]}], "svcs": []}
    return {"containers": [{"name": "CS", "layers": [layer]}]}


_MENU_STATE: Dict[str, Any] = {}


def menu_objs() -> Dict[str, Any]:
    """The menu's database is loaded ONCE in strict mode (what a CLI does); operations run on these objects."""
    if "msg" not in _MENU_STATE:
        import odxtools.exceptions
        prev = odxtools.exceptions.strict_mode
        set_mode(True)
        try:
            db = emit.load_db(menu_db())
        finally:
            set_mode(prev)
        raw = db.diag_layers["L"].diag_layer_raw
        _MENU_STATE["msg"] = {m.short_name: m for m in raw.requests}
    return _MENU_STATE["msg"]


def _outcome(fn: Callable[[], Any]) -> Tuple[str, Any]:
    with warnings.catch_warnings():
        warnings.simplefilter("ignore")
        try:
            r = fn()
        except BaseException as e:  # noqa
            if isinstance(e, (KeyboardInterrupt, SystemExit)):
                raise
            return ("error", type(e).__name__)
    return ("ok", json.loads(jdump(show(r))))


_CLI_SINK = io.StringIO()
_TINY: Dict[int, str] = {}


def tiny_pdx() -> str:
    """A one-layer PDX file for the CLI runs (written once per process into the scratch directory)."""
    pid = os.getpid()
    if pid not in _TINY or not os.path.exists(_TINY[pid]):
        import zipfile
        d = emit.scratch_dir()
        path = os.path.join(d, "tiny_c17.pdx")
        layer = {"type": "BASE-VARIANT", "name": "T", "dops": [{"name": "u8", "dct": U8}],
                 "msgs": [{"kind": "REQUEST", "name": "rq", "params": [P("CODED-CONST", "sid", dct=U8, value=0x3E), P("VALUE", "v", dop="u8")]}],
                 "svcs": [{"name": "svc", "request": "rq"}]}
        with zipfile.ZipFile(path, "w") as z:
            for fn, xml in emit.db_files({"containers": [{"name": "TC", "layers": [layer]}]}).items():
                z.writestr(fn, xml)
        _TINY[pid] = path
    return _TINY[pid]


def _cli(argv: List[str]) -> Any:
    """Run the odxtools command line front end in-process (as a calling program or test would)."""
    import odxtools.cli.main as climain
    old = sys.argv
    sys.argv = ["odxtools"] + argv
    try:
        with contextlib.redirect_stdout(_CLI_SINK), contextlib.redirect_stderr(_CLI_SINK):
            try:
                climain.start_cli()
            except SystemExit as e:
                return f"exit {e.code}"
        return "returned"
    finally:
        sys.argv = old
        _CLI_SINK.seek(0)
        _CLI_SINK.truncate()


def bad_pdx() -> str:
    """A PDX file with a dangling DOP reference: loading it is an error in strict mode only."""
    pid = os.getpid()
    key = -pid
    if key not in _TINY or not os.path.exists(_TINY[key]):
        import zipfile
        path = os.path.join(emit.scratch_dir(), "bad_c17.pdx")
        with zipfile.ZipFile(path, "w") as z:
            for fn, xml in emit.db_files(dangling_db()).items():
                z.writestr(fn, xml)
        _TINY[key] = path
    return _TINY[key]


def bad_dir() -> str:
    """A directory with one valid ODX file and one whose IS-HIGHLOW-BYTE-ORDER attribute cannot be parsed (an error
    while READING the file, not while resolving references): every loader entry point must refuse it in strict mode."""
    pid = os.getpid()
    key = ("dir", pid)
    if key not in _TINY or not os.path.isdir(_TINY[key]):  # type: ignore[index]
        d = os.path.join(emit.scratch_dir(), "bad_dir_c17")
        os.makedirs(d, exist_ok=True)
        good = {"type": "BASE-VARIANT", "name": "G", "dops": [{"name": "u8", "dct": U8}],
                "msgs": [{"kind": "REQUEST", "name": "rq", "params": [P("VALUE", "v", dop="u8")]}], "svcs": []}
        bad = {"type": "BASE-VARIANT", "name": "B", "dops": [{"name": "u16", "dct": std("A_UINT32", 16, None, True)}],
               "msgs": [{"kind": "REQUEST", "name": "rq", "params": [P("VALUE", "v", dop="u16")]}], "svcs": []}
        for fn, xml in emit.db_files({"containers": [{"name": "GC", "layers": [good]}]}).items():
            if fn.endswith(".odx-d"):
                open(os.path.join(d, fn), "w").write(xml)
        for fn, xml in emit.db_files({"containers": [{"name": "BC", "layers": [bad]}]}).items():
            if fn.endswith(".odx-d"):
                assert 'IS-HIGHLOW-BYTE-ORDER="true"' in xml
                open(os.path.join(d, fn), "w").write(xml.replace('IS-HIGHLOW-BYTE-ORDER="true"', 'IS-HIGHLOW-BYTE-ORDER="maybe"'))
        _TINY[key] = d  # type: ignore[index]
    return _TINY[key]  # type: ignore[index]


def _load_entry(which: str) -> Any:
    import odxtools
    d = bad_dir()
    files = sorted(os.path.join(d, f) for f in os.listdir(d))
    if which == "directory":
        db = odxtools.load_directory(d)
    elif which == "files":
        db = odxtools.load_files(*files)
    else:
        db = odxtools.load_odx_d_file([f for f in files if "BC" in os.path.basename(f)][0])
    return sorted(l.short_name for l in db.diag_layers)


_STORED: Dict[str, Any] = {}


def _build_state() -> str:
    from odxtools.decodestate import DecodeState
    _STORED["state"] = DecodeState(coded_message=bytes([0xC3, 0x28]))
    return "built"


def _decode_with_stored_state() -> Any:
    from odxtools.decodestate import DecodeState
    st = _STORED.pop("state", None) or DecodeState(coded_message=bytes([0xC3, 0x28]))
    return menu_objs()["rq_utf8"].decode_from_pdu(st)


def _with_warnings_as_errors(fn: Callable[[], Any]) -> Any:
    with warnings.catch_warnings():
        warnings.simplefilter("error")
        return fn()


def _load_summary(spec: Dict[str, Any]) -> Any:
    db = emit.load_db(spec)
    return sorted(l.short_name for l in db.diag_layers)


MENU: List[Tuple[str, Callable[[], Any]]] = [
    ("encode-unknown-parameter", lambda: menu_objs()["rq_v8"].encode(v=1, zz=2)),
    ("encode-out-of-range", lambda: menu_objs()["rq_v8"].encode(v=300)),
    ("decode-invalid-utf8", lambda: menu_objs()["rq_utf8"].decode(bytes([0xC3, 0x28]))),
    ("decode-unknown-dtc", lambda: menu_objs()["rq_dtc"].decode(bytes([0x00, 0x00, 0x05]))),
    ("decode-unknown-mux-case", lambda: menu_objs()["rq_mux"].decode(bytes([0x09, 0x01, 0x02]))),
    ("decode-phys-const-mismatch", lambda: menu_objs()["rq_pc"].decode(bytes([0x09]))),
    ("encode-static-field-wrong-count", lambda: menu_objs()["rq_sf"].encode(f=[{"a": 1, "b": 2}, {"a": 1, "b": 2}, {"a": 3, "b": 4}])),
    ("encode-minmax-too-short", lambda: menu_objs()["rq_bz"].encode(b=b"\x41")),
    ("encode-string-with-illegal-encoding", lambda: menu_objs()["rq_badenc"].encode(s="AB")),
    # a character the target encoding cannot represent, at each encoder site that handles strings
    ("encode-unencodable-character-standard-length", lambda: menu_objs()["rq_asc2"].encode(s="\u20aca")),
    ("encode-unencodable-character-leading-length", lambda: menu_objs()["rq_leadasc"].encode(s="\u20aca")),
    ("encode-unencodable-character-min-max-length", lambda: menu_objs()["rq_mmasc"].encode(s="\u20aca")),
    # a file that cannot be parsed cleanly, through each loader entry point
    ("load-directory-with-unparsable-file", lambda: _load_entry("directory")),
    ("load-files-with-unparsable-file", lambda: _load_entry("files")),
    ("load-odx-d-file-unparsable", lambda: _load_entry("odx-d")),
    # the downgrade does not depend on the interpreter's warning filter (python -W error, pytest filterwarnings = error)
    ("encode-unknown-parameter-with-warnings-as-errors", lambda: _with_warnings_as_errors(lambda: menu_objs()["rq_v8"].encode(v=1, zz=2))),
    ("load-dangling-reference", lambda: _load_summary(dangling_db())),
    ("load-unresolvable-snref", lambda: _load_summary(ambiguous_snref_db())),
    # control: a mode-insensitive valid operation
    ("encode-valid", lambda: menu_objs()["rq_v8"].encode(v=7)),
    ("encode-valid-snref-among-names-differing-in-case", lambda: menu_objs()["rq_case"].encode(v=0x1234)),
    # a decode state that was constructed earlier (possibly under another mode) is used after the flip
    ("build-decode-state", lambda: _build_state()),
    # a database that was loaded leniently is refreshed: the problem is reported again if strict mode is on by then
    ("load-leniently-and-keep", lambda: _build_lenient_db()),
    ("refresh-kept-database", lambda: _refresh_stored_db()),
    ("decode-invalid-utf8-with-stored-state", lambda: _decode_with_stored_state()),
    # the command line front end switches the mode itself and must put it back, whatever the tool does
    ("cli-no-strict-list", lambda: _cli(["--no-strict", "list", tiny_pdx()])),
    ("cli-no-strict-failing-tool", lambda: _cli(["--no-strict", "list", "/nonexistent/file.pdx"])),
    ("cli-strict-failing-tool", lambda: _cli(["list", "/nonexistent/file.pdx"])),
    # without --no-strict the tool runs strictly and with it leniently, whatever mode the calling process is in
    ("cli-strict-bad-db", lambda: _cli(["list", bad_pdx()])),
    ("cli-no-strict-bad-db", lambda: _cli(["--no-strict", "list", bad_pdx()])),
]
MENU_NAMES = [n for n, _ in MENU]
CLI_OPS = {"cli-no-strict-list", "cli-no-strict-failing-tool", "cli-strict-failing-tool", "cli-strict-bad-db", "cli-no-strict-bad-db"}
NEUTRAL_OPS = {"build-decode-state", "load-leniently-and-keep"}
DOWNGRADABLE = set(MENU_NAMES) - {"encode-valid", "encode-valid-snref-among-names-differing-in-case"} - CLI_OPS - NEUTRAL_OPS


def baseline_main() -> None:
    """Run in a FRESH process: every menu operation once in the mode given by argv (never flipped)."""
    strict = os.environ["VERIF_C17_MODE"] == "strict"
    import logging

    import odxtools.exceptions
    logging.disable(logging.CRITICAL)
    odxtools.exceptions.strict_mode = strict
    _MENU_STATE.clear()
    # the menu database itself is loaded in the mode of the process
    db = emit.load_db(menu_db())
    raw = db.diag_layers["L"].diag_layer_raw
    _MENU_STATE["msg"] = {m.short_name: m for m in raw.requests}
    out = {}
    for name, fn in MENU:
        odxtools.exceptions.strict_mode = strict
        out[name] = _outcome(fn)
    print("SUBRESULT " + jdump(out))


def fresh_baseline(strict: bool) -> Dict[str, Any]:
    env = dict(os.environ, VERIF_C17_MODE="strict" if strict else "lenient")
    code = ("import sys; sys.path.insert(0, %r); from mcx.core import use_repo; use_repo(); import checks.c17 as c; c.baseline_main()" % VERIF)
    r = subprocess.run([sys.executable, "-W", "ignore", "-c", code], env=env, capture_output=True, text=True, cwd=VERIF)
    lines = [l for l in r.stdout.splitlines() if l.startswith("SUBRESULT ")]
    if r.returncode != 0 or not lines:
        raise HarnessError("fresh-process baseline failed: " + r.stderr[-1200:])
    return {k: tuple(v) for k, v in json.loads(lines[-1][len("SUBRESULT "):]).items()}


def run_schedule(ops: Tuple[int, ...], modes: Tuple[bool, ...]) -> List[Tuple[str, Any]]:
    out = []
    import odxtools.exceptions
    _STORED.clear()
    for op, mode in zip(ops, modes):
        set_mode(mode)
        o = _outcome(MENU[op][1])
        if odxtools.exceptions.strict_mode is not mode:
            o = ("mode-left-changed", o[1])
        out.append(o)
    set_mode(True)
    return out


def reproduces_in_fresh_process(case: Dict[str, Any], key: str) -> bool:
    code = ("import sys, json; sys.path.insert(0, %r); from mcx.core import sub_replay; sub_replay(%r, sys.stdin.read())" % (VERIF, PROPERTY))
    r = subprocess.run([sys.executable, "-W", "ignore", "-c", code], input=json.dumps(case), capture_output=True, text=True, cwd=VERIF)
    lines = [l for l in r.stdout.splitlines() if l.startswith("SUBRESULT ")]
    if not lines:
        return False
    return any(k == key for k, _ in json.loads(lines[-1][len("SUBRESULT "):]))


_REPRO_DONE: Dict[str, Any] = {}


def minimal_reproducer(key: str, op: int, mode: bool, ops: Tuple[int, ...], modes: Tuple[bool, ...]) -> Dict[str, Any]:
    """All schedules of a worker run in ONE process, so hidden state (a stale cache) may leak from earlier
    schedules.  Find a short schedule that shows the violation from a FRESH process: the schedule itself, then
    [same operation in the other mode, operation], then every two-step schedule ending in the operation."""
    if key in _REPRO_DONE:
        return _REPRO_DONE[key]
    cands: List[Tuple[Tuple[int, ...], Tuple[bool, ...]]] = [(ops, modes), ((op, op), (not mode, mode))]
    for y in range(len(MENU)):
        for m in (True, False):
            cands.append(((y, op), (m, mode)))
    chosen = None
    for co, cm in cands[:40]:
        case = {"mode": "schedule", "ops": [MENU_NAMES[o] for o in co], "modes": list(cm)}
        if reproduces_in_fresh_process(case, key):
            chosen = case
            break
    if chosen is None:
        chosen = {"mode": "schedule", "ops": [MENU_NAMES[o] for o in ops], "modes": list(modes), "not_reproduced_alone": True}
    _REPRO_DONE[key] = chosen
    return chosen


def schedule_unit(unit: Tuple[int, int, Dict[str, Any], Dict[str, Any]]) -> Part:
    first, maxlen, base_s, base_l = unit
    part = Part()
    seen_states = set()
    core = [i for i, nm in enumerate(MENU_NAMES) if nm not in CLI_OPS]
    for n in range(1, maxlen + 1):
        # the longest schedules are drawn from the core menu (no command line runs), shorter ones from the full menu
        pool = range(len(MENU)) if n < maxlen else core
        if n == maxlen and first not in core:
            continue
        for rest in itertools.product(pool, repeat=n - 1):
            ops = (first,) + rest
            for modes in itertools.product((True, False), repeat=n):
                res = run_schedule(ops, modes)
                part.count("evaluations")
                part.count("transitions", n)
                for i, (op, mode, got) in enumerate(zip(ops, modes, res)):
                    seen_states.add((ops[:i + 1], modes[:i + 1]))
                    want = (base_s if mode else base_l)[MENU_NAMES[op]]
                    got_n = (got[0], got[1])
                    if got[0] == "mode-left-changed":
                        part.violation(f"C17/flip/{MENU_NAMES[op]}/leaves-the-mode-changed",
                                       {"mode": "schedule", "ops": [MENU_NAMES[o] for o in ops[:i + 1]], "modes": list(modes[:i + 1])},
                                       f"after {MENU_NAMES[op]} in {'strict' if mode else 'lenient'} mode odxtools.exceptions.strict_mode is {not mode}")
                        continue
                    if tuple(want) != got_n and json.dumps(list(want)) != json.dumps(list(got_n)):
                        hist = "".join("S" if m else "L" for m in modes[:i + 1])
                        flipped = len(set(modes[:i + 1])) > 1
                        key = f"C17/flip/{MENU_NAMES[op]}/{'strict' if mode else 'lenient'}-step-differs-from-fresh-process"
                        case = minimal_reproducer(key, op, mode, ops[:i + 1], modes[:i + 1])
                        if case.get("not_reproduced_alone"):
                            continue  # (state leaked from an earlier schedule and no short reproducer exists: not reported)
                        part.violation(key, case,
                                       f"modes {hist}{' (flipped)' if flipped else ''}: {MENU_NAMES[op]} gave {got_n}, a fresh {'strict' if mode else 'lenient'} process gives {tuple(want)}")
                part.add("nontrivial", digest((ops, modes)))
    part.sets["states"] = seen_states
    return part


# ---------------------------------------------------------------------------------------------
# (a) corpus: strict success => identical lenient result
# ---------------------------------------------------------------------------------------------
def corpus_unit(unit: Tuple[str, List[Dict[str, Any]]]) -> Part:
    from checks.codec_common import library_for, prog_case, tagkey
    name, progs = unit
    part = Part()
    set_mode(True)
    L = harness.Loaded(progs, library_for(progs))
    for prog in progs:
        msg = L.msg[prog["pid"]]
        tag = tagkey(prog)
        pdus = []
        for values in prog["assign"][:8]:
            part.count("evaluations")
            set_mode(True)
            pdu_s, exc_s, _ = harness.odx_encode(msg, values, prog.get("request"))
            set_mode(False)
            pdu_l, exc_l, _ = harness.odx_encode(msg, values, prog.get("request"))
            set_mode(True)
            case = {"mode": "corpus", "program": prog_case(prog), "values": jval(values)}
            if exc_s is None:
                part.count("strict_successes")
                part.add("nontrivial", digest((prog["tags"], pdu_s.hex())))
                pdus.append(pdu_s)
                if exc_l is not None:
                    part.violation(f"C17/corpus/{tag}/encode/lenient-raises-where-strict-succeeds", case, f"{type(exc_l).__name__}: {exc_l}")
                elif pdu_l != pdu_s:
                    part.violation(f"C17/corpus/{tag}/encode/lenient-result-differs", case, f"strict {pdu_s.hex()} lenient {pdu_l.hex()}")
            else:
                part.count("strict_failures")
        # decoding: own PDUs, their prefixes and all strings <= 2 over a small alphabet
        cands = list(pdus)
        for p in pdus[:2]:
            cands += [p[:i] for i in range(len(p))]
        alpha = sorted({0x00, 0xFF} | set(b for p in pdus[:2] for b in p))[:4]
        for n in range(0, 3):
            for t in itertools.product(alpha, repeat=n):
                cands.append(bytes(t))
        done = set()
        for pdu in cands:
            if pdu in done:
                continue
            done.add(pdu)
            part.count("evaluations")
            set_mode(True)
            d_s, e_s = harness.odx_decode(msg, pdu)
            set_mode(False)
            d_l, e_l = harness.odx_decode(msg, pdu)
            set_mode(True)
            case = {"mode": "corpus", "program": prog_case(prog), "values": None, "pdu": pdu.hex()}
            if e_s is None:
                part.count("strict_successes")
                if e_l is not None:
                    part.violation(f"C17/corpus/{tag}/decode/lenient-raises-where-strict-succeeds", case, f"{pdu.hex()}: {type(e_l).__name__}: {e_l}")
                elif jdump(show(d_s)) != jdump(show(d_l)):
                    part.violation(f"C17/corpus/{tag}/decode/lenient-result-differs", case, f"{pdu.hex()}: strict {show(d_s)} lenient {show(d_l)}")
            else:
                part.count("strict_failures")
    set_mode(True)
    return part


def dispatch_db() -> Dict[str, Any]:
    dops = [{"name": "u8", "dct": U8}, {"name": "u16", "dct": std("A_UINT32", 16)},
            {"name": "bmin3", "dct": {"k": "MINMAX", "base": "A_BYTEFIELD", "min": 3, "max": 5, "term": "ZERO"}},
            {"name": "utf8", "dct": {"k": "MINMAX", "base": "A_UTF8STRING", "min": 1, "max": 4, "term": "ZERO"}},
            {"name": "i8lin", "dct": std("A_INT32", 8), "phys": "A_INT32", "cm": {"cat": "LINEAR", "i2p": [{"num": [1, 2], "den": [1]}]}}]
    cc = lambda n, v: P("CODED-CONST", n, dct=U8, value=v)  # noqa
    msgs = [
        {"kind": "REQUEST", "name": "rq_A", "params": [cc("sid", 0x22), cc("id", 0x01)]},
        {"kind": "POS-RESPONSE", "name": "pr_A1", "params": [cc("sid", 0x62), P("VALUE", "s", dop="bmin3")]},
        {"kind": "POS-RESPONSE", "name": "pr_A2", "params": [cc("sid", 0x62), P("VALUE", "v", dop="u8")]},
        {"kind": "POS-RESPONSE", "name": "pr_A3", "params": [cc("sid", 0x62), P("VALUE", "t", dop="utf8")]},
        {"kind": "REQUEST", "name": "rq_C", "params": [cc("sid", 0x10), P("VALUE", "v", dop="u8")]},
        {"kind": "REQUEST", "name": "rq_D", "params": [cc("sid", 0x10), P("VALUE", "w", dop="u16")]},
        {"kind": "POS-RESPONSE", "name": "pr_C", "params": [cc("sid", 0x50), P("VALUE", "v", dop="u8")]},
        {"kind": "POS-RESPONSE", "name": "pr_D", "params": [cc("sid", 0x50), P("VALUE", "w", dop="u16")]},
    ]
    # two responses that share their coded constant and are told apart by a PHYS-CONST only (7 <-> byte 03, 9 <-> byte 04)
    msgs += [
        {"kind": "REQUEST", "name": "rq_P", "params": [cc("sid", 0x2A)]},
        {"kind": "POS-RESPONSE", "name": "pr_P1", "params": [cc("sid", 0x6A), P("PHYS-CONST", "rec", dop="i8lin", const=7), P("VALUE", "v", dop="u8")]},
        {"kind": "POS-RESPONSE", "name": "pr_P2", "params": [cc("sid", 0x6A), P("PHYS-CONST", "rec", dop="i8lin", const=9), P("VALUE", "w", dop="u16")]},
    ]
    msgs += [
        {"kind": "NEG-RESPONSE", "name": "nr_A", "params": [cc("sid", 0x7F), P("MATCHING-REQUEST-PARAM", "rq", rq_byte=0, len=1),
                                                             P("NRC-CONST", "nrc", dct=U8, values=[0x31, 0x33], byte=2), P("VALUE", "code", dop="u8", byte=2)]},
        {"kind": "GLOBAL-NEG-RESPONSE", "name": "gnr", "params": [cc("sid", 0x7F), P("MATCHING-REQUEST-PARAM", "rq", rq_byte=0, len=1),
                                                                   P("NRC-CONST", "nrc", dct=U8, values=[0x10, 0x11], byte=2), P("VALUE", "code", dop="u8", byte=2)]},
    ]
    svcs = [{"name": "svc_A", "request": "rq_A", "pos": ["pr_A1", "pr_A2", "pr_A3"], "neg": ["nr_A"]},
            {"name": "svc_C", "request": "rq_C", "pos": ["pr_C"]}, {"name": "svc_D", "request": "rq_D", "pos": ["pr_D"]},
            {"name": "svc_P", "request": "rq_P", "pos": ["pr_P1", "pr_P2"]}]
    return {"containers": [{"name": "CDI", "layers": [{"type": "BASE-VARIANT", "name": "LDI", "dops": dops, "msgs": msgs, "svcs": svcs}]}]}


def _layer_outcome(fn: Callable[[], Any]) -> Tuple[str, Any]:
    with warnings.catch_warnings():
        warnings.simplefilter("ignore")
        try:
            r = fn()
        except BaseException as e:  # noqa
            if isinstance(e, (KeyboardInterrupt, SystemExit)):
                raise
            return ("error", type(e).__name__)
    return ("ok", sorted(json.loads(jdump([[getattr(getattr(m, "service", None), "short_name", None), getattr(getattr(m, "coding_object", None), "short_name", None),
                                             show(getattr(m, "param_dict", None))] for m in (r or [])])), key=jdump))


def dispatch_unit(shard: Tuple[int, int, int]) -> Part:
    """Layer-level decoding (candidate elimination relies on exceptions) in both modes: strict success => same result."""
    k, n, maxlen = shard
    part = Part()
    set_mode(True)
    db = emit.load_db(dispatch_db())
    layer = db.diag_layers["LDI"]
    alpha = [0x62, 0x22, 0x10, 0x50, 0x01, 0x00, 0x41, 0xC3, 0x7F, 0x31, 0x11, 0x6A, 0x03, 0x04]
    msgs = [bytes(t) for ln in range(0, maxlen + 1) for t in itertools.product(alpha, repeat=ln)]
    for i, m in enumerate(msgs):
        if i % n != k:
            continue
        for api, fn in (("decode", lambda: layer.decode(m)), ("decode_response/2201", lambda: layer.decode_response(m, bytes([0x22, 0x01]))),
                        ("decode_response/2a", lambda: layer.decode_response(m, bytes([0x2A]))),
                        ("decode_response/1005", lambda: layer.decode_response(m, bytes([0x10, 0x05])))):
            part.count("evaluations")
            set_mode(True)
            s = _layer_outcome(fn)
            set_mode(False)
            l = _layer_outcome(fn)
            set_mode(True)
            if s[0] == "ok":
                part.count("strict_successes")
                part.add("nontrivial", digest(("dispatch", api, m.hex())))
                if jdump(s) != jdump(l):
                    part.violation(f"C17/corpus/dispatch/{api.split('/')[0]}/lenient-result-differs", {"mode": "dispatch", "api": api, "pdu": m.hex()},
                                   f"{api}({m.hex()}): strict {s[1]} lenient {l}")
            else:
                part.count("strict_failures")
    set_mode(True)
    return part


def run(ctx: Ctx) -> None:
    try:
        maxlen = 3 if ctx.quick else 4
        ctx.bounds = {"menu": MENU_NAMES, "schedule_length": maxlen, "modes_per_step": 2,
                      "corpus": "layer A (8-bit alphabets, strings, min-max, leading length, length keys) + layer C depth <= 2"}
        ctx.rule = ("(b) every operation sequence up to the length bound x every mode assignment; (a) every corpus operation in both "
                    "modes; non-trivial = distinct (sequence, modes) / (program, PDU)")
        ctx.assumptions = ["the process imports odxtools in strict mode and flips odxtools.exceptions.strict_mode at run time (as `odxtools --no-strict` does)",
                           "the menu covers one odxraise/odxassert-based problem per module family, not every call site",
                           "outcomes are compared as ('ok', JSON of the result) / ('error', exception class)"]
        base_s = fresh_baseline(True)
        base_l = fresh_baseline(False)
        ctx.extra["fresh_process_outcomes"] = {"strict": {k: list(v) for k, v in base_s.items()}, "lenient": {k: list(v) for k, v in base_l.items()}}
        # the menu must be what it claims to be: errors in strict mode, downgraded in lenient mode
        for name in MENU_NAMES:
            s, l = base_s[name], base_l[name]
            if name in DOWNGRADABLE:
                if s[0] != "error":
                    ctx.violation(f"C17/menu/{name}/not-an-error-in-strict-mode", {"mode": "menu", "op": name}, f"fresh strict process: {s}")
                elif l[0] == "error":  # (every operation of the menu is one whose downgrade lets the call complete)
                    ctx.violation(f"C17/menu/{name}/not-downgraded-in-lenient-mode", {"mode": "menu", "op": name}, f"fresh lenient process: {l}")
            elif name == "cli-strict-bad-db":
                if s[0] != "error" or l != s:
                    ctx.violation(f"C17/menu/{name}/cli-without-no-strict-is-not-strict", {"mode": "menu", "op": name},
                                  f"fresh strict process: {s}, fresh lenient process: {l}")
            elif name == "cli-no-strict-bad-db":
                if s[0] == "error" or l != s:
                    ctx.violation(f"C17/menu/{name}/cli-with-no-strict-is-not-lenient", {"mode": "menu", "op": name},
                                  f"fresh strict process: {s}, fresh lenient process: {l}")
            elif name in CLI_OPS or name in NEUTRAL_OPS:
                pass
            else:
                if s != l or s[0] != "ok":
                    ctx.violation(f"C17/menu/{name}/valid-operation-depends-on-mode", {"mode": "menu", "op": name}, f"strict {s} lenient {l}")
        units = [(first, maxlen, base_s, base_l) for first in range(len(MENU))]
        pmap(ctx, schedule_unit, units)
        states = ctx.sets.pop("states")
        ctx.counts["states"] = len(states)
        # corpus
        cunits: List[Any] = []
        progs = [p for p in space.layer_c_programs(True) if len(p["tags"][1].split("+")) <= 2 and p["tags"][2] in ("modes:a", "modes:aa")]
        chunk = 120
        cunits += [(f"C/{c // chunk}", progs[c:c + chunk]) for c in range(0, len(progs), chunk)]
        a_units = space.layer_a_minmax_units(True) + space.layer_a_lead_units(True) + space.layer_a_plen_units(True) + \
            space.layer_a_string_units(True) + space.layer_a_mask_units(True) + space.layer_a_float_units(True) + space.layer_a_int_units(True)[::3]
        cunits += a_units
        pmap(ctx, corpus_unit, cunits)
        pmap(ctx, dispatch_unit, [(k, 32, 4 if ctx.quick else 5) for k in range(32)])
        ctx.counts["traces_validated_against_impl"] = ctx.counts.get("evaluations", 0)
        ctx.sample({"ops": ["decode-invalid-utf8", "encode-valid", "decode-invalid-utf8"], "modes": ["strict", "lenient", "strict"]})
        ctx.guard("strict successes > 1000", ctx.counts.get("strict_successes", 0) > 1000)
        ctx.guard("strict failures > 100", ctx.counts.get("strict_failures", 0) > 100)
        ctx.guard("schedules > 1000", ctx.counts.get("states", 0) > 1000)
    finally:
        set_mode(True)


def replay(case: Any) -> List[Tuple[str, str]]:
    try:
        if case["mode"] == "menu":
            base_s, base_l = fresh_baseline(True), fresh_baseline(False)
            name = case["op"]
            s, l = base_s[name], base_l[name]
            out = []
            if name in DOWNGRADABLE:
                if s[0] != "error":
                    out.append((f"C17/menu/{name}/not-an-error-in-strict-mode", str(s)))
                elif l[0] == "error":
                    out.append((f"C17/menu/{name}/not-downgraded-in-lenient-mode", str(l)))
            elif name == "cli-strict-bad-db":
                if s[0] != "error" or l != s:
                    out.append((f"C17/menu/{name}/cli-without-no-strict-is-not-strict", f"{s} {l}"))
            elif name == "cli-no-strict-bad-db":
                if s[0] == "error" or l != s:
                    out.append((f"C17/menu/{name}/cli-with-no-strict-is-not-lenient", f"{s} {l}"))
            elif name in CLI_OPS or name in NEUTRAL_OPS:
                pass
            elif s != l or s[0] != "ok":
                out.append((f"C17/menu/{name}/valid-operation-depends-on-mode", f"{s} {l}"))
            return out
        if case["mode"] == "schedule":
            base_s, base_l = fresh_baseline(True), fresh_baseline(False)
            ops = tuple(MENU_NAMES.index(o) for o in case["ops"])
            modes = tuple(case["modes"])
            res = run_schedule(ops, modes)
            out = []
            for i, (op, mode, got) in enumerate(zip(ops, modes, res)):
                want = (base_s if mode else base_l)[MENU_NAMES[op]]
                if got[0] == "mode-left-changed":
                    out.append((f"C17/flip/{MENU_NAMES[op]}/leaves-the-mode-changed", str(got)))
                elif json.dumps(list(want)) != json.dumps([got[0], got[1]]):
                    out.append((f"C17/flip/{MENU_NAMES[op]}/{'strict' if mode else 'lenient'}-step-differs-from-fresh-process", f"{got} vs {want}"))
            return out
        if case["mode"] == "dispatch":
            set_mode(True)
            db = emit.load_db(dispatch_db())
            layer = db.diag_layers["LDI"]
            m = bytes.fromhex(case["pdu"])
            api = case["api"]
            fn = (lambda: layer.decode(m)) if api == "decode" else (lambda: layer.decode_response(m, bytes.fromhex(api.split("/")[1])))
            s_ = _layer_outcome(fn)
            set_mode(False)
            l_ = _layer_outcome(fn)
            set_mode(True)
            if s_[0] == "ok" and jdump(s_) != jdump(l_):
                return [(f"C17/corpus/dispatch/{api.split('/')[0]}/lenient-result-differs", f"strict {s_} lenient {l_}")]
            return []
        from checks.codec_common import case_prog
        prog = case_prog(case["program"], case.get("values"))
        if case.get("pdu") is not None:
            prog["assign"] = []
        part = corpus_unit(("replay", [prog]))
        if case.get("pdu") is not None and not part.viol:
            # decode-only case: re-run the single PDU
            from checks.codec_common import library_for
            L = harness.Loaded([prog], library_for([prog]))
            msg = L.msg[prog["pid"]]
            pdu = bytes.fromhex(case["pdu"])
            set_mode(True)
            d_s, e_s = harness.odx_decode(msg, pdu)
            set_mode(False)
            d_l, e_l = harness.odx_decode(msg, pdu)
            set_mode(True)
            tag = __import__("checks.codec_common", fromlist=["tagkey"]).tagkey(prog)
            if e_s is None and e_l is not None:
                return [(f"C17/corpus/{tag}/decode/lenient-raises-where-strict-succeeds", str(e_l))]
            if e_s is None and jdump(show(d_s)) != jdump(show(d_l)):
                return [(f"C17/corpus/{tag}/decode/lenient-result-differs", "")]
        return [(k, v[2]) for k, v in part.viol.items()]
    finally:
        set_mode(True)
