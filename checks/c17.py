"""C17 -- strict mode is honoured everywhere and lenient mode changes nothing valid.

(a) corpus: the encode/decode operations of the codec space (reduced bounds) executed in strict and in
    non-strict mode: whenever the strict run succeeds, the non-strict run returns the identical result.
(b) flip schedules: ALL sequences of up to 3 (4) operations from a menu with one mode-sensitive operation per
    module family x EVERY assignment of modes to the steps, executed in ONE process that imported odxtools in
    the default (strict) mode and flips odxtools.exceptions.strict_mode at run time -- which is what
    `odxtools --no-strict` does.  Oracle: the outcome of step i equals the outcome of the same operation in a
    FRESH process whose mode is the mode of step i; the menu's problems are errors in strict mode and are
    downgraded in non-strict mode.
"""
from __future__ import annotations

import itertools
import json
import os
import subprocess
import sys
import warnings
from typing import Any, Callable, Dict, List, Tuple

from mcx.core import VERIF, Ctx, HarnessError, Part, digest, jdump, pmap
from odxmodel import emit, harness, refodx, space
from odxmodel.harness import jval, show
from odxmodel.space import P, U8, std

PROPERTY = "C17"
LEVEL = "model_checking"


def set_mode(strict: bool) -> None:
    import logging

    import odxtools.exceptions
    logging.disable(logging.CRITICAL)  # non-strict mode logs every downgraded problem
    odxtools.exceptions.strict_mode = strict


# ---------------------------------------------------------------------------------------------
# (b) the menu of mode-sensitive operations
# ---------------------------------------------------------------------------------------------
def menu_db() -> Dict[str, Any]:
    lib = space.library()
    lib += [
        {"name": "utf8_2", "dct": std("A_UTF8STRING", 16)},
        {"name": "i8", "dct": std("A_INT32", 8)},
    ]
    msgs = [
        {"kind": "REQUEST", "name": "rq_v8", "params": [P("CODED-CONST", "sid", dct=U8, value=0x22), P("VALUE", "v", dop="u8")]},
        {"kind": "REQUEST", "name": "rq_utf8", "params": [P("VALUE", "s", dop="utf8_2")]},
        {"kind": "REQUEST", "name": "rq_dtc", "params": [P("VALUE", "d", dop="dtc3")]},
        {"kind": "REQUEST", "name": "rq_mux", "params": [P("VALUE", "m", dop="MUXn")]},
        {"kind": "REQUEST", "name": "rq_pc", "params": [P("PHYS-CONST", "pc", dop="i8lin", const=7)]},
        {"kind": "REQUEST", "name": "rq_sf", "params": [P("VALUE", "f", dop="SF2")]},
        {"kind": "REQUEST", "name": "rq_bz", "params": [P("VALUE", "b", dop="bmin2")]},
    ]
    lib.append({"name": "bmin2", "dct": {"k": "MINMAX", "base": "A_BYTEFIELD", "min": 2, "max": 4, "term": "ZERO"}})
    layer = {"type": "BASE-VARIANT", "name": "L", "dops": lib, "msgs": msgs, "svcs": []}
    return {"containers": [{"name": "C", "layers": [layer]}]}


def dangling_db() -> Dict[str, Any]:
    layer = {"type": "BASE-VARIANT", "name": "LD", "dops": [{"name": "u8", "dct": U8}],
             "msgs": [{"kind": "REQUEST", "name": "rq", "params": [P("VALUE", "v", dop="nonexistent")]}], "svcs": []}
    return {"containers": [{"name": "CD", "layers": [layer]}]}


def ambiguous_snref_db() -> Dict[str, Any]:
    layer = {"type": "BASE-VARIANT", "name": "LS", "dops": [{"name": "u8", "dct": U8}],
             "msgs": [{"kind": "REQUEST", "name": "rq", "params": [P("VALUE", "v", dop="missing_name", snref=True)]}], "svcs": []}
    return {"containers": [{"name": "CS", "layers": [layer]}]}


_MENU_STATE: Dict[str, Any] = {}


def menu_objs() -> Dict[str, Any]:
    """The menu's database is loaded ONCE in strict mode (what a CLI does); operations run on these objects."""
    if "msg" not in _MENU_STATE:
        set_mode(True)
        db = emit.load_db(menu_db())
        raw = db.diag_layers["L"].diag_layer_raw
        _MENU_STATE["msg"] = {m.short_name: m for m in raw.requests}
    return _MENU_STATE["msg"]


def _outcome(fn: Callable[[], Any]) -> Tuple[str, Any]:
    with warnings.catch_warnings():
        warnings.simplefilter("ignore")
        try:
            r = fn()
        except BaseException as e:  # noqa
            if isinstance(e, (KeyboardInterrupt, SystemExit)):
                raise
            return ("error", type(e).__name__)
    return ("ok", json.loads(jdump(show(r))))


def _load_summary(spec: Dict[str, Any]) -> Any:
    db = emit.load_db(spec)
    return sorted(l.short_name for l in db.diag_layers)


MENU: List[Tuple[str, Callable[[], Any]]] = [
    ("encode-unknown-parameter", lambda: menu_objs()["rq_v8"].encode(v=1, zz=2)),
    ("encode-out-of-range", lambda: menu_objs()["rq_v8"].encode(v=300)),
    ("decode-invalid-utf8", lambda: menu_objs()["rq_utf8"].decode(bytes([0xC3, 0x28]))),
    ("decode-unknown-dtc", lambda: menu_objs()["rq_dtc"].decode(bytes([0x00, 0x00, 0x05]))),
    ("decode-unknown-mux-case", lambda: menu_objs()["rq_mux"].decode(bytes([0x09, 0x01, 0x02]))),
    ("decode-phys-const-mismatch", lambda: menu_objs()["rq_pc"].decode(bytes([0x09]))),
    ("encode-static-field-wrong-count", lambda: menu_objs()["rq_sf"].encode(f=[{"a": 1, "b": 2}, {"a": 1, "b": 2}, {"a": 3, "b": 4}])),
    ("encode-minmax-too-short", lambda: menu_objs()["rq_bz"].encode(b=b"\x41")),
    ("load-dangling-reference", lambda: _load_summary(dangling_db())),
    ("load-unresolvable-snref", lambda: _load_summary(ambiguous_snref_db())),
    # control: a mode-insensitive valid operation
    ("encode-valid", lambda: menu_objs()["rq_v8"].encode(v=7)),
]
MENU_NAMES = [n for n, _ in MENU]
DOWNGRADABLE = set(MENU_NAMES) - {"encode-valid"}


def baseline_main() -> None:
    """Run in a FRESH process: every menu operation once in the mode given by argv (never flipped)."""
    strict = os.environ["VERIF_C17_MODE"] == "strict"
    import logging

    import odxtools.exceptions
    logging.disable(logging.CRITICAL)
    odxtools.exceptions.strict_mode = strict
    _MENU_STATE.clear()
    # the menu database itself is loaded in the mode of the process
    db = emit.load_db(menu_db())
    raw = db.diag_layers["L"].diag_layer_raw
    _MENU_STATE["msg"] = {m.short_name: m for m in raw.requests}
    out = {}
    for name, fn in MENU:
        odxtools.exceptions.strict_mode = strict
        out[name] = _outcome(fn)
    print("SUBRESULT " + jdump(out))


def fresh_baseline(strict: bool) -> Dict[str, Any]:
    env = dict(os.environ, VERIF_C17_MODE="strict" if strict else "lenient")
    code = ("import sys; sys.path.insert(0, %r); from mcx.core import use_repo; use_repo(); import checks.c17 as c; c.baseline_main()" % VERIF)
    r = subprocess.run([sys.executable, "-W", "ignore", "-c", code], env=env, capture_output=True, text=True, cwd=VERIF)
    lines = [l for l in r.stdout.splitlines() if l.startswith("SUBRESULT ")]
    if r.returncode != 0 or not lines:
        raise HarnessError("fresh-process baseline failed: " + r.stderr[-1200:])
    return {k: tuple(v) for k, v in json.loads(lines[-1][len("SUBRESULT "):]).items()}


def run_schedule(ops: Tuple[int, ...], modes: Tuple[bool, ...]) -> List[Tuple[str, Any]]:
    out = []
    for op, mode in zip(ops, modes):
        set_mode(mode)
        out.append(_outcome(MENU[op][1]))
    set_mode(True)
    return out


def schedule_unit(unit: Tuple[int, int, Dict[str, Any], Dict[str, Any]]) -> Part:
    first, maxlen, base_s, base_l = unit
    part = Part()
    seen_states = set()
    for n in range(1, maxlen + 1):
        for rest in itertools.product(range(len(MENU)), repeat=n - 1):
            ops = (first,) + rest
            for modes in itertools.product((True, False), repeat=n):
                res = run_schedule(ops, modes)
                part.count("evaluations")
                part.count("transitions", n)
                for i, (op, mode, got) in enumerate(zip(ops, modes, res)):
                    seen_states.add((ops[:i + 1], modes[:i + 1]))
                    want = (base_s if mode else base_l)[MENU_NAMES[op]]
                    got_n = (got[0], got[1])
                    if tuple(want) != got_n and json.dumps(list(want)) != json.dumps(list(got_n)):
                        hist = "".join("S" if m else "L" for m in modes[:i + 1])
                        flipped = len(set(modes[:i + 1])) > 1
                        part.violation(f"C17/flip/{MENU_NAMES[op]}/{'strict' if mode else 'lenient'}-step-differs-from-fresh-process",
                                       {"mode": "schedule", "ops": [MENU_NAMES[o] for o in ops[:i + 1]], "modes": list(modes[:i + 1])},
                                       f"modes {hist}{' (flipped)' if flipped else ''}: {MENU_NAMES[op]} gave {got_n}, a fresh {'strict' if mode else 'lenient'} process gives {tuple(want)}")
                part.add("nontrivial", digest((ops, modes)))
    part.sets["states"] = seen_states
    return part


# ---------------------------------------------------------------------------------------------
# (a) corpus: strict success => identical lenient result
# ---------------------------------------------------------------------------------------------
def corpus_unit(unit: Tuple[str, List[Dict[str, Any]]]) -> Part:
    from checks.codec_common import library_for, prog_case, tagkey
    name, progs = unit
    part = Part()
    set_mode(True)
    L = harness.Loaded(progs, library_for(progs))
    for prog in progs:
        msg = L.msg[prog["pid"]]
        tag = tagkey(prog)
        pdus = []
        for values in prog["assign"][:8]:
            part.count("evaluations")
            set_mode(True)
            pdu_s, exc_s, _ = harness.odx_encode(msg, values, prog.get("request"))
            set_mode(False)
            pdu_l, exc_l, _ = harness.odx_encode(msg, values, prog.get("request"))
            set_mode(True)
            case = {"mode": "corpus", "program": prog_case(prog), "values": jval(values)}
            if exc_s is None:
                part.count("strict_successes")
                part.add("nontrivial", digest((prog["tags"], pdu_s.hex())))
                pdus.append(pdu_s)
                if exc_l is not None:
                    part.violation(f"C17/corpus/{tag}/encode/lenient-raises-where-strict-succeeds", case, f"{type(exc_l).__name__}: {exc_l}")
                elif pdu_l != pdu_s:
                    part.violation(f"C17/corpus/{tag}/encode/lenient-result-differs", case, f"strict {pdu_s.hex()} lenient {pdu_l.hex()}")
            else:
                part.count("strict_failures")
        # decoding: own PDUs, their prefixes and all strings <= 2 over a small alphabet
        cands = list(pdus)
        for p in pdus[:2]:
            cands += [p[:i] for i in range(len(p))]
        alpha = sorted({0x00, 0xFF} | set(b for p in pdus[:2] for b in p))[:4]
        for n in range(0, 3):
            for t in itertools.product(alpha, repeat=n):
                cands.append(bytes(t))
        done = set()
        for pdu in cands:
            if pdu in done:
                continue
            done.add(pdu)
            part.count("evaluations")
            set_mode(True)
            d_s, e_s = harness.odx_decode(msg, pdu)
            set_mode(False)
            d_l, e_l = harness.odx_decode(msg, pdu)
            set_mode(True)
            case = {"mode": "corpus", "program": prog_case(prog), "values": None, "pdu": pdu.hex()}
            if e_s is None:
                part.count("strict_successes")
                if e_l is not None:
                    part.violation(f"C17/corpus/{tag}/decode/lenient-raises-where-strict-succeeds", case, f"{pdu.hex()}: {type(e_l).__name__}: {e_l}")
                elif jdump(show(d_s)) != jdump(show(d_l)):
                    part.violation(f"C17/corpus/{tag}/decode/lenient-result-differs", case, f"{pdu.hex()}: strict {show(d_s)} lenient {show(d_l)}")
            else:
                part.count("strict_failures")
    set_mode(True)
    return part


def run(ctx: Ctx) -> None:
    try:
        maxlen = 3 if ctx.quick else 4
        ctx.bounds = {"menu": MENU_NAMES, "schedule_length": maxlen, "modes_per_step": 2,
                      "corpus": "layer A (8-bit alphabets, strings, min-max, leading length, length keys) + layer C depth <= 2"}
        ctx.rule = ("(b) every operation sequence up to the length bound x every mode assignment; (a) every corpus operation in both "
                    "modes; non-trivial = distinct (sequence, modes) / (program, PDU)")
        ctx.assumptions = ["the process imports odxtools in strict mode and flips odxtools.exceptions.strict_mode at run time (as `odxtools --no-strict` does)",
                           "the menu covers one odxraise/odxassert-based problem per module family, not every call site",
                           "outcomes are compared as ('ok', JSON of the result) / ('error', exception class)"]
        base_s = fresh_baseline(True)
        base_l = fresh_baseline(False)
        ctx.extra["fresh_process_outcomes"] = {"strict": {k: list(v) for k, v in base_s.items()}, "lenient": {k: list(v) for k, v in base_l.items()}}
        # the menu must be what it claims to be: errors in strict mode, downgraded in lenient mode
        for name in MENU_NAMES:
            s, l = base_s[name], base_l[name]
            if name in DOWNGRADABLE:
                if s[0] != "error":
                    ctx.violation(f"C17/menu/{name}/not-an-error-in-strict-mode", {"mode": "menu", "op": name}, f"fresh strict process: {s}")
                elif l[0] == "error" and l[1] == s[1]:
                    ctx.violation(f"C17/menu/{name}/not-downgraded-in-lenient-mode", {"mode": "menu", "op": name}, f"fresh lenient process: {l}")
            else:
                if s != l or s[0] != "ok":
                    ctx.violation(f"C17/menu/{name}/valid-operation-depends-on-mode", {"mode": "menu", "op": name}, f"strict {s} lenient {l}")
        units = [(first, maxlen, base_s, base_l) for first in range(len(MENU))]
        pmap(ctx, schedule_unit, units)
        states = ctx.sets.pop("states")
        ctx.counts["states"] = len(states)
        # corpus
        cunits: List[Any] = []
        progs = [p for p in space.layer_c_programs(True) if len(p["tags"][1].split("+")) <= 2 and p["tags"][2] in ("modes:a", "modes:aa")]
        chunk = 120
        cunits += [(f"C/{c // chunk}", progs[c:c + chunk]) for c in range(0, len(progs), chunk)]
        a_units = space.layer_a_minmax_units(True) + space.layer_a_lead_units(True) + space.layer_a_plen_units(True) + \
            space.layer_a_string_units(True) + space.layer_a_mask_units(True) + space.layer_a_float_units(True) + space.layer_a_int_units(True)[::3]
        cunits += a_units
        pmap(ctx, corpus_unit, cunits)
        ctx.counts["traces_validated_against_impl"] = ctx.counts.get("evaluations", 0)
        ctx.sample({"ops": ["decode-invalid-utf8", "encode-valid", "decode-invalid-utf8"], "modes": ["strict", "lenient", "strict"]})
        ctx.guard("strict successes > 1000", ctx.counts.get("strict_successes", 0) > 1000)
        ctx.guard("strict failures > 100", ctx.counts.get("strict_failures", 0) > 100)
        ctx.guard("schedules > 1000", ctx.counts.get("states", 0) > 1000)
    finally:
        set_mode(True)


def replay(case: Any) -> List[Tuple[str, str]]:
    try:
        if case["mode"] == "menu":
            base_s, base_l = fresh_baseline(True), fresh_baseline(False)
            name = case["op"]
            s, l = base_s[name], base_l[name]
            out = []
            if name in DOWNGRADABLE:
                if s[0] != "error":
                    out.append((f"C17/menu/{name}/not-an-error-in-strict-mode", str(s)))
                elif l[0] == "error" and l[1] == s[1]:
                    out.append((f"C17/menu/{name}/not-downgraded-in-lenient-mode", str(l)))
            elif s != l or s[0] != "ok":
                out.append((f"C17/menu/{name}/valid-operation-depends-on-mode", f"{s} {l}"))
            return out
        if case["mode"] == "schedule":
            base_s, base_l = fresh_baseline(True), fresh_baseline(False)
            ops = tuple(MENU_NAMES.index(o) for o in case["ops"])
            modes = tuple(case["modes"])
            res = run_schedule(ops, modes)
            out = []
            for i, (op, mode, got) in enumerate(zip(ops, modes, res)):
                want = (base_s if mode else base_l)[MENU_NAMES[op]]
                if json.dumps(list(want)) != json.dumps([got[0], got[1]]):
                    out.append((f"C17/flip/{MENU_NAMES[op]}/{'strict' if mode else 'lenient'}-step-differs-from-fresh-process", f"{got} vs {want}"))
            return out
        from checks.codec_common import case_prog
        prog = case_prog(case["program"], case.get("values"))
        if case.get("pdu") is not None:
            prog["assign"] = []
        part = corpus_unit(("replay", [prog]))
        if case.get("pdu") is not None and not part.viol:
            # decode-only case: re-run the single PDU
            from checks.codec_common import library_for
            L = harness.Loaded([prog], library_for([prog]))
            msg = L.msg[prog["pid"]]
            pdu = bytes.fromhex(case["pdu"])
            set_mode(True)
            d_s, e_s = harness.odx_decode(msg, pdu)
            set_mode(False)
            d_l, e_l = harness.odx_decode(msg, pdu)
            set_mode(True)
            tag = __import__("checks.codec_common", fromlist=["tagkey"]).tagkey(prog)
            if e_s is None and e_l is not None:
                return [(f"C17/corpus/{tag}/decode/lenient-raises-where-strict-succeeds", str(e_l))]
            if e_s is None and jdump(show(d_s)) != jdump(show(d_l)):
                return [(f"C17/corpus/{tag}/decode/lenient-result-differs", "")]
        return [(k, v[2]) for k, v in part.viol.items()]
    finally:
        set_mode(True)
