"""C14 -- variant identification selects the first candidate whose pattern matches.

Bounded exhaustive exploration of odxtools.variantmatcher.VariantMatcher:

  * candidate pools are declared as data (odxmodel.refmatcher candidate dicts), emitted as ODX XML
    (odxmodel.emit_variants: ECU-VARIANT-PATTERNS / BASE-VARIANT-PATTERN) and loaded ONCE per family through the real
    loader; a candidate list is a Python list of the loaded EcuVariant / BaseVariant objects;
  * ALL candidate lists up to the family's length bound x ALL deterministic ECUs (every function from the list's
    identification requests to {value 1, value 2, negative response, undecodable bytes, empty reply}) x
    {cache, no cache, cache with the replies handed over in one reused mutable buffer};
  * the matcher is a generator: every yielded request is a scheduling point answered by the ECU.  The ECU function is
    enumerated lazily (a request seen for the first time branches four ways; a deterministic ECU repeats its earlier
    answer), states are rebuilt by replay on a fresh VariantMatcher.  Every total ECU function is an extension of
    exactly one leaf of that tree; the reference verdict is computed for every total extension separately.

Oracle (odxmodel.refmatcher.first_match -- no caching, no short-circuit, no request order): verdict index equal;
has_match() <-> matching_variant; same verdict with and without cache; every yielded request is an identification
request of a candidate's matching parameter; with caching no request is yielded twice; no exception.
"""
from __future__ import annotations

import itertools
from typing import Any, Dict, List, Optional, Sequence, Tuple

from mcx.core import Ctx, HarnessError, Part, digest, pmap
from odxmodel import emit, emit_variants
from odxmodel import refmatcher as ref

PROPERTY = "C14"
LEVEL = "model_checking"

ANSWERS = ref.ANSWERS


# ---------------------------------------------------------------------------------------------
# the description: services, matching parameters, candidate shapes, families
# ---------------------------------------------------------------------------------------------
def all_services() -> Dict[str, Dict[str, Any]]:
    s: Dict[str, Dict[str, Any]] = {
        "A": {"name": "A", "did": 0xF100, "layout": "top", "type": "u8"},
        "B": {"name": "B", "did": 0xF101, "layout": "top", "type": "u8"},
        # reply `62 F1 02 <wanted> <other>`: a variant's alternative definition of S reads `id` from the second byte
        "S": {"name": "S", "did": 0xF102, "layout": ref.SWAP, "type": "u8"},
    }
    i = 0
    for lay in ref.LAYOUTS:
        for typ in ref.VALUES:
            n = f"X_{lay}_{typ}"
            s[n] = {"name": n, "did": 0xF200 + 0x100 * (i // 0x80) + i % 0x80, "layout": lay, "type": typ}  # bit 7 is OWN_DID_FLAG
            i += 1
    return s


SERVICES = all_services()


def mp(svc: str, exp: str, tgt: str = "id", phys: Optional[bool] = None) -> Dict[str, Any]:
    return {"svc": svc, "exp": exp, "tgt": tgt, "phys": phys}


def seqs(alpha: Sequence[Any], lo: int, hi: int) -> List[List[Any]]:
    out: List[List[Any]] = []
    for n in range(lo, hi + 1):
        out.extend([list(t) for t in itertools.product(alpha, repeat=n)])
    return out


def shapes(alpha: Sequence[Dict[str, Any]], max_patterns: int, max_params: int, min_patterns: int = 0) -> List[List[List[Dict[str, Any]]]]:
    """all pattern lists: min..max patterns, each 1..max_params matching parameters over alpha (ordered, with repetition)"""
    pats = seqs(alpha, 1, max_params)
    return seqs(pats, min_patterns, max_patterns)


def ev(patterns: List[List[Dict[str, Any]]], own: Sequence[str] = (), alt: Sequence[str] = ()) -> Dict[str, Any]:
    c: Dict[str, Any] = {"kind": "EV", "patterns": patterns}
    if own:
        c["own"] = list(own)
    if alt:
        c["alt"] = list(alt)
    return c


def bv(patterns: List[List[Dict[str, Any]]], own: Sequence[str] = (), alt: Sequence[str] = ()) -> Dict[str, Any]:
    c: Dict[str, Any] = {"kind": "BV", "patterns": patterns}
    if own:
        c["own"] = list(own)
    if alt:
        c["alt"] = list(alt)
    return c


P3 = [mp("A", "1"), mp("A", "2"), mp("B", "1")]
QUICK_EXTRA_TYPES = ("u8", "u8z", "ascii")


class Family:

    def __init__(self, name: str, pool: List[Dict[str, Any]], maxlen: int, what: str):
        self.name = name
        self.pool = pool
        self.maxlen = maxlen
        self.what = what
        used = sorted({m["svc"] for c in pool for p in c["patterns"] for m in p} | {"A", "B"})
        self.services = {n: SERVICES[n] for n in used}
        self.objs: List[Any] = []
        # third mode (cache on, replies delivered in one reused mutable buffer): for the families whose lists ask a
        # cached request again after another request was answered; not for the layout x type families
        # (the two big thorough pools -- triples with 40 shapes, own-service with lists of three -- are explored in this mode
        # by the quick tier's smaller bounds only)
        self.buffer_mode = name in ("main", "deep", "triples", "quads", "own-service", "alt-service", "base", "neg-target") and self.nlists() <= 30000

    def nlists(self) -> int:
        return sum(len(self.pool)**n for n in range(self.maxlen + 1))

    def load(self) -> None:
        db = emit.load_db(emit_variants.variants_db(self.services, self.pool))
        by_name = {l.short_name: l for l in db.diag_layers}
        self.objs = [by_name[f"C{i}"] for i in range(len(self.pool))]


def families(quick: bool) -> List[Family]:
    fams: List[Family] = []
    main = [ev(s) for s in shapes(P3, 2, 2)]  # 157 shapes: 0..2 patterns x 1..2 matching parameters over {(A,1),(A,2),(B,1)}
    if quick:  # 76 shapes: of two patterns at least one has a single parameter
        main = [c for c in main if len(c["patterns"]) < 2 or min(len(p) for p in c["patterns"]) == 1]
    fams.append(Family("main", main, 2, "ECU variants, 0..2 patterns of 1..2 parameters over {(A,'1'),(A,'2'),(B,'1')}"
                       + (" (two-pattern shapes: at least one pattern with a single parameter)" if quick else "") + ", lists of <= 2"))
    # deep shapes: exactly 3 single-parameter patterns / one 3-parameter pattern (plus the plain single patterns to mix with)
    deep = [ev([[a], [b], [c]]) for a in P3 for b in P3 for c in P3] + [ev([[a, b, c]]) for a in P3 for b in P3 for c in P3] + \
        [ev([[a]]) for a in P3]
    fams.append(Family("deep", deep, 2, "ECU variants with 3 patterns of 1 parameter or 1 pattern of 3 parameters, lists of <= 2"))
    small = [ev(s) for s in shapes(P3, 1, 2)] + [ev([[a], [b]]) for a in P3 for b in P3]  # 13 + 9
    tiny = [ev([]), ev([[P3[0]]]), ev([[P3[1]]]), ev([[P3[2]]]), ev([[P3[0], P3[2]]]), ev([[P3[1]], [P3[2]]]), ev([[P3[2], P3[1]]])]
    if quick:
        fams.append(Family("triples", tiny, 3, "ECU variants, 7 shapes, lists of <= 3"))
    else:
        fams.append(Family("triples", small, 3, "ECU variants, 22 shapes (<= 1 pattern of <= 2 parameters, or 2 single-parameter patterns), lists of <= 3"))
        fams.append(Family("quads", tiny, 4, "ECU variants, 7 shapes, lists of <= 4"))
    # a variant that re-defines service A under the same short name with a different request ("distinct services")
    own_pool = [ev(s) for s in shapes(P3, 1, 2)] + [ev(s, own=["A"]) for s in shapes(P3, 1, 2)]
    fams.append(Family("own-service", own_pool, 2 if quick else 3,
                       "ECU variants with <= 1 pattern, each also with its own re-definition of service A (other request bytes)"))
    # a variant that re-defines service S under the same short name with the SAME request but another response layout:
    # identical request, identical reply bytes, different decoded value
    PS = [mp("S", "1"), mp("S", "2"), mp("A", "1")]
    alt_pool = [ev(s) for s in shapes(PS, 1, 2)] + [ev(s, alt=["S"]) for s in shapes(PS, 1, 2)]
    fams.append(Family("alt-service", alt_pool, 2,
                       "ECU variants with <= 1 pattern over {(S,'1'),(S,'2'),(A,'1')}, each also with its own alternative definition of "
                       "service S (same request bytes, identification value at another byte of the response)"))
    # base variants: at most one pattern; per-parameter physical / functional addressing
    PB = [mp(s, e, phys=ph) for (s, e) in (("A", "1"), ("A", "2"), ("B", "1")) for ph in (None, False)]
    if quick:
        base_pool = [bv([])] + [bv([[a]]) for a in PB] + [bv([[a, b]]) for a in PB[:2] for b in PB if a is not b]
    else:
        base_pool = [bv(s) for s in shapes(PB, 1, 2)]
    base_pool += [bv([[mp("A", "1", phys=True)]]), bv([[mp("A", "2", phys=True), mp("B", "1", phys=False)]])]
    fams.append(Family("base", base_pool, 2, "base variants, 0..1 pattern of 1..2 parameters, USE-PHYSICAL-ADDRESSING absent/false/true"))
    # base variants WITHOUT a pattern (and with one) whose equally named services differ from those of the other candidates:
    # a candidate without patterns never matches and none of its services is ever asked
    PBS = [mp("S", "1"), mp("S", "2"), mp("A", "1")]
    bshapes = shapes(PBS, 1, 2)  # no pattern, or one pattern of 1..2 parameters
    fams.append(Family("base-alt", [bv(s) for s in bshapes] + [bv(s, alt=["S"]) for s in bshapes] + [bv(s, own=["A"]) for s in bshapes], 2,
                       "base variants with 0..1 pattern over {(S,'1'),(S,'2'),(A,'1')}, each also with an alternative definition of S (same "
                       "request, other response layout) and with its own definition of A (other request)"))
    # matching parameters that point into the negative response
    PN = [mp("A", str(ref.NRC), tgt="nrc"), mp("A", "1"), mp("B", str(ref.NRC), tgt="nrc")]
    fams.append(Family("neg-target", [ev(s) for s in shapes(PN, 1, 2)] + [ev([[a], [b]]) for a in PN for b in PN], 2,
                       "ECU variants whose matching parameter targets the NRC parameter of the negative response"))
    # matching parameters that point into the GLOBAL negative response: inherited (defined in the functional group, reaches the
    # ECU variant through the base variant) or the candidate's own copy
    PG = [mp("A", str(ref.GSID), tgt="gsid"), mp("A", "1"), mp("B", str(ref.GSID), tgt="gsid")]
    gshapes = shapes(PG, 1, 2) + [[[a], [b]] for a in PG for b in PG]
    fams.append(Family("gnr-target", [ev(s) for s in gshapes] + [dict(ev(s), gnr=True) for s in gshapes], 2,
                       "ECU variants whose matching parameter targets a parameter that only the GLOBAL-NEG-RESPONSE has; the response is "
                       "inherited from the functional group or defined again in the candidate"))
    # response layouts x DOP types
    for lay in ref.LAYOUTS:
        for typ in ref.VALUES:
            if quick and lay in ref.EXTRA_LAYOUTS and typ not in QUICK_EXTRA_TYPES:
                continue  # quick: the extra field arrangements / nested paths / two-response services only for three types
            if quick and typ in ref.QUICK_FEW_LAYOUT_TYPES and lay not in ("top", "struct", "field"):
                continue  # quick: lower-case spelled expected values at an SNREF leaf, in a structure and in a field
            x = f"X_{lay}_{typ}"
            alpha = [mp(x, ref.expected_text(typ, ref.VALUES[typ]["V1"])), mp(x, ref.expected_text(typ, ref.VALUES[typ]["V2"])), mp("A", "1")]
            pool = [ev(s) for s in shapes(alpha, 1, 2)]
            if not quick and lay in ref.BASE_LAYOUTS:
                pool += [ev([[a], [b]]) for a in alpha for b in alpha]  # two-pattern shapes: base layouts only (time budget)
            fams.append(Family(f"{lay}-{typ}", pool, 2,
                               f"identification parameter of type {typ} addressed as {emit_variants.out_param_path(SERVICES[x], 'id')}"))
    return fams


# ---------------------------------------------------------------------------------------------
# driving the real matcher
# ---------------------------------------------------------------------------------------------
class Outcome:
    __slots__ = ("verdict", "error", "after", "trace", "foreign", "has_match", "mv_is_candidate", "impl_states")

    def __init__(self) -> None:
        self.verdict: Optional[int] = None
        self.error: Optional[str] = None  # "ExcType: message"
        self.after = "start"  # the answer given last before an exception
        self.trace: List[Tuple[str, str]] = []  # (request key, answer)
        self.foreign: Optional[str] = None
        self.has_match: Optional[bool] = None
        self.mv_is_candidate = True
        self.impl_states: List[Any] = []

    def short(self) -> Any:
        return {"verdict": self.verdict, "error": self.error, "requests": [k for k, _ in self.trace], "foreign": self.foreign}


class _Foreign(Exception):
    pass


def impl_state(m: Any, gen: Any, objs: Sequence[Any]) -> Any:
    """(position, cache contents, recent response, verdict state) of the real matcher -- observation only."""
    pos: Any = None
    try:
        fl = gen.gi_frame.f_locals if gen.gi_frame is not None else {}
        v = fl.get("variant")
        vi = next((i for i, o in enumerate(objs) if o is v), None)
        pats = fl.get("variant_patterns") or []
        p = fl.get("pattern")
        pi = next((i for i, o in enumerate(pats) if o is p), None)
        mps = p.get_matching_parameters() if p is not None else []
        q = fl.get("matching_param")
        qi = next((i for i, o in enumerate(mps) if o is q), None)
        pos = (vi, pi, qi)
    except Exception:
        pos = "?"
    try:
        cache = tuple(sorted((repr(k), bytes(v).hex()) for k, v in m.req_resp_cache.items()))
        recent = None if m._recent_ident_response is None else bytes(m._recent_ident_response).hex()
        st = m._state.name
    except Exception:
        cache, recent, st = "?", "?", "?"
    return (pos, cache, recent, st)


def drive(objs: Sequence[Any], use_cache: bool, answer_for: Any, reply: Any, observe: bool = True, reuse_buffer: bool = False) -> Outcome:
    """One run of request_loop()/evaluate() on a FRESH matcher. answer_for(key) -> answer symbol (raises _Foreign for a
    request that is not an identification request of the list); reply(key, answer) -> bytes.
    reuse_buffer: the tester hands every reply to evaluate() in ONE mutable receive buffer (a bytearray that is
    overwritten when the next reply arrives, as with recv_into); the buffer is left alone until the next request."""
    from odxtools.variantmatcher import VariantMatcher
    out = Outcome()
    m = VariantMatcher(list(objs), use_cache=use_cache)
    rxbuf = bytearray()
    try:
        gen = m.request_loop()
        if observe:
            out.impl_states.append(impl_state(m, gen, objs))
        for item in gen:
            phys, req = item
            key = ("P:" if phys else "F:") + bytes(req).hex()
            try:
                a = answer_for(key)
            except _Foreign:
                out.foreign = key
                gen.close()
                return out
            if reuse_buffer:
                rxbuf[:] = reply(key, a)
                m.evaluate(rxbuf)
            else:
                m.evaluate(reply(key, a))
            out.trace.append((key, a))
            out.after = a
            if observe:
                out.impl_states.append(impl_state(m, gen, objs))
        out.has_match = bool(m.has_match())
        mv = m.matching_variant
        if mv is not None:
            idx = next((i for i, o in enumerate(objs) if o is mv), None)
            if idx is None:
                out.mv_is_candidate = False
            out.verdict = idx
        if observe:
            out.impl_states.append(("end", impl_state(m, gen, objs)[1:], out.verdict))
    except Exception as e:  # the statement promises a report (match / no match) for every deterministic ECU
        out.error = f"{type(e).__name__}: {str(e)[:160]}"
    return out


def explore_tree(objs: Sequence[Any], keys: Sequence[str], use_cache: bool, reply: Any,
                 reuse_buffer: bool = False) -> List[Tuple[Dict[str, str], Outcome]]:
    """Lazy enumeration of all ECU functions over `keys`: depth-first over the answers to requests seen for the first
    time; each leaf is one complete run on a fresh matcher (replay)."""
    leaves: List[Tuple[Dict[str, str], Outcome]] = []
    stack: List[Tuple[str, ...]] = [()]
    keyset = set(keys)
    while stack:
        forced = stack.pop()
        assign: Dict[str, str] = {}

        def answer_for(key: str) -> str:
            if key in assign:
                return assign[key]  # deterministic ECU
            if key not in keyset:
                raise _Foreign(key)
            i = len(assign)
            if i < len(forced):
                a = forced[i]
            else:
                base = tuple(assign.values())
                for alt in reversed(ANSWERS[1:]):
                    stack.append(base + (alt,))
                a = ANSWERS[0]
            assign[key] = a
            return a

        out = drive(objs, use_cache, answer_for, reply, reuse_buffer=reuse_buffer)
        leaves.append((dict(assign), out))
    return leaves


def make_reply(services: Dict[str, Dict[str, Any]]) -> Any:
    by_req: Dict[str, Tuple[Dict[str, Any], bool]] = {}
    for s in services.values():
        by_req[ref.request_bytes(s, False).hex()] = (s, False)
        by_req[ref.request_bytes(s, True).hex()] = (s, True)
    memo: Dict[Tuple[str, str], bytes] = {}

    def reply(key: str, answer: str) -> bytes:
        r = memo.get((key, answer))
        if r is None:
            r = memo[(key, answer)] = ref.reply_for(key, answer, by_req)
        return r

    return reply


# ---------------------------------------------------------------------------------------------
# oracle
# ---------------------------------------------------------------------------------------------
def verdict_failure(exp: Optional[int], got: Optional[int]) -> Optional[str]:
    if exp == got:
        return None
    if got is None:
        return "missed-match"
    if exp is None:
        return "spurious-match"
    return "later-candidate" if got > exp else "earlier-candidate"


def mixed_addressing(ecu: Dict[str, str]) -> bool:
    """the ECU answers the same request bytes differently under physical and functional addressing"""
    return any(k.startswith("P:") and ("F:" + k[2:]) in ecu and ecu["F:" + k[2:]] != a for k, a in ecu.items())


MODES = (("cache", True, False), ("nocache", False, False), ("cache+reused-buffer", True, True))


def judge_run(fam: str, use_cache: bool, out: Outcome, keys: Sequence[str], mode: Optional[str] = None) -> List[Tuple[str, str]]:
    """Oracles that look at one run only (independent of the undecided part of the ECU function)."""
    probs: List[Tuple[str, str]] = []
    mode = mode or ("cache" if use_cache else "nocache")
    if out.foreign is not None:
        probs.append((f"C14/foreign-request/{fam}", f"[{mode}] yielded {out.foreign}, identification requests of the candidates are {list(keys)}"))
        return probs
    if out.error is not None:
        exc = out.error.split(':')[0]
        # before any reply the failure cannot depend on layout / type / candidates' values: one key for all families
        if not out.trace:
            key = f"C14/raises/{exc}/before-first-reply/{mode}"
        elif out.after == "EMPTY":
            key = f"C14/raises/{exc}/after-EMPTY"  # a reply of zero bytes reaches no decoder: independent of layout, type and mode
        else:
            key = f"C14/raises/{fam}/{exc}/after-{out.after}"
        probs.append((key, f"[{mode}] request loop raised {out.error} after requests {out.trace}"))
        return probs
    if use_cache:
        seen = set()
        for k, _ in out.trace:
            if k in seen:
                probs.append((f"C14/request-repeated-with-cache/{fam}", f"request {k} yielded twice: {[k for k, _ in out.trace]}"))
                break
            seen.add(k)
    if out.has_match != (out.verdict is not None) and out.mv_is_candidate:
        probs.append((f"C14/has-match-inconsistent/{fam}", f"[{mode}] has_match()={out.has_match} but matching_variant index={out.verdict}"))
    if not out.mv_is_candidate:
        probs.append((f"C14/matching-variant-not-a-candidate/{fam}", f"[{mode}] matching_variant is not one of the candidate objects"))
    return probs


def judge_verdicts(fam: str, exp: Optional[int], got_cache: Outcome, got_nocache: Outcome, ecu: Dict[str, str]) -> List[Tuple[str, str]]:
    """Verdict oracles for one total ECU function.  A wrong verdict that appears only with the cache is reported as
    `cache-changes-verdict` (one key per defect), a verdict that is wrong without the cache as `verdict/...`."""
    probs: List[Tuple[str, str]] = []
    sens = "/addressing-sensitive-ecu" if mixed_addressing(ecu) else ""

    def usable(o: Outcome) -> bool:
        return o.error is None and o.foreign is None and o.mv_is_candidate

    def report(mode: str, out: Outcome) -> None:
        f = verdict_failure(exp, out.verdict)
        if f:
            probs.append((f"C14/verdict/{fam}/{f}{sens}",
                          f"[{mode}] reference: candidate {exp}, matcher: candidate {out.verdict}; ecu {ecu}; requests {[k for k, _ in out.trace]}"))

    if usable(got_nocache):
        report("nocache", got_nocache)
    if usable(got_cache):
        if not usable(got_nocache):
            report("cache", got_cache)
        elif got_cache.verdict != got_nocache.verdict:
            probs.append((f"C14/cache-changes-verdict/{fam}{sens}",
                          f"with cache: candidate {got_cache.verdict}, without: candidate {got_nocache.verdict} (reference {exp}); ecu {ecu}; "
                          f"requests with cache {[k for k, _ in got_cache.trace]}, without {[k for k, _ in got_nocache.trace]}"))
            if verdict_failure(exp, got_nocache.verdict):
                report("cache", got_cache)  # both wrong, differently
    return probs


def judge_buffer(fam: str, exp: Optional[int], got_cache: Outcome, got_buf: Outcome, ecu: Dict[str, str]) -> List[Tuple[str, str]]:
    """The tester's receive buffer is the tester's: re-using it for the next reply must not change the outcome."""
    if got_buf.error is not None or got_buf.foreign is not None or not got_buf.mv_is_candidate:
        return []  # reported by judge_run
    if got_buf.verdict == exp:
        return []
    if got_cache.error is None and got_cache.foreign is None and got_cache.verdict != exp:
        return []  # wrong already with immutable replies: reported as verdict / cache-changes-verdict
    return [(f"C14/reused-receive-buffer-changes-verdict/{fam}",
             f"replies handed over in one reused bytearray, cache on: candidate {got_buf.verdict}; with immutable replies: candidate "
             f"{got_cache.verdict} (reference {exp}); ecu {ecu}; requests {[k for k, _ in got_buf.trace]}")]


# ---------------------------------------------------------------------------------------------
# one candidate list: all modes, all ECU functions
# ---------------------------------------------------------------------------------------------
def check_list(part: Part, fam: Family, idxs: Tuple[int, ...], cand_memo: Dict[Any, bool]) -> None:
    cands = [fam.pool[i] for i in idxs]
    objs = [fam.objs[i] for i in idxs]
    keys = ref.request_keys(cands, fam.services)
    reply = _REPLY[fam.name]
    verdicts: Dict[str, Dict[Tuple[str, ...], Outcome]] = {}
    for mode, use_cache, reuse in MODES:
        if reuse and not fam.buffer_mode:
            continue
        leaves = explore_tree(objs, keys, use_cache, reply, reuse_buffer=reuse)
        table: Dict[Tuple[str, ...], Outcome] = {}
        nodes = set()  # prefixes of (request, answer) sequences = inner nodes of the exploration tree
        ends = set()  # finished runs (verdict states)
        impl = set()
        for assign, out in leaves:
            part.count("impl_runs")
            part.count("traces_validated_against_impl")
            for n in range(len(out.trace) + 1):
                nodes.add(tuple(out.trace[:n]))
            ends.add((tuple(out.trace), out.verdict, out.error))
            impl.update(out.impl_states)
            for a in {a for _, a in out.trace}:
                part.add("answers_used", a)
            if out.trace:
                part.add("nontrivial", digest((fam.name, mode, [(k, a) for k, a in out.trace], out.verdict, out.error)))
            for key, detail in judge_run(fam.name, use_cache, out, keys, mode):
                ecu = dict(assign)
                for k in keys:
                    ecu.setdefault(k, ANSWERS[0])
                part.violation(key, make_case(fam, cands, ecu), detail)
            undecided = [k for k in keys if k not in assign]
            for combo in itertools.product(ANSWERS, repeat=len(undecided)):
                full = dict(assign)
                full.update(zip(undecided, combo))
                fkey = tuple(full[k] for k in keys)
                if fkey in table:
                    raise HarnessError(f"lazy ECU enumeration covered {fkey} twice for {idxs} in {fam.name}")
                table[fkey] = out
        if len(table) != len(ANSWERS)**len(keys):
            raise HarnessError(f"lazy ECU enumeration covered {len(table)} of {len(ANSWERS)**len(keys)} functions for {idxs} in {fam.name}")
        verdicts[mode] = table
        part.count("states", len(nodes) + len(ends))
        part.count("transitions", len(nodes) - 1)  # every non-root prefix is reached by answering one request
        part.count("impl_states", len(impl))
    # the reference, for every total ECU function
    for fkey, oc in verdicts["cache"].items():
        on = verdicts["nocache"][fkey]
        ecu = dict(zip(keys, fkey))
        exp = None
        for i, pi in enumerate(idxs):
            ck = (fam.name, pi, tuple(ecu[k] for k in _CAND_KEYS[fam.name][pi]))
            hit = cand_memo.get(ck)
            if hit is None:
                hit = cand_memo[ck] = ref.candidate_matches(fam.pool[pi], ecu, fam.services)
            if hit:
                exp = i
                break
        part.count("evaluations", 2)
        part.add("verdicts", "none" if exp is None else f"candidate{exp}")
        if len(on.trace) > len(oc.trace):
            part.count("functions_where_cache_saved_requests")
        for key, detail in judge_verdicts(fam.name, exp, oc, on, ecu):
            part.violation(key, make_case(fam, cands, ecu), detail)
        if fam.buffer_mode:
            part.count("evaluations", 1)
            for key, detail in judge_buffer(fam.name, exp, oc, verdicts["cache+reused-buffer"][fkey], ecu):
                part.violation(key, make_case(fam, cands, ecu), detail)


def make_case(fam: Family, cands: List[Dict[str, Any]], ecu: Dict[str, str]) -> Dict[str, Any]:
    used = sorted({m["svc"] for c in cands for p in c["patterns"] for m in p} | {"A", "B"})
    return {"family": fam.name, "services": {n: SERVICES[n] for n in used}, "cands": cands, "ecu": ecu}


_FAMS: Dict[str, Family] = {}
_REPLY: Dict[str, Any] = {}
_CAND_KEYS: Dict[str, List[List[str]]] = {}


def list_unit(unit: Tuple[str, int, int]) -> Part:
    """all lists of the family whose first element is pool member `first` (first == -1: the empty list)"""
    fname, first, maxlen = unit
    fam = _FAMS[fname]
    part = Part()
    memo: Dict[Any, bool] = {}
    if first < 0:
        check_list(part, fam, (), memo)
        part.count("lists")
        return part
    n = len(fam.pool)
    for rest_len in range(maxlen):
        for rest in itertools.product(range(n), repeat=rest_len):
            check_list(part, fam, (first,) + rest, memo)
            part.count("lists")
    if first % 16 == 3:
        part.sample({"family": fname, "list": [fam.pool[first]], "requests": _CAND_KEYS[fname][first]}, limit=1)
    return part


def run(ctx: Ctx) -> None:
    import odxtools.exceptions
    odxtools.exceptions.strict_mode = True
    fams = families(ctx.quick)
    units: List[Tuple[str, int, int]] = []
    for f in fams:
        f.load()
        _FAMS[f.name] = f
        _REPLY[f.name] = make_reply(f.services)
        _CAND_KEYS[f.name] = [ref.request_keys([c], f.services) for c in f.pool]
        # the loaded descriptions say what the reference says (request bytes of every matching parameter)
        for c, o in zip(f.pool, f.objs):
            for pat in c["patterns"]:
                for m in pat:
                    svc = [s for s in o.services if s.short_name == m["svc"]]
                    real = svc[0].encode_request().hex() if len(svc) == 1 else None
                    if real != ref.request_key(c, m, f.services)[2:]:
                        raise HarnessError(f"emitted service {m['svc']} encodes {real}, reference says {ref.request_key(c, m, f.services)}")
        units.append((f.name, -1, f.maxlen))
        units.extend((f.name, i, f.maxlen) for i in range(len(f.pool)))
    ctx.bounds = {"families": {f.name: {"pool": len(f.pool), "max_list_length": f.maxlen, "lists": f.nlists(), "what": f.what} for f in fams},
                  "ecu_answer_alphabet": list(ANSWERS),
                  "modes": [m for m, _, _ in MODES], "reused_buffer_mode_families": sorted(f.name for f in fams if f.buffer_mode),
                  "replies": {"V1/V2": "62 <did> <payload>", "NEG": "7F 22 31", "BAD": "62 <did high byte> (truncated)", "EMPTY": "(zero bytes)"}}
    ctx.rule = ("every candidate list of every family x every function from the list's identification requests to "
                "{V1,V2,NEG,BAD,EMPTY} x {cache, no cache, cache + reused receive buffer}; non-trivial = distinct (family, mode, sequence of (request, answer), "
                "verdict) behaviours with at least one request")
    ctx.assumptions = [
        "strict mode (odxtools.exceptions.strict_mode = True); evaluate() is called exactly once per yielded request",
        "a deterministic ECU is a function of (addressing mode, request bytes); findings that need an ECU answering the same "
        "bytes differently under physical and functional addressing carry the key suffix /addressing-sensitive-ecu",
        "undecodable reply = a truncated positive response that no response of the service can decode (a reply of the right "
        "length with wrong constants is decoded with a warning by design -- DON'T-CARE, not generated)",
        "EMPTY = a reply of zero bytes: a reply like any other (every response object here has parameters, so none decodes it -> "
        "the parameter does not match; the matcher must not raise)",
        "expected values: decimal without leading zeros, repr of the float, hex for byte fields and 0x.. for DTCs in upper case and "
        "(types byteslc / dtclc) in lower case -- a hex text denotes bytes / a number, its letter case carries no meaning",
        "the tester may hand every reply to evaluate() in one mutable receive buffer that it overwrites when the next reply "
        "arrives (mode cache+reused-buffer); the buffer is never touched between evaluate() and the next yielded request",
        "a service with two positive responses that both decode the reply (short one tolerating trailing bytes): the decoded value "
        "of a parameter is the one of the response object that exhibits it (layouts tworesp / tworesp_r)",
        "SNPATHREF through a TABLE-STRUCT parameter follows the odxtools reading <table-struct>.<parameter of the row structure>",
        "candidate lists are homogeneous (all ECU variants or all base variants), as the constructor's type says",
    ]
    ctx.extra["state_definition"] = (
        "state = (candidate list, cache flag, decided part of the ECU function in order of first use = sequence of answered "
        "(request, answer) pairs) plus one verdict state per finished run; transitions = requests answered (tree edges). "
        "impl_states = distinct observed (generator position (variant, pattern, parameter), req_resp_cache contents, "
        "_recent_ident_response, _state) per candidate list and cache flag. evaluations = (list, total ECU function, cache flag) "
        "triples whose verdict was compared with the reference; impl_runs = complete runs of request_loop() on a fresh matcher "
        "(one per leaf of the lazily enumerated ECU function tree; each total function extends exactly one leaf -- asserted).")
    pmap(ctx, list_unit, units)
    c = ctx.counts
    ctx.sample({"family": "main", "cands": [fams[0].pool[5], fams[0].pool[20]], "ecu": {"P:22f100": "V2", "P:22f101": "V1"}})
    ctx.guard("both 'no match' and a match at index 0 and 1 were expected somewhere",
              {"none", "candidate0", "candidate1"} <= ctx.sets.get("verdicts", set()))
    ctx.guard("a match at index 2 was expected somewhere (lists of three)", "candidate2" in ctx.sets.get("verdicts", set()))
    ctx.guard("every answer symbol was actually sent", set(ANSWERS) <= ctx.sets.get("answers_used", set()))
    ctx.guard("caching saved requests for some ECU functions", c.get("functions_where_cache_saved_requests", 0) > 0)
    ctx.guard("lists enumerated == declared bound", c.get("lists", 0) == sum(f.nlists() for f in fams))
    ctx.guard("more than 1000 real runs", c.get("impl_runs", 0) > 1000)


# ---------------------------------------------------------------------------------------------
# replay of one recorded case: {family, services, cands, ecu}
# ---------------------------------------------------------------------------------------------
def replay(case: Any) -> List[Tuple[str, str]]:
    import odxtools.exceptions
    odxtools.exceptions.strict_mode = True
    services = case["services"]
    cands = case["cands"]
    fam = case["family"]
    ecu: Dict[str, str] = dict(case["ecu"])
    db = emit.load_db(emit_variants.variants_db(services, cands))
    by_name = {l.short_name: l for l in db.diag_layers}
    objs = [by_name[f"C{i}"] for i in range(len(cands))]
    keys = ref.request_keys(cands, services)
    reply = make_reply(services)
    probs: List[Tuple[str, str]] = []

    def answer_for(key: str) -> str:
        if key not in keys:
            raise _Foreign(key)
        return ecu[key]

    outs = {}
    for mode, use_cache, reuse in MODES:
        out = drive(objs, use_cache, answer_for, reply, observe=False, reuse_buffer=reuse)
        outs[mode] = out
        probs.extend(judge_run(fam, use_cache, out, keys, mode))
    exp = ref.first_match(cands, ecu, services)
    probs.extend(judge_verdicts(fam, exp, outs["cache"], outs["nocache"], ecu))
    probs.extend(judge_buffer(fam, exp, outs["cache"], outs["cache+reused-buffer"], ecu))
    return probs
