"""C11 -- writing a database to PDX and loading it back preserves it.

Enumerated (exhaustively, no sampling):
 (a) base databases, all LOADED from files: examples/somersault.pdx, examples/somersault_modified.pdx and the
     generated kitchen-sink database of odxmodel.emit_c11 (core + ~160 features; a feature that makes the round
     trip raise in isolation is a finding `C11/<class.field>/crash` and is left out of the database that is perturbed);
 (b) for every (element class, dataclass field) pair reachable in them x every applicable perturbation kind
     (set: None -> value, flip: bool, inc: number + 1, next: enum -> next member, meta: string -> XML
     metacharacters, alt: other string of the same lexical shape, grow: list -> one more element, retarget:
     reference -> other target, docref: reference -> explicit DOCREF) the first instance (of at most MAXCAND) on
     which the perturbed database is still self-consistent: write_pdx_file -> load_pdx_file -> compare, write
     again -> compare members.  Admissible = Database.refresh() accepts the perturbed object graph AND the parser
     accepts the written document or -- loaded with strict_mode off -- the written document is NOT faithful;
 (c) archive member orders (all permutations of the ODX documents for the generated database and -- thorough --
     for somersault, rotations + reversal in quick) x {load_pdx_file, load_directory, load_files (paths / bare names)}.
Oracle: identity (odxmodel.refroundtrip): the reloaded object graph equals the written one in every dataclass
field the parser reads from the element, ODX members of two successive writes are byte-identical, canonical
encode/decode of every service agrees.  Finding keys: C11/<Class>.<field>/<dropped|altered|mis-escaped|crash>,
C11/entrypoint/<loader>/..., C11/order/<loader>/..., C11/behaviour/<step>.
"""
from __future__ import annotations

import copy
import dataclasses
import io
import os
import re
import typing
import zipfile
from typing import Any, Dict, Iterable, List, Optional, Sequence, Tuple
from xml.etree import ElementTree

from mcx.core import Ctx, Part, digest, jdump, pmap, repo_root
from odxmodel import emit_c11 as E
from odxmodel import refroundtrip as R
from odxmodel.emit import scratch_dir

PROPERTY = "C11"
LEVEL = "exploration"

# auxiliary files with unusual but legal names: leading dot, no extension, upper-case extension, spaces, several dots, non-ASCII
UNUSUAL_AUX_FILES = {".flash_layout": b"hidden?\n", "README": b"no extension\n", "NOTES.TXT": b"upper-case extension\n", "my flash data.bin": b"\x00\x01 spaces",
                     "a.b.c.tar.gz": b"several dots", ".hidden.JSON": b"{}", "Gr\u00fc\u00dfe.txt": b"non-ascii name"}
MODEL_VERSIONS = ("2.0.1", "2.1.0", "2.2.1", "2.3.0")  # besides 2.2.0
MAXCAND = 4  # instances tried per (class, field, kind) until one keeps the database self-consistent
SHIPPED = {"somersault": "examples/somersault.pdx", "somersault_modified": "examples/somersault_modified.pdx"}

# ---- policy tables (every entry has its reason; all are reported in the evidence) ---------------------------
# fields whose value the parser does not read from the element itself but receives from the enclosing element
DERIVED = {
    "physical_type": "compu method: copy of the DOP's PHYSICAL-TYPE/BASE-DATA-TYPE",
    "internal_type": "compu method: copy of the DOP's DIAG-CODED-TYPE/BASE-DATA-TYPE",
    "domain_type": "compu scale: passed down by the compu method", "range_type": "compu scale: passed down by the compu method",
    "value_type": "limit / constraint / coefficients: passed down by the enclosing element",
    "data_type": "compu const: passed down by the compu scale",
    "table_ref": "TableRow.table_ref is made from the ID of the enclosing TABLE",
    "doc_fragments": "OdxLinkId.doc_fragments are the names of the enclosing document and layer",
}
DERIVED_OWNERS = {
    "physical_type": ("CompuMethod",), "internal_type": ("CompuMethod",), "domain_type": ("CompuScale",), "range_type": ("CompuScale",),
    "value_type": ("Limit", "InternalConstr", "ScaleConstr", "CompuRationalCoeffs"), "data_type": ("CompuConst",), "table_ref": ("TableRow",),
}
# fields that only repeat which class / which list the element belongs to (written as the XML tag or xsi:type)
DISCRIMINATOR = {("CompuMethod", "category"): "the compu method class is chosen by CATEGORY",
                 ("DiagLayerRaw", "variant_type"): "is the XML tag of the layer",
                 ("Response", "response_type"): "is the XML tag of the response (list it is stored in)"}
# values typed by BASE-DATA-TYPE: they legitimately re-parse differently when only the type is perturbed
TYPED_BY_BASE_TYPE = {("CodedConstParameter", "coded_value"), ("NrcConstParameter", "coded_values"), ("CompuRationalCoeffs", "numerators"),
                      ("CompuRationalCoeffs", "denominators"), ("TableRow", "key_raw")}
NAME_LIKE = re.compile(r"short_name|snref|snpathref|not_inherited|_if_refs$|local_id|ref_id|doc_name")
MARKUP = {("Description", "text"): "holds serialised XHTML, not plain text"}
NUMERIC_TEXT = {("CompuConst", "v"): "xsd:double", ("CompuDefaultValue", "v"): "xsd:double",
                ("Limit", "value_raw"): "a limit of a numeric type is a number (the parser converts it while loading)"}
# perturbations judged by hand to leave the envelope although refresh() accepts them (the parser rejects the written document,
# also with strict_mode off, and the document is written faithfully)
INADMISSIBLE = {
    ("LinkedDtcDop.dtc_dop_ref.ref_id", "retarget"): "NOT-INHERITED-DTC-SNREFS name DTCs of the linked DTC-DOP; another target does not have them",
    ("ComparamSubset.category", "empty"): "the parser takes a COMPARAM-SUBSET with an empty CATEGORY for an ODX 2.0 COMPARAM-SPEC (`if category`), which changes "
                                          "the document type of every ID in it: such a document cannot be loaded in the first place",
    ("TableKeyParameter.table_row_snref", "set"): "TABLE-ROW-SNREF without a table: the parser cannot resolve it (AttributeError '_table')",
}
# string fields whose VALUE is used by encoding / decoding / matching: '' and absent are different things there
EMPTY_MATTERS = {
    "physical_default_value_raw": "an empty default makes the parameter optional (is_required), absent makes it required",
    "physical_default_value": "default value of a communication / job parameter", "physical_constant_value_raw": "the constant of a PHYS-CONST parameter",
    "coded_value": "the constant of a CODED-CONST parameter", "value_raw": "a limit", "vt": "text of a compu scale / default value",
    "v": "value of a compu scale", "key_raw": "key of a table row", "termination_value_raw": "termination value of an end-marker field",
    "expected_value": "value a variant pattern matches", "value": "value of a communication parameter / special data",
    "text": "text of a DTC / description",
}
# fields that only exist together (one XML element carries both): setting one of them alone is not a database the parser can produce
COMPANIONS = {("DiagVariable", "table_snref"): "table_row_snref", ("DiagVariable", "table_row_snref"): "table_snref"}
PRESENCE_FLAGS = {("EnvironmentData", "all_value"): "presence of the empty element ALL-VALUE: the parser yields None or True, never False"}
CHOICE_GROUPS = {
    "Field": ("structure_ref", "structure_snref", "env_data_desc_ref", "env_data_desc_snref"),
    "TableRow": ("structure_ref", "structure_snref", "dop_ref", "dop_snref"),
    "TableKeyParameter": ("table_ref", "table_snref", "table_row_ref", "table_row_snref"),
    "PosResponseSuppressible": ("coded_const_snref", "coded_const_snpathref", "value_snref", "value_snpathref", "phys_const_snref",
                                "phys_const_snpathref", "table_key_snref", "table_key_snpathref"),
}
DOC_ROOTS = {"DiagLayerContainer": "CONTAINER", "ComparamSubset": "COMPARAM-SUBSET", "ComparamSpec": "COMPARAM-SPEC", "DiagLayerRaw": "LAYER"}


def mro_names(o: Any) -> List[str]:
    return [c.__name__ for c in type(o).__mro__]


def isa(o: Any, name: str) -> bool:
    return name in mro_names(o)


# ---------------------------------------------------------------------------------------------
# template cache: the writer builds a new jinja2 environment (and recompiles 50 templates, 0.6 s) per call
# ---------------------------------------------------------------------------------------------
_CACHE_INSTALLED = False


def install_template_cache() -> bool:
    """Give the environments created by write_pdx_file a process-wide jinja2 BytecodeCache (standard jinja2 feature,
    entries are validated against a checksum of the template source).  Nothing else changes."""
    global _CACHE_INSTALLED
    if _CACHE_INSTALLED or os.environ.get("VERIF_C11_NOCACHE"):
        return _CACHE_INSTALLED
    import jinja2
    import odxtools.writepdxfile as W
    if getattr(W, "jinja2", None) is not jinja2:
        return False

    class Mem(jinja2.BytecodeCache):

        def __init__(self) -> None:
            self.d: Dict[str, bytes] = {}

        def load_bytecode(self, bucket: Any) -> None:
            b = self.d.get(bucket.key)
            if b is not None:
                bucket.bytecode_from_string(b)

        def dump_bytecode(self, bucket: Any) -> None:
            self.d[bucket.key] = bucket.bytecode_to_string()

    cache = Mem()

    class Shim:

        def __getattr__(self, n: str) -> Any:
            return getattr(jinja2, n)

        @staticmethod
        def Environment(*a: Any, **k: Any) -> Any:
            k.setdefault("bytecode_cache", cache)
            return jinja2.Environment(*a, **k)

    W.jinja2 = Shim()  # type: ignore
    _CACHE_INSTALLED = True
    return True


# ---------------------------------------------------------------------------------------------
# databases
# ---------------------------------------------------------------------------------------------
def root_of(db: Any) -> Dict[str, List[Any]]:
    return {"diag_layer_containers": list(db.diag_layer_containers), "comparam_subsets": list(db.comparam_subsets),
            "comparam_specs": list(db.comparam_specs)}


_TMPN = [0]


def tmp_path(suffix: str) -> str:
    _TMPN[0] += 1
    return os.path.join(scratch_dir(), f"c11_{os.getpid()}_{_TMPN[0]}{suffix}")


def zip_members(members: Dict[str, bytes], order: Optional[Sequence[str]] = None, case: str = "") -> str:
    p = tmp_path(".pdx")
    with zipfile.ZipFile(p, "w", compression=zipfile.ZIP_STORED) as z:
        for n in (order or list(members)):
            z.writestr(case_name(n, case), members[n])
    return p


def case_name(name: str, case: str) -> str:
    """File-name case variant of an ODX document / the catalog: '' as is, 'upper' (.ODX-D, INDEX.XML), 'mixed' (.Odx-d, Index.Xml).
    Auxiliary files keep their names (they are referenced by name from PROG-CODE / LIBRARY)."""
    if not case:
        return name
    stem, suf = os.path.splitext(name)
    if is_odx(name):
        return stem + (suf.upper() if case == "upper" else suf.capitalize())
    if name.lower() == "index.xml":
        return "INDEX.XML" if case == "upper" else "Index.Xml"
    return name


def read_members(path: str) -> Dict[str, bytes]:
    with zipfile.ZipFile(path) as z:
        return {n: z.read(n) for n in z.namelist()}


_MEMBERS: Dict[str, Dict[str, bytes]] = {}


def base_members(base: str, off: Sequence[str]) -> Dict[str, bytes]:
    """Archive members of a base database, in archive order."""
    key = base + "|" + ",".join(off)
    if key not in _MEMBERS:
        if base == "ks":
            _MEMBERS[key] = E.members(off)
        elif base.startswith("ks@"):  # the kitchen sink in another ODX model version
            _MEMBERS[key] = E.members(off, base[3:])
        elif base == "dv":  # minimal database of its own with DIAG-VARIABLES
            _MEMBERS[key] = E.dv_members()
        elif base.startswith("mini@"):  # a small database the way ODX before 2.2 has it
            _MEMBERS[key] = E.mini_members(base[5:])
        elif base.endswith("-written"):  # what write_pdx_file makes of a database (archive to be extracted / listed / loaded again)
            install_template_cache()
            _MEMBERS[key] = write_members(load_base(base[:-len("-written")], off))
        elif base == "ks-auxnames":  # the kitchen sink + auxiliary files with unusual but legal names
            m = E.members(off)
            idx = m.pop("index.xml")
            m.update(UNUSUAL_AUX_FILES)
            m["index.xml"] = idx
            _MEMBERS[key] = m
        else:
            _MEMBERS[key] = read_members(os.path.join(repo_root(), SHIPPED[base]))
    return _MEMBERS[key]


def load_from_members(members: Dict[str, bytes], order: Optional[Sequence[str]] = None, case: str = "") -> Any:
    from odxtools.loadfile import load_pdx_file
    p = zip_members(members, order, case)
    try:
        return load_pdx_file(p)
    finally:
        os.unlink(p)


def load_base(base: str, off: Sequence[str]) -> Any:
    return load_from_members(base_members(base, off))


def write_members(db: Any) -> Dict[str, bytes]:
    from odxtools.writepdxfile import write_pdx_file
    install_template_cache()
    p = tmp_path(".pdx")
    try:
        write_pdx_file(p, db)
        return read_members(p)
    finally:
        if os.path.exists(p):
            os.unlink(p)


def is_odx(name: str) -> bool:
    return os.path.splitext(name)[1].lower().startswith(".odx")


# ---------------------------------------------------------------------------------------------
# perturbations
# ---------------------------------------------------------------------------------------------
def site_kinds(s: R.Site) -> List[Tuple[str, Optional[str]]]:
    """[(kind, None) | (kind, reason why it is not applied)] for a site."""
    leaf = s.attr
    owner_names = mro_names(s.owner)
    first = s.field.split(".")[0]
    if first in DERIVED_OWNERS and any(o in owner_names for o in DERIVED_OWNERS[first]):
        return [("any", "derived: " + DERIVED[first])]
    if R.is_link(s.holder) and s.holder is not s.owner:
        if leaf == "doc_fragments":
            return [("any", "derived: " + DERIVED["doc_fragments"])]
        if leaf == "local_id":
            return [("alt", None)]
        if leaf == "ref_id":
            return [("retarget", None)]
        if leaf == "ref_docs":
            return [("docref", None), ("docref-layer", None), ("docref-target", None)]
    for (c, f), why in DISCRIMINATOR.items():
        if f == s.field and c in owner_names:
            return [("any", "discriminator: " + why)]
    out: List[Tuple[str, Optional[str]]] = []
    kinds = R.kinds_of(s.value)
    if type(s.value) is list:
        kinds = kinds + interleave_kinds(s.value)
    if s.value is None and R.optional_arg(R.field_type(s.holder, s.attr)) is str:
        kinds = kinds + ["empty"]  # Optional[str]: absent -> present but empty
    for k in kinds:
        why = None
        if k == "empty":
            if NAME_LIKE.search(s.field):
                why = "lexical domain: names, IDs and short-name references cannot be empty"
            for (c, f), w in NUMERIC_TEXT.items():
                if f == s.field and c in owner_names:
                    why = "lexical domain: " + w
        if k in ("set", "empty") and s.value is None:
            for (c, f), other in COMPANIONS.items():
                if f == s.field and c in owner_names and getattr(s.owner, other, None) is None:
                    why = f"lexical domain: {f} and {other} only exist together (SNREF-TO-TABLEROW)"
        if k == "flip":
            for (c, f), w in PRESENCE_FLAGS.items():
                if f == s.field and c in owner_names:
                    why = "lexical domain: " + w
        if k == "meta":
            if NAME_LIKE.search(s.field):
                why = "lexical domain: names, IDs and short-name references cannot contain XML metacharacters"
            for (c, f), w in list(MARKUP.items()) + list(NUMERIC_TEXT.items()):
                if f == s.field and c in owner_names:
                    why = "lexical domain: " + w
        out.append((k, why))
    return out


def element_kind(x: Any) -> str:
    """Kinds of elements which the parser keeps in ONE list in document order (TABLE-ROW / TABLE-ROW-REF, DTC / DTC-REF,
    DIAG-COMM / DIAG-COMM-REF, SD / SDG, simple / complex value, ...)."""
    if R.is_link(x):
        return "ref"
    if R.is_dc(x):
        return "SDG" if type(x).__name__ == "SpecialDataGroup" else "element"
    return "list" if isinstance(x, list) else type(x).__name__


def interleave_plan(lst: List[Any], pattern: str) -> Optional[List[Any]]:
    """pattern over {a, b}: a = kind of the first element, b = the other kind; the first elements of each kind that the pattern
    needs are put in front in that order, all other elements follow in their order. None if the list cannot supply the pattern."""
    kinds = []
    for x in lst:
        if element_kind(x) not in kinds:
            kinds.append(element_kind(x))
    if len(kinds) != 2:
        return None
    pools = {"a": [x for x in lst if element_kind(x) == kinds[0]], "b": [x for x in lst if element_kind(x) == kinds[1]]}
    if any(pattern.count(k) > len(pools[k]) for k in "ab"):
        return None
    it = {k: iter(pools[k]) for k in "ab"}
    front = [next(it[k]) for k in pattern]
    ids = {id(x) for x in front}
    return front + [x for x in lst if id(x) not in ids]


INTERLEAVINGS = ("aab", "aba", "baa", "abb", "bab", "bba")


def interleave_kinds(lst: List[Any]) -> List[str]:
    out = []
    for pat in INTERLEAVINGS:
        plan = interleave_plan(lst, pat)
        if plan is not None and any(x is not y for x, y in zip(plan, lst)):
            out.append("interleave-" + pat)
    return out


def clone(o: Any) -> Any:
    """Copy of the dataclass-field part of an object graph (resolved private references stay shared; refresh() re-resolves)."""
    if R.is_dc(o):
        c = copy.copy(o)
        for f in dataclasses.fields(o):
            object.__setattr__(c, f.name, clone(getattr(o, f.name)))
        return c
    if isinstance(o, list):
        return type(o)([clone(x) for x in o])
    if isinstance(o, tuple):
        return tuple(clone(x) for x in o)
    if isinstance(o, dict):
        return {k: clone(v) for k, v in o.items()}
    return o


def fresh_copy(o: Any) -> Any:
    """clone + new IDs / short name, so that the copy can live next to the original."""
    c = clone(o)
    if R.is_dc(c) and not R.is_link(c):
        for s in R.walk(c):
            if s.attr == "local_id" and R.is_link(s.holder):
                object.__setattr__(s.holder, "local_id", s.value + "_dup")
        named = c
        if not any(f.name == "short_name" for f in dataclasses.fields(c)) and hasattr(c, "diag_layer_raw"):
            named = c.diag_layer_raw  # layer wrapper
        if any(f.name == "short_name" for f in dataclasses.fields(named)) and isinstance(named.short_name, str):
            old = named.short_name
            named.short_name = old + "_dup"
            if any(isa(named, k) for k in DOC_ROOTS):
                rename_document(c, named, old, old + "_dup")
    return c


_SITES_MEMO: Dict[int, List[R.Site]] = {}


def all_sites(root: Any) -> List[R.Site]:
    """Sites of the graph as it was when first asked for (donor search only; cleared per perturbation)."""
    if id(root) not in _SITES_MEMO:
        _SITES_MEMO[id(root)] = list(R.walk(root))
    return _SITES_MEMO[id(root)]


def normalize_docfrags(root: Any) -> int:
    """Make the document fragments of IDs and of implicit references (no DOCREF) name the document / layer they are in.
    A no-op on a freshly loaded database (guarded); needed after an element was copied from another layer or a layer renamed."""
    from odxtools.odxlink import DocType, OdxDocFragment
    changes = 0

    def fix(s: R.Site, frags: List[Any]) -> int:
        if s.attr == "doc_fragments" and R.is_link(s.holder):
            if list(s.value) != frags:
                object.__setattr__(s.holder, "doc_fragments", list(frags))
                return 1
        elif s.attr == "ref_docs" and R.is_link(s.holder) and isinstance(s.value, list):
            implicit = len(s.value) == 2 or (len(frags) == 1 and len(s.value) == 1 and s.value[0].doc_type == frags[0].doc_type and False)
            if implicit and list(s.value) != frags:
                object.__setattr__(s.holder, "ref_docs", list(frags))
                return 1
        return 0

    for c in root["diag_layer_containers"]:
        cf = OdxDocFragment(c.short_name, DocType.CONTAINER)
        layers = [lw for f in ("ecu_shared_datas", "protocols", "functional_groups", "base_variants", "ecu_variants") for lw in getattr(c, f)]
        for lw in layers:
            frags = [cf, OdxDocFragment(lw.diag_layer_raw.short_name, DocType.LAYER)]
            for s in R.walk(lw):
                changes += fix(s, frags)
        seen = {id(lw) for lw in layers}
        for s in R.walk(c, (), seen):
            changes += fix(s, [cf])
    for key, dt in (("comparam_subsets", DocType.COMPARAM_SUBSET), ("comparam_specs", DocType.COMPARAM_SPEC)):
        for d in root[key]:
            # (a subset without CATEGORY is an ODX 2.0 COMPARAM-SPEC document: keep the document type its own ID has)
            frags = [OdxDocFragment(d.short_name, d.odx_id.doc_fragments[0].doc_type if d.odx_id.doc_fragments else dt)]
            for s in R.walk(d):
                changes += fix(s, frags)
    return changes


def choice_siblings(owner: Any, field: str) -> List[str]:
    for cls, group in CHOICE_GROUPS.items():
        if isa(owner, cls) and field in group:
            return [g for g in group if g != field]
    for suf in ("_snpathref", "_snref", "_ref"):
        if field.endswith(suf):
            stem = field[:-len(suf)]
            return [stem + x for x in ("_ref", "_snref", "_snpathref") if x != suf and hasattr(owner, stem + x)]
    return []


class Skip(Exception):
    pass


def rebuild_named_list(root: Any, path: Sequence[Any]) -> None:
    """After renaming the element at path (path ends with the element's index in a list): re-index its NamedItemList."""
    if len(path) >= 2 and isinstance(path[-1], int):
        lst = R.resolve(root, path[:-1])
        parent = R.resolve(root, path[:-2])
        if type(lst).__name__ == "NamedItemList" and isinstance(path[-2], str) and not isinstance(parent, dict):
            setattr(parent, path[-2], type(lst)(list(lst)))


def rename_document(root: Any, owner: Any, old: str, new: str) -> None:
    doc_type = next(v for k, v in DOC_ROOTS.items() if isa(owner, k))
    for s in all_sites(root):
        if s.attr in ("doc_fragments", "ref_docs") and isinstance(s.value, list):
            for i, frag in enumerate(s.value):
                if frag.doc_name == old and frag.doc_type.value == doc_type:
                    s.value[i] = type(frag)(new, frag.doc_type)


def synth_value(db: Any, root: Any, s: R.Site) -> Any:
    """A value for a field that is None."""
    owner, field = s.owner, s.attr
    tp = R.optional_arg(R.field_type(s.holder, field))
    if tp is None:
        raise Skip("type of the field is not Optional[T]")
    name_like = bool(NAME_LIKE.search(s.field))
    if field.endswith("_snref") and getattr(owner, field[:-6] + "_ref", None) is not None:
        tgt = db.odxlinks.resolve_lenient(getattr(owner, field[:-6] + "_ref"))
        if tgt is not None and isinstance(getattr(tgt, "short_name", None), str):
            return tgt.short_name
    if tp is str and (name_like or any(f == s.field and isa(owner, c) for (c, f) in list(MARKUP) + list(NUMERIC_TEXT))):
        for o in all_sites(root):  # a value of the same field of another element of the same class
            if o.cls == s.cls and o.field == s.field and o.value is not None:
                return o.value
        if (s.cls, s.field) in NUMERIC_TEXT or any(f == s.field and isa(owner, c) for (c, f) in NUMERIC_TEXT):
            return "1"
        if any(f == s.field and isa(owner, c) for (c, f) in MARKUP):
            return "<p>x</p>"
    ok, v = R.synth_primitive(tp, name_like)
    if ok:
        return v
    origin = typing.get_origin(tp)
    if origin in (list, typing.List):
        raise Skip("Optional[List]: no element to put in")
    if isinstance(tp, type) and dataclasses.is_dataclass(tp):
        link = any(c.__name__ in R.LINK_CLASSES for c in tp.__mro__)
        if field.endswith("_ref") and isinstance(getattr(owner, field[:-4] + "_snref", None), str):
            want = getattr(owner, field[:-4] + "_snref")
            for o in all_sites(root):
                if o.attr == "odx_id" and o.holder is o.owner and getattr(o.owner, "short_name", None) == want and o.value is not None:
                    return tp(o.value.local_id, list(o.value.doc_fragments)) if link else None
        for o in all_sites(root):  # donor: the same field (any class), else any instance of the type
            if link and o.attr == field and o.holder is o.owner and isinstance(o.value, tp) and o.owner is not owner:
                return clone(o.value)
        if not link:
            for o in all_sites(root):
                if isinstance(o.value, tp) and o.holder is o.owner:
                    return fresh_copy(o.value)
                if isinstance(o.value, list):
                    for x in o.value:
                        if isinstance(x, tp):
                            return fresh_copy(x)
        raise Skip("no donor value of type " + tp.__name__ + " in the database")
    raise Skip("no rule to make a value of type " + str(tp))


def grown_element(db: Any, root: Any, s: R.Site) -> Any:
    lst = s.value
    name_like = bool(NAME_LIKE.search(s.field))
    if lst:
        last = lst[-1]
        if R.is_dc(last):
            return fresh_copy(last)
        if isinstance(last, str):
            return last if name_like else R.META
        if isinstance(last, bool):
            return not last
        if isinstance(last, (int, float)):
            return last + 1
        if isinstance(last, (bytes, bytearray)):
            return bytes(last) + b"\x01"
        return clone(last)
    tp = R.field_type(s.holder, s.attr)
    args = typing.get_args(tp)
    if not args:
        raise Skip("element type of the empty list is unknown")
    et = args[0]
    cands = [a for a in typing.get_args(et)] if typing.get_origin(et) is typing.Union else [et]
    for c in cands:
        ok, v = R.synth_primitive(c, name_like)
        if ok and not name_like:
            return v
    for c in cands:
        if isinstance(c, type) and dataclasses.is_dataclass(c):
            link = any(k.__name__ in R.LINK_CLASSES for k in c.__mro__)
            for o in all_sites(root):
                if link:
                    if o.attr == s.attr and isinstance(o.value, list) and o.value and isinstance(o.value[-1], c):
                        return clone(o.value[-1])
                else:
                    vals = o.value if isinstance(o.value, list) else [o.value]
                    for x in vals:
                        if isinstance(x, c) and o.holder is o.owner:
                            return fresh_copy(x)
    if name_like:
        for o in all_sites(root):
            if o.attr == s.attr and isinstance(o.value, list) and o.value and isinstance(o.value[-1], str):
                return o.value[-1]
    raise Skip("no donor element for the empty list")


def apply_perturbation(db: Any, root: Any, s: R.Site, kind: str, path: Sequence[Any]) -> str:
    """Mutates the object graph in place; returns a description of the new value. Raises Skip."""
    holder, attr = s.holder, s.attr
    old = s.value
    if kind == "retarget":
        link = holder
        tgt = db.odxlinks.resolve_lenient(link)
        if tgt is None or getattr(tgt, "odx_id", None) is None:
            raise Skip("reference has no resolvable target")
        for o in all_sites(root):
            if (o.attr == "odx_id" and o.holder is o.owner and type(o.owner) is type(tgt) and o.value is not None and
                    o.value.local_id != tgt.odx_id.local_id and o.value.doc_fragments == tgt.odx_id.doc_fragments):
                object.__setattr__(link, "ref_id", o.value.local_id)
                return o.value.local_id
        raise Skip("no other object of the target's class in the same document")
    if kind == "docref":
        frags = old
        if len(frags) == 2 and frags[0].doc_type.value == "CONTAINER":
            object.__setattr__(holder, "ref_docs", [frags[0]])
            return "explicit DOCREF=" + frags[0].doc_name + " DOCTYPE=CONTAINER"
        raise Skip("reference already names its document explicitly")
    if kind == "docref-layer":
        frags = old
        if len(frags) == 2 and frags[1].doc_type.value == "LAYER":
            object.__setattr__(holder, "ref_docs", [frags[1]])
            return "explicit DOCREF=" + frags[1].doc_name + " DOCTYPE=LAYER (the referrer's own layer)"
        raise Skip("reference is not located in a layer or names its document already")
    if kind == "docref-target":
        tgt = db.odxlinks.resolve_lenient(holder)
        if tgt is None or getattr(tgt, "odx_id", None) is None or not tgt.odx_id.doc_fragments:
            raise Skip("reference has no resolvable target")
        tfrag = tgt.odx_id.doc_fragments[-1]
        if list(old) == [tfrag] or (len(old) == 2 and tfrag in list(old)):
            raise Skip("the innermost document of the target is the referrer's own document / layer (kinds docref, docref-layer) or is named already")
        object.__setattr__(holder, "ref_docs", [tfrag])
        return f"explicit DOCREF={tfrag.doc_name} DOCTYPE={tfrag.doc_type.value} (innermost document of the target)"
    if kind == "empty":
        object.__setattr__(holder, attr, "")
        return "''"
    if kind.startswith("interleave-"):
        plan = interleave_plan(old, kind[len("interleave-"):])
        if plan is None:
            raise Skip("the list does not have two kinds of elements any more")
        old[:] = plan
        return "element kinds in the order " + " ".join(element_kind(x) for x in plan)
    if kind == "set":
        new = synth_value(db, root, s)
        if new is None:
            raise Skip("no value")
        for sib in choice_siblings(s.owner, attr):
            if getattr(s.owner, sib, None) is not None:
                setattr(s.owner, sib, None)
        object.__setattr__(holder, attr, new)
        return R._short(new)
    if kind == "grow":
        new = grown_element(db, root, s)
        rt = {"positive_responses": "POS-RESPONSE", "negative_responses": "NEG-RESPONSE", "global_negative_responses": "GLOBAL-NEG-RESPONSE"}.get(attr)
        if rt is not None and hasattr(new, "response_type"):
            new.response_type = type(new.response_type)(rt)  # the list an element is in IS its response type
        old.append(new)
        return "appended " + R._short(new)
    new = R.perturbed(old, kind)
    object.__setattr__(holder, attr, new)
    if attr == "short_name" and holder is s.owner:
        if any(isa(holder, k) for k in DOC_ROOTS):
            rename_document(root, holder, old, new)
        rebuild_named_list(root, path[:-1])
    return R._short(new)


# ---------------------------------------------------------------------------------------------
# behaviour: canonical encode / decode of every service with all-default-or-first-valid values
# ---------------------------------------------------------------------------------------------
def norm(v: Any, depth: int = 0) -> Any:
    if depth > 12:
        return "<deep>"
    if isinstance(v, (bytes, bytearray)):
        return {"hex": bytes(v).hex()}
    if isinstance(v, dict):
        return {str(k): norm(x, depth + 1) for k, x in v.items()}
    if isinstance(v, (list, tuple)):
        return [norm(x, depth + 1) for x in v]
    if isinstance(v, float):
        return repr(v)
    if isinstance(v, (int, str, bool)) or v is None:
        return v
    if hasattr(v, "trouble_code"):
        return {"dtc": getattr(v, "trouble_code"), "name": getattr(v, "short_name", None)}
    return "<" + type(v).__name__ + ">"


def synth_dop(dop: Any, depth: int = 0) -> Any:
    if dop is None or depth > 6:
        return None
    names_ = mro_names(dop)
    if "DataObjectProperty" in names_:
        cands: List[Any] = []
        cm = dop.compu_method
        if type(cm).__name__ == "TexttableCompuMethod" and cm.compu_internal_to_phys is not None:
            cands += [sc.compu_const.vt for sc in cm.compu_internal_to_phys.compu_scales if sc.compu_const is not None and sc.compu_const.vt is not None]
        bt = dop.physical_type.base_data_type.name
        if bt in ("A_UINT32", "A_INT32"):
            cands += [0, 1, 2, 5, 10, 100]
        elif bt.startswith("A_FLOAT"):
            cands += [0.0, 1.0, 1.5, 10.0, 100.0]
        elif bt == "A_BYTEFIELD":
            cands += [b"\x01", b"\x01\x02", b""]
        else:
            cands += ["a", "ab", ""]
        for c in cands:
            try:
                if dop.is_valid_physical_value(c):
                    dop.convert_physical_to_internal(c)
                    return c
            except Exception:
                continue
        return cands[0]
    if "DtcDop" in names_:
        return dop.dtcs[0].trouble_code if dop.dtcs else 0
    if "BasicStructure" in names_:
        return synth_params(dop.parameters, depth + 1)
    if "Field" in names_:
        item = synth_dop(getattr(dop, "structure", None) or getattr(dop, "env_data_desc", None), depth + 1)
        n = getattr(dop, "fixed_number_of_items", None)
        if n is None:
            n = max(1, getattr(dop, "min_number_of_items", None) or 1)
        return [item] * n
    if "Multiplexer" in names_:
        for case in dop.cases:
            st = getattr(case, "structure", None)
            return (case.short_name, synth_dop(st, depth + 1) if st is not None else {})
        if dop.default_case is not None:
            st = getattr(dop.default_case, "structure", None)
            return (dop.default_case.short_name, synth_dop(st, depth + 1) if st is not None else {})
        return None
    return {}


def synth_params(params: Iterable[Any], depth: int = 0) -> Dict[str, Any]:
    out: Dict[str, Any] = {}
    for p in params:
        t = str(getattr(p, "parameter_type", ""))
        if t == "VALUE":
            if getattr(p, "physical_default_value_raw", None) is None:
                out[p.short_name] = synth_dop(p.dop, depth)
        elif t == "SYSTEM":
            out[p.short_name] = synth_dop(p.dop, depth)
        elif t == "TABLE-KEY":
            if getattr(p, "table_row", None) is None and p.table is not None and p.table.table_rows:
                out[p.short_name] = p.table.table_rows[0].short_name
        elif t == "TABLE-STRUCT":
            tk = p.table_key
            row = tk.table_row if getattr(tk, "table_row", None) is not None else (tk.table.table_rows[0] if tk.table.table_rows else None)
            if row is not None:
                tgt = row.structure if row.structure is not None else row.dop
                out[p.short_name] = (row.short_name, synth_dop(tgt, depth + 1))
    return out


def attempt(fn: Any) -> Tuple[str, Any]:
    import odxtools.exceptions as ex
    old = ex.strict_mode
    try:
        return ("ok", fn())
    except Exception as e:  # the outcome class is what is compared
        return ("err", type(e).__name__)
    finally:
        ex.strict_mode = old


def behaviour(db: Any) -> List[Any]:
    """[(layer, service, step, outcome)] -- deterministic, JSON-able."""
    out: List[Any] = []
    for layer in sorted(db.diag_layers, key=lambda la: la.short_name):  # (the order of whole documents is DON'T-CARE)
        tag, services = attempt(lambda: list(layer.services))
        if tag != "ok":
            out.append([layer.short_name, "<services>", "list", [tag, services]])
            continue
        for svc in services:
            req = getattr(svc, "request", None)
            if req is None:
                out.append([layer.short_name, svc.short_name, "job", type(svc).__name__])
                continue
            st, vals = attempt(lambda: synth_params(req.parameters))
            out.append([layer.short_name, svc.short_name, "request-values", [st, norm(vals)]])
            if st != "ok":
                continue
            st, raw = attempt(lambda: bytes(req.encode(**vals)))
            out.append([layer.short_name, svc.short_name, "request-encode", [st, norm(raw)]])
            req_bytes = raw if st == "ok" else None
            if req_bytes is not None:
                st, dec = attempt(lambda: req.decode(req_bytes))
                out.append([layer.short_name, svc.short_name, "request-decode", [st, norm(dec)]])
                st, msgs = attempt(lambda: sorted(jdump([m.service.short_name, m.coding_object.short_name, norm(m.param_dict)]) for m in layer.decode(req_bytes)))
                out.append([layer.short_name, svc.short_name, "layer-decode", [st, msgs]])
            for kind, resps in (("pos", svc.positive_responses), ("neg", svc.negative_responses)):
                for resp in resps:
                    st, rvals = attempt(lambda: synth_params(resp.parameters))
                    if st != "ok":
                        out.append([layer.short_name, svc.short_name, f"{kind}-{resp.short_name}-values", [st, rvals]])
                        continue
                    st, rraw = attempt(lambda: bytes(resp.encode(coded_request=req_bytes, **rvals)))
                    out.append([layer.short_name, svc.short_name, f"{kind}-{resp.short_name}-encode", [st, norm(rraw), norm(rvals)]])
                    if st == "ok":
                        st, rdec = attempt(lambda: resp.decode(rraw))
                        out.append([layer.short_name, svc.short_name, f"{kind}-{resp.short_name}-decode", [st, norm(rdec)]])
    return out


def behaviour_diff(a: List[Any], b: List[Any]) -> Optional[Tuple[str, str]]:
    if a == b:
        return None
    for x, y in zip(a, b):
        if x != y:
            step = re.sub(r"-(.*)-", "-", x[2]) if x[2].count("-") >= 2 else x[2]
            return (f"C11/behaviour/{step}", f"layer {x[0]} service {x[1]} step {x[2]}: {jdump(x[3])[:300]} != {jdump(y[3])[:300]}")
    return ("C11/behaviour/number-of-steps", f"{len(a)} != {len(b)} steps")


# ---------------------------------------------------------------------------------------------
# the round trip and its judgement
# ---------------------------------------------------------------------------------------------
class Outcome:

    def __init__(self) -> None:
        self.findings: List[Tuple[str, str]] = []  # (key, detail)
        self.where: Dict[str, Tuple[Any, ...]] = {}  # key -> path of the first difference with that key
        self.stage = "ok"
        self.db1: Any = None
        self.members: Optional[Dict[str, bytes]] = None
        self.reason = ""
        self.dontcare = ""


DERIVED_CLASSES = {"physical_type": ("CompuMethod",), "internal_type": ("CompuMethod",), "domain_type": ("CompuScale",), "range_type": ("CompuScale",),
                   "value_type": ("Limit", "InternalConstr", "ScaleConstr", "CompuRationalCoeffs"), "data_type": ("CompuConst", "CompuDefaultValue"),
                   "table_ref": ("TableRow",)}


def is_derived(cls: str, field: str) -> bool:
    first = field.split(".")[0]
    if field.endswith("doc_fragments") or ".doc_fragments." in field:
        return True
    return first in DERIVED_CLASSES and any(cls == c or cls.endswith(c) for c in DERIVED_CLASSES[first])


def ignore_field(elem: Any, field: str) -> bool:
    """SpecialDataGroup.sdg_caption of a group that names its caption by SDG-CAPTION-REF is the RESOLVED caption object."""
    return field == "sdg_caption" and type(elem).__name__ == "SpecialDataGroup" and getattr(elem, "sdg_caption_ref", None) is not None


def diff_pair(d: R.Diff) -> str:
    f = d.field
    if ".ref_docs." in f:
        f = f[:f.index(".ref_docs.") + len(".ref_docs")]
    return f"{d.cls}.{f}"


def diff_mode(d: R.Diff, meta_pair: Optional[str]) -> str:
    if d.field.endswith("ref_docs") or ".ref_docs." in d.field:
        # 1 fragment = explicit DOCREF, 2 fragments = the document and layer of the referencing element (no DOCREF)
        return "altered" if (d.a.startswith("2 item") and d.b.startswith("1 item")) else "dropped"
    if meta_pair is not None and d.pair == meta_pair and d.mode == "altered":
        return "mis-escaped"
    return d.mode


def judge(db: Any, pert: Optional[Dict[str, Any]], with_behaviour_of_original: bool) -> Outcome:
    """write -> load -> compare -> write -> compare. pert: {"pair", "kind", "path"} of the perturbation or None."""
    out = Outcome()
    pair = pert["pair"] if pert else None
    kind = pert["kind"] if pert else None
    crash_pair = pair or "baseline"
    meta = kind == "meta" or (kind in ("set", "grow") and pert is not None and "a&b<c>" in pert.get("new", ""))
    root = root_of(db)
    aux_before = aux_contents(db) if pert is None else {}
    codes_before = code_objects(db) if pert is None else {}
    try:
        m = write_members(db)
    except Exception as e:
        out.stage = "write"
        out.findings.append((f"C11/{crash_pair}/crash", f"write_pdx_file raised {type(e).__name__}: {str(e)[:300]}"))
        return out
    out.members = m
    strict_error: Optional[Exception] = None
    try:
        db1 = load_from_members(m)
    except ElementTree.ParseError as e:
        out.stage = "load"
        bad = [n for n in m if is_odx(n) and not well_formed(m[n])]
        mode = "mis-escaped" if meta else "crash"
        out.findings.append((f"C11/{crash_pair}/{mode}", f"written document {bad} is not well-formed XML: {e}"))
        return out
    except Exception as e:
        # Is the written document unfaithful, or does the parser reject a faithfully written (inconsistent) database?
        # Load it again leniently (odxtools.exceptions.strict_mode = False) and compare.
        strict_error = e
        import odxtools.exceptions as ex
        import logging
        old_mode = ex.strict_mode
        ex.strict_mode = False
        lg = logging.getLogger("odxtools")
        old_level = lg.level
        lg.setLevel(logging.CRITICAL)
        try:
            db1 = load_from_members(m)
        except Exception as e2:
            lg.setLevel(old_level)
            ex.strict_mode = old_mode
            if pert is not None and (pert["pair"], pert["kind"]) in INADMISSIBLE:
                out.stage = "inadmissible"
                out.reason = INADMISSIBLE[(pert["pair"], pert["kind"])]
                return out
            out.stage = "load"
            out.findings.append((f"C11/{crash_pair}/crash", f"loading the written PDX raised {type(e).__name__}: {str(e)[:300]} "
                                                           f"(and {type(e2).__name__} with strict_mode off)"))
            return out
        finally:
            lg.setLevel(old_level)
            ex.strict_mode = old_mode
    out.db1 = db1
    root1 = root_of(db1)
    if str(db.model_version) != str(db1.model_version):
        out.findings.append(("C11/Database.model_version/altered", f"MODEL-VERSION of the database is {db.model_version}, of the reloaded one {db1.model_version}"))
    if db.short_name != db1.short_name:
        out.findings.append(("C11/Database.short_name/altered", f"{db.short_name!r} -- loaded back {db1.short_name!r}"))
    diffs = R.diff(root, root1, ignore=ignore_field)
    for d in diffs:
        if pert is not None and is_derived(d.cls, d.field):
            continue  # a function of other fields that the perturbation did not keep in step
        if pert is not None and (pert["pair"].endswith(".base_data_type") or strict_error is not None) and any(d.pair == f"{c}.{f}" for c, f in TYPED_BY_BASE_TYPE):
            continue  # values typed by a BASE-DATA-TYPE the perturbation changed (or took from a donor of another type)
        mode = diff_mode(d, pair if meta else None)
        if kind == "empty" and d.pair == pair and d.a == "''" and d.b == "None":
            # the empty string came back as "absent": a finding where a consumer can tell the two apart
            matters = EMPTY_MATTERS.get(d.field.split(".")[-1])
            if matters is None and strict_error is None:
                bd0 = behaviour_diff(behaviour(db), behaviour(db1))
                if bd0 is not None and bd0[1] != pert.get("baseline_behaviour"):  # (a difference the unperturbed database shows too is not due to this field)
                    matters = "encode/decode differs: " + bd0[1][:200]
            if matters is None:
                out.dontcare = "'' is written as absent and reloads as None; no consumer in odxtools distinguishes the two for this field"
                continue
            out.findings.append((f"C11/{diff_pair(d)}/dropped", f"at {list(d.path)}: wrote '' -- loaded back None ({matters})"))
            out.where.setdefault(f"C11/{diff_pair(d)}/dropped", tuple(d.path))
            continue
        out.findings.append((f"C11/{diff_pair(d)}/{mode}", f"at {list(d.path)}: wrote {d.a} -- loaded back {d.b}"))
        out.where.setdefault(f"C11/{diff_pair(d)}/{mode}", tuple(d.path))
    if strict_error is not None:
        e = strict_error
        if pert is None:
            out.stage = "load"
            out.findings.append((f"C11/{crash_pair}/crash", f"loading the written PDX raised {type(e).__name__}: {str(e)[:300]}; loaded with strict_mode off "
                                                           f"it differs in {sorted({k for k, _ in out.findings})[:6]}"))
        elif out.findings:
            out.stage = "load"
            out.findings = [(k, d + f" [strict load raised {type(e).__name__}: {str(e)[:120]}]") for k, d in out.findings]
        else:
            out.stage = "inadmissible"
            out.reason = f"the parser rejects the faithfully written document ({type(e).__name__}: {str(e)[:100]})"
        return out
    eq = all(a == b for k in root for a, b in zip(root[k], root1[k])) and all(len(root[k]) == len(root1[k]) for k in root)
    if eq and diffs:
        pass  # the field-wise comparison is at least as strict as dataclass equality (bool vs int)
    if pert is None and not eq and not diffs:
        out.findings.append(("C11/unlocalised/altered", "dataclass equality of the top-level objects fails but no field differs"))
    if pert is None and strict_error is None:
        judge_aux(db, aux_before, codes_before, m, db1, out)
    # second write: byte-identical ODX members (then loading it again gives the same database: loader determinism is part (c))
    try:
        m2 = write_members(db1)
    except Exception as e:
        out.stage = "rewrite"
        out.findings.append((f"C11/{crash_pair}/crash", f"writing the RELOADED database raised {type(e).__name__}: {str(e)[:300]}"))
        return out
    changed = sorted(n for n in m if is_odx(n) and m2.get(n) != m[n]) + sorted(n for n in m2 if is_odx(n) and n not in m)
    if changed:
        try:
            db2 = load_from_members(m2)
        except Exception as e:
            out.stage = "rewrite"
            out.findings.append((f"C11/{crash_pair}/crash", f"loading the second write raised {type(e).__name__}: {str(e)[:300]}"))
            return out
        d2 = R.diff(root1, root_of(db2), ignore=ignore_field)
        if d2:
            for d in d2:
                out.findings.append((f"C11/{diff_pair(d)}/{diff_mode(d, None)}", f"first vs second reload at {list(d.path)}: {d.a} -- {d.b}"))
        elif not diffs and not (pert is not None and pert["pair"].endswith(".base_data_type")):
            # (after a change of BASE-DATA-TYPE alone, values typed by it are re-parsed: 18 is written as "18", read as 18.0, written as "18.0")
            out.findings.append((f"C11/rewrite/{os.path.splitext(changed[0])[1].lstrip('.')}/altered",
                                 f"second write differs in {changed}: {first_difference(m[changed[0]] if changed[0] in m else b'', m2.get(changed[0], b''))}"))
        bd = behaviour_diff(behaviour(db1), behaviour(db2))
        if bd:
            out.findings.append(bd)
    if with_behaviour_of_original:
        bd = behaviour_diff(behaviour(db), behaviour(db1))
        if bd:
            out.findings.append(bd)
    return out


def aux_contents(db: Any) -> Dict[str, bytes]:
    """{base name: content} of the auxiliary files of a database (the file objects are left rewound)."""
    out: Dict[str, bytes] = {}
    for name, f in db.auxiliary_files.items():
        f.seek(0)
        out[os.path.basename(str(name))] = f.read()
        f.seek(0)
    return out


def aux_members(m: Dict[str, bytes]) -> Dict[str, bytes]:
    return {n: b for n, b in m.items() if not is_odx(n) and n.lower() != "index.xml"}


def code_objects(db: Any) -> Dict[Tuple[Any, ...], Tuple[str, str, Any]]:
    """{path: (class, CODE-FILE, .code)} of every PROG-CODE and LIBRARY (`code` is the content of the auxiliary file)."""
    out: Dict[Tuple[Any, ...], Tuple[str, str, Any]] = {}
    for s in R.walk(root_of(db)):
        if s.attr == "code_file" and s.holder is s.owner and hasattr(s.owner, "code"):
            try:
                code = s.owner.code
            except Exception as e:
                code = "<" + type(e).__name__ + ">"
            out[tuple(s.path[:-1])] = (s.cls, s.value, code)
    return out


def judge_aux(db: Any, before: Dict[str, bytes], codes0: Dict[Any, Any], m: Dict[str, bytes], db1: Any, out: "Outcome") -> None:
    """Auxiliary files: contents in the written archive, in an archive written AGAIN from the same Database object, and as seen
    by ProgCode.code / Library.code of the databases loaded from both."""

    def cmp_members(tag: str, key: str, got: Dict[str, bytes]) -> None:
        for n in sorted(before):
            if n not in got:
                out.findings.append((f"C11/Database.auxiliary_files/dropped", f"{tag}: auxiliary file {n!r} is missing"))
            elif got[n] != before[n]:
                out.findings.append((key, f"{tag}: auxiliary file {n!r} has {len(got[n])} bytes {got[n][:30]!r}, the database holds {len(before[n])} bytes {before[n][:30]!r}"))

    def cmp_codes(tag: str, dbx: Any) -> None:
        cx = code_objects(dbx)
        for p, (cls, fn, code) in codes0.items():
            got = cx.get(p)
            if got is not None and got[2] != code:
                out.findings.append((f"C11/{cls}.code/altered", f"{tag} at {list(p)}: code of {fn!r} is {R._short(got[2])}, was {R._short(code)}"))

    cmp_members("written archive", "C11/Database.auxiliary_files/altered", aux_members(m))
    cmp_codes("database loaded from the written archive", db1)
    try:
        m_again = write_members(db)  # the SAME object once more
        db_again = load_from_members(m_again)
    except Exception as e:
        out.findings.append(("C11/rewrite/same-object/crash", f"writing the same Database object a second time / loading that archive raised {type(e).__name__}: {str(e)[:200]}"))
        return
    cmp_members("archive written a second time from the same Database object", "C11/rewrite/auxiliary_files/altered", aux_members(m_again))
    cmp_codes("database loaded from the second archive of the same Database object", db_again)
    changed = sorted(n for n in m if is_odx(n) and m_again.get(n) != m[n])
    if changed:
        out.findings.append((f"C11/rewrite/same-object/altered", f"second write of the same object differs in {changed}: {first_difference(m[changed[0]], m_again.get(changed[0], b''))}"))


def well_formed(data: bytes) -> bool:
    try:
        ElementTree.fromstring(data)
        return True
    except ElementTree.ParseError:
        return False


def first_difference(a: bytes, b: bytes) -> str:
    for i, (x, y) in enumerate(zip(a, b)):
        if x != y:
            return f"offset {i}: {a[max(0, i - 60):i + 60]!r} vs {b[max(0, i - 60):i + 60]!r}"
    return f"lengths {len(a)} vs {len(b)}"


# ---------------------------------------------------------------------------------------------
# work units
# ---------------------------------------------------------------------------------------------
_BASELINE_KEYS: Dict[str, set] = {}
_BASELINE_BEH: Dict[str, Optional[str]] = {}


def baseline_keys(base: str, off: Sequence[str]) -> set:
    """Keys of the findings of the UNPERTURBED base database (they are reported by the baseline unit, not again by
    every perturbation unit)."""
    k = base + "|" + ",".join(off)
    if k not in _BASELINE_KEYS:
        db = load_base(base, off)
        out = judge(db, None, True)
        _BASELINE_KEYS[k] = {key for key, _ in out.findings}
        _BASELINE_BEH[k] = next((d for key, d in reversed(out.findings) if key.startswith("C11/behaviour/")), None)
    return _BASELINE_KEYS[k]


def pair_sites(root: Any) -> Dict[Tuple[str, str], List[R.Site]]:
    out: Dict[Tuple[str, str], List[R.Site]] = {}
    for s in R.walk(root):
        out.setdefault((s.cls, s.field), []).append(s)
    return out


def enumerate_units(base: str, off: Sequence[str]) -> Tuple[List[Tuple[str, str, str]], List[Tuple[str, str, str]]]:
    """-> ([(cls, field, kind)] to run, [(cls.field, kind, reason)] not applicable by policy)"""
    db = load_base(base, off)
    todo: List[Tuple[str, str, str]] = []
    na: List[Tuple[str, str, str]] = []
    for (cls, field), sites in pair_sites(root_of(db)).items():
        kinds: Dict[str, Optional[str]] = {}
        for s in sites:
            for k, why in site_kinds(s):
                if k not in kinds or (kinds[k] is not None and why is None):
                    kinds[k] = why
        for k, why in kinds.items():
            if why is None:
                todo.append((cls, field, k))
            else:
                na.append((f"{cls}.{field}", k, why))
        if not kinds:
            na.append((f"{cls}.{field}", "none", "element-valued in every instance: its own fields are perturbed instead"))
    return todo, na


_CAND: Dict[str, Dict[Tuple[str, str, str], List[Tuple[Any, ...]]]] = {}


def candidate_paths(base: str, off: Sequence[str], cls: str, field: str, kind: str) -> List[Tuple[Any, ...]]:
    k = base + "|" + ",".join(off)
    if k not in _CAND:
        table: Dict[Tuple[str, str, str], List[Tuple[Any, ...]]] = {}
        for s in R.walk(root_of(load_base(base, off))):
            for kd, why in site_kinds(s):
                if why is None:
                    table.setdefault((s.cls, s.field, kd), []).append(s.path)
        _CAND[k] = table
    return _CAND[k].get((cls, field, kind), [])


def site_at(root: Any, path: Sequence[Any]) -> Optional[R.Site]:
    try:
        obj: Any = root
        owner: Any = None
        owner_idx = 0
        for i, step in enumerate(path[:-1]):
            obj = obj[step] if (isinstance(step, int) or isinstance(obj, dict)) else getattr(obj, step)
            if R.is_dc(obj) and not R.is_link(obj):
                owner, owner_idx = obj, i + 1
        holder, attr = obj, path[-1]
        if owner is None or not isinstance(attr, str):
            return None
        fname = path[owner_idx]
        field = fname if holder is owner else f"{fname}.{attr}"
        return R.Site(tuple(path), owner, R.cname(owner), field, getattr(holder, attr), holder, attr)
    except (AttributeError, IndexError, KeyError, TypeError):
        return None


def run_perturbation(base: str, off: Sequence[str], path: Sequence[Any], kind: str) -> Tuple[str, List[Tuple[str, str]], str]:
    """-> (status, findings, description). status: 'run' | 'skip:<reason>'"""
    _SITES_MEMO.clear()
    db = load_base(base, off)
    root = root_of(db)
    s = site_at(root, path)
    if s is None:
        return "skip:site not found", [], ""
    try:
        new = apply_perturbation(db, root, s, kind, list(path))
    except Skip as e:
        return "skip:" + str(e), [], ""
    except Exception as e:  # reported in the coverage table, never silently dropped
        return f"skip:harness cannot build this perturbation ({type(e).__name__}: {str(e)[:120]})", [], ""
    import odxtools.exceptions as ex
    old_mode = ex.strict_mode
    try:
        if kind in ("set", "grow") or s.attr == "short_name":
            normalize_docfrags(root)
        db.refresh()
    except Exception as e:
        return f"skip:perturbed database is not self-consistent (refresh() raises {type(e).__name__})", [], new
    finally:
        ex.strict_mode = old_mode
    pair = f"{s.cls}.{s.field}"
    known = baseline_keys(base, off)
    out = judge(db, {"pair": pair, "kind": kind, "path": list(path), "new": new,
                     "baseline_behaviour": _BASELINE_BEH.get(base + "|" + ",".join(off))}, False)
    if out.stage == "inadmissible":
        return "skip:" + out.reason, [], new
    if out.dontcare:
        known0 = baseline_keys(base, off)
        return "dontcare:" + out.dontcare, [(k, d) for k, d in out.findings if k not in known0], new
    known = baseline_keys(base, off)
    findings = [(k, d) for k, d in out.findings if k not in known]
    # the perturbed field itself must come back
    if out.db1 is not None:
        try:
            got = R.resolve(root_of(out.db1), path)
            want = R.resolve(root, path)
            # differences INSIDE a composite value belong to (and are reported under) the inner (class, field) pairs
            same = not any(d.path == () for d in R.diff(want, got, ignore=ignore_field))
        except Exception:
            same = False
        if not same and not any(k.startswith(f"C11/{pair}/") for k, _ in out.findings):
            by = [k for k, p in out.where.items() if tuple(path[:len(p)]) == tuple(p)]
            return "masked:" + (by[0] if by else (out.findings[0][0] if out.findings else "?")), findings, new
    return "run", findings, new


def perturb_unit(unit: Tuple[str, Tuple[str, ...], str, str, str]) -> Part:
    base, off, cls, field, kind = unit
    part = Part()
    install_template_cache()
    paths = candidate_paths(base, off, cls, field, kind)
    pair = f"{cls}.{field}"
    last = "skip:no instance"
    done = False
    for path in (paths if kind == "empty" else paths[:MAXCAND]):  # "empty": most instances are typed (numbers), take the first that admits ""
        status, findings, new = run_perturbation(base, off, path, kind)
        if status.startswith("skip:"):
            if not last.startswith("masked:"):
                last = status
            part.count("perturbations_inadmissible")
            continue
        part.count("evaluations")
        part.count("perturbations_run")
        part.add("nontrivial", digest((base, pair, kind)))
        case = {"mode": "perturb", "base": base, "off": list(off), "path": list(path), "kind": kind, "pair": pair}
        for key, detail in findings:
            part.violation(key, case, f"[{base}: {pair} {kind} -> {new}] {detail}")
        if status.startswith("masked:"):
            last = status  # the instance sits below something the writer drops anyway: try the next instance
            continue
        if status.startswith("dontcare:"):
            last = status
        elif any(k.startswith(f"C11/{pair}/") for k, _ in findings):
            last = "finding:" + sorted(k for k, _ in findings if k.startswith(f"C11/{pair}/"))[0]
        else:
            last = "survived" + (" (other findings: " + ",".join(sorted({k for k, _ in findings})) + ")" if findings else "")
        if len(part.samples) < 1 and kind in ("meta", "grow"):
            part.sample({"base": base, "pair": pair, "kind": kind, "new": new, "path": list(path)}, limit=1)
        done = True
        break
    part.add("cov", (base, pair, kind, last))
    return part


AUX_READS = ("all", "half", "one byte", "read and rewound")


def aux_read_findings(base: str, off: Sequence[str], how: str) -> List[Tuple[str, str]]:
    """Auxiliary files whose file object somebody has read (completely / partly / and rewound) BEFORE the first write."""
    out: List[Tuple[str, str]] = []
    dbx = load_base(base, off)
    want = aux_contents(dbx)
    codes0 = code_objects(dbx)
    for name, f in dbx.auxiliary_files.items():
        n = len(want[os.path.basename(str(name))])
        f.seek(0)
        f.read({"all": -1, "half": max(1, n // 2), "one byte": 1, "read and rewound": -1}[how])
        if how == "read and rewound":
            f.seek(0)
    tag = f"[{base}] auxiliary file objects read ({how}) before write_pdx_file"
    try:
        mx = write_members(dbx)
        got = aux_members(mx)
        codes = code_objects(load_from_members(mx))
    except Exception as e:
        return [("C11/Database.auxiliary_files/crash", f"{tag}: {type(e).__name__}: {str(e)[:200]}")]
    bad = [n for n in sorted(want) if got.get(n) != want[n]]
    if bad:
        out.append(("C11/Database.auxiliary_files/altered", f"{tag}: {bad[0]!r} is written with {len(got.get(bad[0], b''))} of {len(want[bad[0]])} bytes"))
    for p, (cls, fn, code) in codes0.items():
        if p in codes and codes[p][2] != code:
            out.append((f"C11/{cls}.code/altered", f"{tag}: code of {fn!r} reloads as {R._short(codes[p][2])}"))
    return out


# the construct a small dedicated base exists for: if its round trip raises, that is reported under the key of the construct
BASE_CONSTRUCT = {"dv": "BaseVariantRaw.diag_variables_raw"}


def baseline_findings(base: str, off: Sequence[str]) -> Tuple[str, List[Tuple[str, str]]]:
    db = load_base(base, off)
    out = judge(db, None, True)
    label = BASE_CONSTRUCT.get(base)
    findings = [((f"C11/{label}/crash" if (label and k == "C11/baseline/crash") else k), d) for k, d in out.findings]
    return out.stage, findings


def baseline_unit(unit: Tuple[str, Tuple[str, ...]]) -> Part:
    base, off = unit
    part = Part()
    install_template_cache()
    db = load_base(base, off)
    part.add("normalize_changes_on_fresh_base", (base, normalize_docfrags(root_of(db))))
    stage, findings = baseline_findings(base, off)
    part.count("evaluations")
    part.count("baselines")
    part.add("nontrivial", digest((base, "baseline")))
    case = {"mode": "baseline", "base": base, "off": list(off)}
    for key, detail in findings:
        part.violation(key, case, f"[{base}, unperturbed] {detail}")
    part.add("baseline_stage", (base, stage))
    if stage == "write":
        return part  # (the database cannot be written at all)
    for how in AUX_READS:
        part.count("evaluations")
        for key, detail in aux_read_findings(base, off, how):
            part.violation(key, dict(case, aux_read=how), detail)
    return part


def feature_unit(feature: str) -> Part:
    """core + one feature (and what it needs): does the round trip go through at all?"""
    part = Part()
    install_template_cache()
    feats = E.all_features()
    off = tuple(sorted(set(feats) - E.closure(feature)))
    try:
        db = load_base("ks", off)
    except Exception as e:
        part.add("unloadable", (feature, f"{type(e).__name__}: {str(e)[:200]}"))
        return part
    out = judge(db, None, False)
    part.count("evaluations")
    part.count("feature_isolations")
    if out.stage != "ok":
        part.add("blocked", feature)
        part.add("blocked_detail", (feature, out.stage, "; ".join(d for k, d in out.findings if k.endswith("/crash") or k.endswith("/mis-escaped"))[:600]))
    return part


def feature_key(feature: str) -> str:
    return f"C11/{E.all_features()[feature]}/crash"


# ---------------------------------------------------------------------------------------------
# member orders x entry points
# ---------------------------------------------------------------------------------------------
def load_how(members: Dict[str, bytes], order: Sequence[str], how: str, case: str = "") -> Any:
    from odxtools import loadfile
    if how == "load_pdx_file":
        return load_from_members(members, order, case)
    d = tmp_path(".dir")
    os.makedirs(d)
    try:
        for n in order:
            with open(os.path.join(d, case_name(n, case)), "wb") as f:
                f.write(members[n])
        order = [case_name(n, case) for n in order]
        if how == "load_files":
            return loadfile.load_files(*[os.path.join(d, n) for n in order])
        if how == "load_files(cwd)":  # bare file names, the directory being the current one
            cwd = os.getcwd()
            os.chdir(d)
            try:
                return loadfile.load_files(*order)
            finally:
                os.chdir(cwd)
        real = os.listdir

        def fake(p: Any = ".") -> List[str]:
            if os.path.abspath(str(p)) == os.path.abspath(d):
                return list(order)
            return real(p)

        os.listdir = fake  # type: ignore
        try:
            return loadfile.load_directory(d)
        finally:
            os.listdir = real  # type: ignore
    finally:
        import shutil
        shutil.rmtree(d, ignore_errors=True)


def db_view(db: Any) -> Dict[str, Any]:
    """Order-insensitive at the top level (documents by name), strict inside."""
    v: Dict[str, Any] = {"containers": {c.short_name: c for c in db.diag_layer_containers},
                         "subsets": {c.short_name: c for c in db.comparam_subsets}, "specs": {c.short_name: c for c in db.comparam_specs}}
    return v


def aux_view(db: Any) -> Dict[str, int]:
    return {os.path.basename(str(k)): 1 for k in db.auxiliary_files}


def compare_loaded(ref: Any, ref_beh: List[Any], db: Any, how: str) -> List[Tuple[str, str]]:
    out: List[Tuple[str, str]] = []
    for d in R.diff(db_view(ref), db_view(db), ctx=("Database", "documents"), ignore=ignore_field):
        out.append((f"C11/order/{how}/{d.pair}", f"at {list(d.path)}: {d.a} vs {d.b}"))
    if ref.short_name != db.short_name:
        out.append((f"C11/entrypoint/{how}/Database.short_name", f"{ref.short_name!r} (load_pdx_file reads index.xml) vs {db.short_name!r}"))
    if str(ref.model_version) != str(db.model_version):
        out.append((f"C11/entrypoint/{how}/Database.model_version", f"{ref.model_version} vs {db.model_version}"))
    if aux_view(ref) != aux_view(db):
        out.append((f"C11/entrypoint/{how}/auxiliary_files", f"{sorted(aux_view(ref))} vs {sorted(aux_view(db))}"))
    else:
        ca, cb = aux_contents(ref), aux_contents(db)
        bad = [n for n in sorted(ca) if ca[n] != cb.get(n)]
        if bad:
            out.append((f"C11/entrypoint/{how}/auxiliary_files", f"content of {bad[0]!r}: {ca[bad[0]][:40]!r} vs {cb.get(bad[0], b'')[:40]!r}"))
    bd = behaviour_diff(ref_beh, behaviour(db))
    if bd:
        out.append((bd[0].replace("C11/behaviour", f"C11/order/{how}/behaviour"), bd[1]))
    return out


def member_order(names: List[str], perm: Sequence[int], rot: int) -> List[str]:
    """ODX documents permuted among their own slots, then the whole member list rotated by rot."""
    odx = [n for n in names if is_odx(n)]
    it = iter([odx[i] for i in perm])
    out = [next(it) if is_odx(n) else n for n in names]
    return out[rot:] + out[:rot]


ENTRY_POINTS = ("load_pdx_file", "load_directory", "load_files", "load_files(cwd)")


def order_unit(unit: Tuple[str, Tuple[str, ...], List[Tuple[Tuple[int, ...], int]]]) -> Part:
    base, off, chunk = unit
    part = Part()
    members = base_members(base, off)
    names = list(members)
    ref = load_from_members(members)
    ref_beh = behaviour(ref)
    for perm, rot, fcase in chunk:
        order = member_order(names, perm, rot)
        for how in ENTRY_POINTS:
            part.count("evaluations")
            part.count("order_loads")
            part.add("file_name_cases", fcase or "as written")
            case = {"mode": "order", "base": base, "off": list(off), "perm": list(perm), "rot": rot, "how": how, "case": fcase}
            try:
                db = load_how(members, order, how, fcase)
            except Exception as e:
                part.violation(f"C11/entrypoint/{how}/crash", case, f"[{base}] {how} raised {type(e).__name__}: {str(e)[:300]}")
                part.add("order_outcomes", (how, "crash"))
                continue
            probs = compare_loaded(ref, ref_beh, db, how)
            for key, detail in probs:
                part.violation(key, case, f"[{base} order {order[:8]}...] {detail}")
            part.add("order_outcomes", (how, "equal" if not probs else "differs"))
            part.add("nontrivial", digest((base, tuple(perm), rot, how, fcase)))
    return part


def order_chunks(base: str, off: Tuple[str, ...], all_perms: bool, rotations: bool, nchunks: int) -> List[Any]:
    names = list(base_members(base, off))
    n_odx = len([n for n in names if is_odx(n)])
    combos: List[Tuple[Tuple[int, ...], int, str]] = [(p, 0, "") for p in R.orders(n_odx, all_perms)]
    ident = tuple(range(n_odx))
    if rotations:
        combos += [(ident, r, "") for r in range(1, len(names))]
        combos += [(tuple(reversed(ident)), r, "") for r in range(1, len(names))]
    # file-name case variants of the ODX documents and of index.xml (identity and reversed order, catalog first and last)
    for fcase in ("upper", "mixed"):
        combos += [(ident, 0, fcase), (tuple(reversed(ident)), 0, fcase), (ident, len(names) - 1, fcase)]
    size = max(1, (len(combos) + nchunks - 1) // nchunks)
    return [(base, off, combos[i:i + size]) for i in range(0, len(combos), size)]


# ---------------------------------------------------------------------------------------------
# run / replay
# ---------------------------------------------------------------------------------------------
def blocked_features(ctx: Ctx) -> Tuple[str, ...]:
    feats = E.all_features()
    pmap(ctx, feature_unit, list(feats))
    blocked = set(ctx.sets.pop("blocked", set()))
    details = {f: (stage, d) for f, stage, d in ctx.sets.pop("blocked_detail", set())}
    unload = ctx.sets.pop("unloadable", set())
    if unload:
        raise RuntimeError(f"kitchen-sink features that the PARSER rejects (fix odxmodel/emit_c11.py): {sorted(unload)}")
    # a feature is a finding of its own only if nothing it needs is blocking already
    roots = {f for f in blocked if not ((E.closure(f) - {f}) & blocked)}
    for f in sorted(roots):
        stage, d = details[f]
        ctx.violation(feature_key(f), {"mode": "feature", "feature": f}, f"[kitchen-sink core + feature '{f}', stage {stage}] {d}")
    off = set(blocked)
    for f in feats:
        if E.closure(f) & blocked:
            off.add(f)
    ctx.extra["kitchen_sink_features"] = {"all": len(feats), "blocking_the_round_trip": sorted(blocked),
                                          "left_out_because_they_need_a_blocking_one": sorted(off - blocked)}
    return tuple(sorted(off))


def run(ctx: Ctx) -> None:
    install_template_cache()
    ctx.rule = ("non-trivial = distinct (base database, class.field, perturbation kind) whose perturbed database is self-consistent and "
                "went through write -> load -> compare -> write -> compare, plus distinct (database, member order, entry point) loads")
    ctx.assumptions = [
        "write_pdx_file's jinja2 environments get a process-wide BytecodeCache (VERIF_C11_NOCACHE=1 disables); guarded by a byte comparison",
        "a perturbation is admissible iff Database.refresh() succeeds on the perturbed object graph",
        "differences in the order of whole documents (containers / subsets / specs) and of auxiliary files between member orders are DON'T-CARE",
        "for perturbed databases encode/decode behaviour is compared between the first and the second reload (the in-memory original has "
        "stale derived state); for the unperturbed databases between the original and the reload",
        "fields the parser does not read from the element itself (DERIVED), discriminators and lexical domains are listed under coverage.policy",
    ]
    # guard: the template cache does not change what is written
    db = load_base("somersault", ())
    m_cached = write_members(db)
    import odxtools.writepdxfile as W
    import jinja2
    shim = W.jinja2
    W.jinja2 = jinja2  # type: ignore
    try:
        m_plain = write_members(load_base("somersault", ()))
    finally:
        W.jinja2 = shim  # type: ignore
    ctx.guard("template cache leaves the written ODX documents byte-identical",
              all(m_plain[n] == m_cached[n] for n in m_plain if is_odx(n)) and len(m_plain) == len(m_cached))

    off = blocked_features(ctx)
    bases = [("ks", off), ("somersault", ()), ("somersault_modified", ())]
    # other ODX model versions (as far as the parser loads the kitchen sink in them): unperturbed round trip only
    versioned = []
    for ver in MODEL_VERSIONS:
        # (before ODX 2.2 odxtools cannot load PROTOCOL layers -- they need an ODX 2.2 COMPARAM-SPEC -- so the small database is used there)
        name, o = ("ks@" + ver, off) if tuple(int(x) for x in ver.split(".")[:2]) >= (2, 2) else ("mini@" + ver, ())
        try:
            load_base(name, o)
            versioned.append((name, o))
        except Exception as e:
            ctx.note(f"{name} is not loadable ({type(e).__name__}: {str(e)[:80]}): not a base")
    ctx.extra["model_versions"] = {"tried": list(MODEL_VERSIONS), "bases": [b for b, _ in versioned]}
    pmap(ctx, baseline_unit, bases + [("ks-auxnames", off), ("dv", ())] + versioned)  # (unperturbed round trip only for the last ones)
    stages = dict(ctx.sets.pop("baseline_stage", set()))
    ctx.guard("document-fragment normalisation is a no-op on freshly loaded databases",
              all(n == 0 for _, n in ctx.sets.pop("normalize_changes_on_fresh_base", {("?", 1)})))
    if stages.get("ks") != "ok":
        ctx.caps.append("the kitchen-sink database without the blocking features still does not survive the round trip: perturbations on it were not run")

    units: List[Any] = []
    policy_na: Dict[str, Dict[str, str]] = {}
    reached: Dict[str, set] = {}
    seen_units: set = set()
    for base, o in bases:
        todo, na = enumerate_units(base, o)
        reached[base] = {(c, f) for c, f, _ in todo} | {tuple(p.split(".", 1)) for p, _, _ in na}
        for p, k, why in na:
            policy_na.setdefault(p, {})[k] = why
        if stages.get(base) != "ok":
            continue
        for c, f, k in todo:
            # quick: the shipped examples only for what the databases before them do not reach
            if ctx.quick and (c, f, k) in seen_units:
                continue
            units.append((base, o, c, f, k))
        seen_units |= set(todo)
    ctx.count("perturbation_units", len(units))
    pmap(ctx, perturb_unit, units)

    # member orders x entry points
    ounits = order_chunks("ks", off, True, True, 16)
    ounits += order_chunks("ks-written", off, ctx.quick is False, False, 8)
    ounits += order_chunks("ks-auxnames", off, False, True, 8)
    ounits += order_chunks("ks-auxnames-written", off, False, False, 2)
    ounits += order_chunks("somersault", (), not ctx.quick, False, 16 if ctx.quick else 64)
    ounits += order_chunks("somersault_modified", (), False, False, 4)
    pmap(ctx, order_unit, ounits)

    # coverage table
    cov = ctx.sets.pop("cov", set())
    table: Dict[str, Dict[str, Dict[str, str]]] = {}
    for base, pair, kind, status in sorted(cov):
        table.setdefault(base, {}).setdefault(pair, {})[kind] = status
    summary: Dict[str, int] = {}
    for base in table:
        for pair in table[base]:
            for kind, st in table[base][pair].items():
                k = st.split(":")[0].split(" ")[0]
                summary[k] = summary.get(k, 0) + 1
    all_pairs = set()
    for b in reached:
        all_pairs |= reached[b]
    ctx.extra["pairs_reached_per_base"] = {b: len(v) for b, v in reached.items()}
    ctx.extra["pairs_reached_total"] = len(all_pairs)
    ctx.extra["classes_reached"] = len({c for c, _ in all_pairs})
    ctx.extra["perturbation_status_counts"] = summary
    ctx.extra["policy"] = {"not_applied": policy_na, "DERIVED": DERIVED, "DISCRIMINATOR": {f"{c}.{f}": w for (c, f), w in DISCRIMINATOR.items()},
                           "MARKUP": {f"{c}.{f}": w for (c, f), w in MARKUP.items()}, "NUMERIC_TEXT": {f"{c}.{f}": w for (c, f), w in NUMERIC_TEXT.items()},
                           "PRESENCE_FLAGS": {f"{c}.{f}": w for (c, f), w in PRESENCE_FLAGS.items()},
                           "INADMISSIBLE": {f"{p} {k}": w for (p, k), w in INADMISSIBLE.items()},
                           "TYPED_BY_BASE_TYPE": sorted(f"{c}.{f}" for c, f in TYPED_BY_BASE_TYPE)}
    ctx.extra["coverage_table"] = table
    ctx.extra["not_reachable_in_any_base"] = unreached_classes(all_pairs)
    ctx.bounds = {"bases": [b for b, _ in bases], "kitchen_sink_features_off": list(off), "max_instances_tried_per_pair": MAXCAND,
                  "kinds": ["set", "flip", "inc", "next", "meta", "alt", "empty", "grow", "retarget", "docref", "docref-layer", "docref-target"],
                  "file_name_cases": ["as written", "upper (.ODX-D, INDEX.XML)", "mixed (.Odx-d, Index.Xml)"], "metacharacter_string": R.META,
                  "orders": {"ks": "all permutations of the 4 ODX documents + every rotation of the 8 members (identity and reversed)",
                             "somersault": "all 5040 permutations of the 7 ODX documents" if not ctx.quick else "identity, 6 rotations, reversal",
                             "somersault_modified": "identity, rotations, reversal"},
                  "entry_points": list(ENTRY_POINTS)}
    outcomes = ctx.sets.get("order_outcomes", set())
    ctx.guard("at least 500 admissible perturbations were executed", ctx.counts.get("perturbations_run", 0) >= 500)
    ctx.guard("both surviving and inadmissible perturbations were seen", summary.get("survived", 0) > 0 and summary.get("skip", 0) > 0)
    ctx.guard("every entry point loaded at least one order", {h for h, _ in outcomes} == set(ENTRY_POINTS))
    ctx.guard("more than 1000 (class, field) pairs reached", len(all_pairs) > 1000)
    ctx.sample({"base": "ks", "members": list(base_members("ks", off))})
    # the framework re-executes the recorded case of every finding through replay(); do these re-executions on the worker pool
    cases = {jdump(case): case for (_, case, _) in ctx.viol.values()}
    pmap(ctx, replay_unit, [cases[k] for k in sorted(cases)])
    import json
    for memo, res in ctx.sets.pop("replayed", set()):
        _REPLAY_MEMO[memo] = [(k, d) for k, d in json.loads(res)]


def unreached_classes(pairs: set) -> List[str]:
    """Dataclasses of the odxtools package none of whose fields is reached (abstract bases and codec state included)."""
    import importlib
    root = os.path.join(repo_root(), "odxtools")
    have = {c for c, _ in pairs}
    out = set()
    for dp, _, fn in os.walk(root):
        if "cli" in dp or "templates" in dp or "__pycache__" in dp:
            continue
        for f in fn:
            if not f.endswith(".py") or f == "__main__.py":
                continue
            name = ("odxtools" + dp[len(root):].replace(os.sep, ".") + "." + f[:-3]).replace(".__init__", "")
            try:
                mod = importlib.import_module(name)
            except Exception:
                continue
            for k, v in vars(mod).items():
                if isinstance(v, type) and dataclasses.is_dataclass(v) and v.__module__ == name and v.__name__ not in have:
                    out.add(v.__name__)
    return sorted(out)


_REPLAY_MEMO: Dict[str, List[Tuple[str, str]]] = {}


def replay_unit(case: Any) -> Part:
    part = Part()
    part.add("replayed", (jdump(case), jdump([[k, d] for k, d in replay(case)])))
    part.count("replays")
    return part


def replay(case: Any) -> List[Tuple[str, str]]:
    install_template_cache()
    memo = jdump(case)
    if memo in _REPLAY_MEMO:
        return _REPLAY_MEMO[memo]
    mode = case["mode"]
    res: List[Tuple[str, str]] = []
    if mode == "feature":
        part = feature_unit(case["feature"])
        res = [(feature_key(f), d) for f, stage, d in part.sets.get("blocked_detail", set())]
    elif mode == "baseline" and case.get("aux_read"):
        res = aux_read_findings(case["base"], tuple(case["off"]), case["aux_read"])
    elif mode == "baseline":
        res = baseline_findings(case["base"], tuple(case["off"]))[1]
    elif mode == "perturb":
        status, findings, new = run_perturbation(case["base"], tuple(case["off"]), [p for p in case["path"]], case["kind"])
        res = findings
    elif mode == "order":
        members = base_members(case["base"], tuple(case["off"]))
        names = list(members)
        ref = load_from_members(members)
        order = member_order(names, case["perm"], case["rot"])
        try:
            db = load_how(members, order, case["how"], case.get("case", ""))
            res = compare_loaded(ref, behaviour(ref), db, case["how"])
        except Exception as e:
            res = [(f"C11/entrypoint/{case['how']}/crash", f"{type(e).__name__}: {str(e)[:300]}")]
    _REPLAY_MEMO[memo] = res
    return res
