"""C05 -- decoding arbitrary bytes is total: it returns or raises the library's DecodeError.

(a) every program of the codec space x {every strict prefix of each valid PDU, every single-byte substitution
    at every position by a small value menu, one inserted and one deleted byte at every position};
(b) all byte strings up to length 3 (4) over the program's own byte alphabet + {00, FF};
(c) the same through every layer of examples/somersault.pdx: DiagLayer.decode, decode_response,
    DiagService.decode_message.
Oracle: nothing but DecodeError escapes; where the reference decoder runs out of bytes (a PDU that ends
before the last described parameter) the real decoder must raise DecodeError, not invent values.
"""
from __future__ import annotations

import contextlib
import io
import itertools
import os
import signal
import warnings
from typing import Any, Dict, Iterator, List, Set, Tuple

from checks.codec_common import make_contextualize, make_unit_fn, minimize_keys, prog_case, replay_with, tagkey
from mcx.core import Ctx, Part, digest, pmap, repo_root
from odxmodel import harness, refodx, space
from odxmodel.harness import jval, show

PROPERTY = "C05"
LEVEL = "model_checking"

SUBST = (0x00, 0x01, 0x7F, 0x80, 0xFF)


class Timeout(Exception):
    pass


def _alarm(signum: int, frame: Any) -> None:
    raise Timeout()


def guarded_decode(fn: Any, *args: Any) -> Tuple[Any, Any]:
    """-> (result, exception); a decode that runs longer than 5 s is reported as Timeout (non-termination)"""
    old = signal.signal(signal.SIGALRM, _alarm)
    signal.setitimer(signal.ITIMER_REAL, 5.0)
    try:
        with warnings.catch_warnings():
            warnings.simplefilter("ignore")
            try:
                return fn(*args), None
            except BaseException as e:  # noqa
                if isinstance(e, (KeyboardInterrupt, SystemExit)):
                    raise
                return None, e
    finally:
        signal.setitimer(signal.ITIMER_REAL, 0)
        signal.signal(signal.SIGALRM, old)


def mutations(pdu: bytes, extra: Tuple[int, ...]) -> Iterator[bytes]:
    for i in range(len(pdu)):
        yield pdu[:i]
    menu = sorted(set(SUBST) | set(extra))
    for i in range(len(pdu)):
        for b in menu + [(pdu[i] + 1) & 0xFF, (pdu[i] - 1) & 0xFF]:
            if b != pdu[i]:
                yield pdu[:i] + bytes([b]) + pdu[i + 1:]
        yield pdu[:i] + pdu[i + 1:]
        yield pdu[:i] + b"\x00" + pdu[i:]
    yield pdu + b"\x00"
    yield pdu + b"\xff\xff"
    # a byte that may be a length or a key, set to a large value, with enough bytes behind it to satisfy that length
    for i in range(len(pdu)):
        for b in (0x41, 0x48, 0xFF):
            yield pdu[:i] + bytes([b]) + pdu[i + 1:] + b"\x11" * 40


_LENIENT = [False]


def judge(part: Part, tag: str, case: Dict[str, Any], pdu: bytes, res: Any, exc: Any, ref_short: bool, what: str) -> None:
    from odxtools.exceptions import DecodeError
    part.count("evaluations")
    if _LENIENT[0]:
        # non-strict mode: what a downgraded problem decodes to is not specified, but still nothing except a decode error
        # may escape and decoding must terminate
        tag = tag + "/non-strict-mode"
        case = dict(case, lenient=True)
        ref_short = False
    if exc is None:
        part.count("returned")
        if ref_short:
            part.violation(f"C05/{tag}/truncated-pdu-accepted", case, f"{what} {pdu.hex()!r} ends before the last parameter but decodes to {show(res)}")
        return
    if isinstance(exc, DecodeError):
        part.count("decode_errors")
        return
    if isinstance(exc, Timeout):
        part.violation(f"C05/{tag}/non-termination", case, f"{what} {pdu.hex()}")
        return
    part.violation(f"C05/{tag}/foreign-exception/{type(exc).__name__}", case, f"{what} {pdu.hex()!r} -> {type(exc).__name__}: {str(exc)[:140]}")


def check_program(L: harness.Loaded, prog: Dict[str, Any], part: Part) -> None:
    from odxtools.exceptions import DecodeError
    msg = L.msg[prog["pid"]]
    tag = tagkey(prog)
    if "pdus" in prog:  # replay of a recorded byte string
        inputs: List[bytes] = list(prog["pdus"])
        valid: List[bytes] = []
    elif prog["tags"][0] == "compu":  # one 8-bit value through a compu method: every byte
        inputs = [bytes([x]) for x in range(256)] + [b"", b"\x00\x00"]
        valid = []
    else:
        valid = []
        for values in prog["assign"][:6]:
            try:
                pdu, _, e = L.interp.encode(prog["pid"], values, prog.get("request"))
            except (refodx.Reject, refodx.DontCare):
                continue
            if not e.overlap and pdu not in valid:
                valid.append(pdu)
        alpha: Set[int] = {0x00, 0xFF}
        for pdu in valid[:3]:
            alpha |= set(pdu)
        extra = tuple(sorted(alpha))[:6]
        seen: Set[bytes] = set()
        inputs = []
        for pdu in valid:
            for m in itertools.chain([pdu], mutations(pdu, extra)):
                if m not in seen:
                    seen.add(m)
                    inputs.append(m)
        maxlen = prog.get("maxlen", 3)
        small = sorted(alpha)[:5]
        for n in range(0, maxlen + 1):
            for t in itertools.product(small, repeat=n):
                b = bytes(t)
                if b not in seen:
                    seen.add(b)
                    inputs.append(b)
    for pdu in inputs:
        ref_short = False
        try:
            L.interp.decode(prog["pid"], pdu)
        except refodx.Short:
            ref_short = True
            part.count("reference_ran_out_of_bytes")
        except Exception:
            pass
        res, exc = guarded_decode(msg.decode, pdu)
        part.add("nontrivial", digest((tag, type(exc).__name__ if exc else "ok", len(pdu))))
        judge(part, tag, {"program": prog_case(prog), "values": None, "pdu": pdu.hex()}, pdu, res, exc, ref_short, "PDU")
    # the same description through the diagnostic layer it belongs to (prefix tree, response matching)
    if "pdus" in prog:
        layer_inputs = inputs
    else:
        layer_inputs = []
        for v in valid:
            for m in [v] + [v[:n] for n in range(len(v))] + [v + b"\x00", v[:1] + b"\xff" + v[2:]]:
                if m not in layer_inputs:
                    layer_inputs.append(m)
    rq = prog.get("request") or bytes([0x22, 0xF1, 0x90])
    svc = next((s_ for s_ in L.layer.services if s_.short_name == "svc_" + prog["pid"]), None)
    for pdu in layer_inputs:
        case = {"program": prog_case(prog), "values": None, "pdu": pdu.hex()}
        apis: List[Tuple[str, Any, Tuple[Any, ...]]] = [("layer-decode", L.layer.decode, (pdu,))]
        if prog.get("kind", "REQUEST") != "REQUEST":
            apis.append(("layer-decode_response", L.layer.decode_response, (pdu, rq)))
        if svc is not None:
            apis.append(("service-decode_message", svc.decode_message, (pdu,)))
        for name, fn, args in apis:
            res, exc = guarded_decode(fn, *args)
            part.count("layer_api_calls")
            if name.startswith("layer-") and exc is not None and not isinstance(exc, DecodeError) and len(L.progs) > 1:
                # the layer holds the services of all programs of the unit: attribute the failure to the service(s) that
                # raise it on their own, so that the recorded case replays on a layer of its own
                culprits = 0
                for s2 in L.layer.services:
                    p2 = L.progs.get(s2.short_name[4:])
                    if p2 is None or p2 is prog:
                        continue
                    _, e2 = guarded_decode(s2.decode_message, pdu)
                    if e2 is not None and type(e2) is type(exc):
                        culprits += 1
                        judge(part, f"{tagkey(p2)}/service-decode_message", {"program": prog_case(p2), "values": None, "pdu": pdu.hex()},
                              pdu, None, e2, False, "service-decode_message")
                if culprits:
                    continue
            judge(part, f"{tag}/{name}", case, pdu, "..." if exc is None else None, exc, False, name)


_strict_unit_fn = make_unit_fn(PROPERTY, check_program)


def unit_fn(unit: Any) -> Part:
    """unit: (name, programs) or (name, programs, 'lenient'): the same exploration with odxtools' strict mode switched off"""
    import logging

    import odxtools.exceptions
    lenient = len(unit) > 2 and unit[2] == "lenient" or any(p.get("lenient") for p in unit[1])
    if not lenient:
        return _strict_unit_fn(unit[:2])
    logging.disable(logging.CRITICAL)
    odxtools.exceptions.strict_mode = False
    _LENIENT[0] = True
    try:
        return _strict_unit_fn(unit[:2])
    finally:
        odxtools.exceptions.strict_mode = True
        _LENIENT[0] = False


# ---------------------------------------------------------------------------------------------
# (c) somersault through the layer API
# ---------------------------------------------------------------------------------------------
_SINK = io.StringIO()


def snoop_handle(layer: Any, pdu: bytes, direction: str) -> None:
    import odxtools.cli.snoop as snoop
    snoop.odx_diag_layer = layer
    snoop.ecu_rx_id, snoop.ecu_tx_id = 0x7E0, 0x7E8
    if direction == "response":
        snoop.last_request = bytes([0x10, 0x01])
    elif direction == "response-without-request":
        snoop.last_request = None
    with contextlib.redirect_stdout(_SINK):
        if direction == "response-after-undecodable-request":
            snoop.last_request = bytes([0x10, 0x01])
            snoop.handle_telegram(0x7E0, bytes([0xEE, 0xEE, 0xEE]))  # a request no service can decode
        snoop.handle_telegram(0x7E0 if direction == "request" else 0x7E8, pdu)
    _SINK.seek(0)
    _SINK.truncate()


def somersault_unit(unit: Tuple[str, int, int]) -> Part:
    import odxtools
    layer_name, maxlen, shard = unit
    part = Part()
    db = odxtools.load_pdx_file(os.path.join(repo_root(), "examples", "somersault.pdx"))
    layer = db.diag_layers[layer_name]
    # byte alphabet: every constant prefix byte of the layer's services + a few others
    alpha: Set[int] = {0x00, 0x01, 0x7F, 0xFF}
    valid: List[bytes] = []
    for svc in layer.services:
        for obj in [svc.request] + list(svc.positive_responses) + list(svc.negative_responses):
            if obj is None:
                continue
            try:
                pre = bytes(obj.coded_const_prefix())
            except Exception:
                pre = b""
            alpha |= set(pre)
            if pre:
                valid.append(pre)
    # global negative responses: their constant prefixes (alone and behind every service's request prefix) and every
    # constant / NRC value of every coding object join the alphabet
    rq_prefixes = [b""] + [v for v in valid]
    for gnr in layer.global_negative_responses:
        for rp in rq_prefixes[:8]:
            try:
                pre = bytes(gnr.coded_const_prefix(request_prefix=rp))
            except Exception:
                continue
            if pre and pre not in valid:
                valid.append(pre)
        for p_ in gnr.parameters:
            for cv in ([getattr(p_, "coded_value", None)] + list(getattr(p_, "coded_values", []) or [])):
                if isinstance(cv, int) and 0 <= cv < 256:
                    alpha.add(cv)
    small = sorted(alpha)
    inputs: List[bytes] = []
    seen: Set[bytes] = set()
    for n in range(0, maxlen + 1):
        for t in itertools.product(small, repeat=n):
            inputs.append(bytes(t))
    for v in valid:
        for tail in (b"", b"\x00", b"\x01\x02", b"\xff\xff\xff", b"\x00" * 8):
            inputs.append(v + tail)
        for n in range(len(v)):
            inputs.append(v[:n])
    for i, pdu in enumerate(inputs):
        if i % 4 != shard or pdu in seen:
            continue
        seen.add(pdu)
        case = {"somersault": layer_name, "pdu": pdu.hex(), "api": "decode"}
        res, exc = guarded_decode(layer.decode, pdu)
        part.add("nontrivial", digest((layer_name, type(exc).__name__ if exc else "ok", pdu[:1].hex())))
        judge(part, f"somersault/{layer_name}/decode", case, pdu, "..." if exc is None else None, exc, False, "layer.decode")
        # `odxtools snoop` feeds every reassembled telegram to handle_telegram(), which must survive anything
        for direction in ("request", "response", "response-without-request", "response-after-undecodable-request"):
            res, exc = guarded_decode(snoop_handle, layer, pdu, direction)
            part.count("evaluations")
            if exc is not None:
                part.violation(f"C05/somersault/{layer_name}/snoop-handle-telegram/{type(exc).__name__}",
                               dict(case, api="snoop-" + direction), f"handle_telegram({direction}, {pdu.hex()!r}) raised {type(exc).__name__}: {str(exc)[:120]}")
        # decode_response with a matching request, decode_message per service
        if len(pdu) >= 1 and len(pdu) <= 2:
            for svc in list(layer.services)[:6]:
                try:
                    rq = bytes(svc.request.coded_const_prefix()) + b"\x01\x02" if svc.request else b"\x10\x01"
                except Exception:
                    rq = b"\x10\x01"
                res, exc = guarded_decode(layer.decode_response, pdu, rq)
                judge(part, f"somersault/{layer_name}/decode_response", dict(case, api="decode_response", request=rq.hex()), pdu, "...", exc, False, "decode_response")
                res, exc = guarded_decode(svc.decode_message, pdu)
                judge(part, f"somersault/{layer_name}/decode_message", dict(case, api="decode_message", service=svc.short_name), pdu, "...", exc, False, "decode_message")
    return part


def units_for(quick: bool) -> List[Any]:
    progs_c = [p for p in space.layer_c_programs(quick) if len(p["tags"][1].split("+")) <= (2 if quick else 3) or p.get("kind", "REQUEST") != "REQUEST"]
    for p in progs_c:
        single = len(p["tags"][1].split("+")) <= 1
        p["maxlen"] = (3 if single else 2) if quick else (4 if single else 3)
    chunk = 100
    units: List[Any] = [(f"C/{c // chunk}", progs_c[c:c + chunk]) for c in range(0, len(progs_c), chunk)]
    a_units = space.layer_a_minmax_units(quick) + space.layer_a_lead_units(quick) + space.layer_a_plen_units(quick) + \
        space.layer_a_string_units(quick) + space.layer_a_float_units(quick) + space.layer_a_mask_units(quick)
    for name, progs in a_units:
        for c in range(0, len(progs), chunk):
            units.append((f"{name}/{c // chunk}", progs[c:c + chunk]))
    for name, progs in space.layer_b_units(quick):
        units.append((name, progs))
    ints = space.layer_a_int_units(True)
    units += ints if not quick else ints[::4]
    return units


contextualize = make_contextualize(PROPERTY, units_for)


def run(ctx: Ctx) -> None:
    units = units_for(ctx.quick)
    ctx.bounds = {"programs": "layer C depth <= %d, layer A" % (2 if ctx.quick else 3), "mutations": "all strict prefixes, substitutions by %s + program bytes + orig+-1 at every position, one insertion/deletion at every position" % (list(SUBST),),
                  "all_strings_upto": "quick: 3 for single-template programs, 2 otherwise; thorough: 4 and 3; over the program's byte alphabet",
                  "layer_B": "every 8-bit compu program of the shared space x all 256 one-byte PDUs",
                  "layer_apis_on_program_layers": "valid PDUs, all their strict prefixes and two mutations through DiagLayer.decode, decode_response (responses) and DiagService.decode_message; responses belong to a service with request 22 <16-bit id>",
                  "long_tails": "every byte set to 0x41/0x48/0xFF with 40 more bytes behind it (length keys beyond 64 bits)",
                  "somersault": "every layer x all byte strings <= %d over the layer's prefix bytes + {00,01,7F,FF}" % (2 if ctx.quick else 3)}
    ctx.rule = "program x byte string; non-trivial = distinct (construct, outcome class, length)"
    ctx.assumptions = ["warnings of category DecodeError are not exceptions and are ignored", "a decode running longer than 5 s counts as non-termination",
                       "'ends before the last parameter' is decided by the reference decoder running out of bytes (three-valued: only its Short verdict is used)"]
    # the same in non-strict mode (quick: every fourth unit)
    lunits = [(n, p, "lenient") for n, p in (units[::4] if ctx.quick else units)]
    ctx.bounds["non_strict_mode"] = "every unit again with strict mode off (quick: every fourth unit); only 'no foreign exception, terminates' is judged there"
    pmap(ctx, unit_fn, units + lunits, isolate=True)
    import odxtools
    db = odxtools.load_pdx_file(os.path.join(repo_root(), "examples", "somersault.pdx"))
    sunits = [(l.short_name, 2 if ctx.quick else 3, sh) for l in db.diag_layers for sh in range(4)]
    pmap(ctx, somersault_unit, sunits)
    minimize_keys(ctx)
    ctx.counts["traces_validated_against_impl"] = ctx.counts.get("evaluations", 0)
    ctx.sample({"program": "q_CC8a_V8a", "pdu": "22", "outcome": "DecodeError"})
    ctx.guard("returned > 1000", ctx.counts.get("returned", 0) > 1000)
    ctx.guard("decode errors > 1000", ctx.counts.get("decode_errors", 0) > 1000)


def replay(case: Any) -> List[Tuple[str, str]]:
    if "somersault" in case:
        import odxtools
        db = odxtools.load_pdx_file(os.path.join(repo_root(), "examples", "somersault.pdx"))
        layer = db.diag_layers[case["somersault"]]
        pdu = bytes.fromhex(case["pdu"])
        part = Part()
        if case["api"] == "decode":
            res, exc = guarded_decode(layer.decode, pdu)
        elif case["api"].startswith("snoop-"):
            res, exc = guarded_decode(snoop_handle, layer, pdu, case["api"][6:])
            if exc is not None:
                return [(f"C05/somersault/{case['somersault']}/snoop-handle-telegram/{type(exc).__name__}", str(exc))]
            return []
        elif case["api"] == "decode_response":
            res, exc = guarded_decode(layer.decode_response, pdu, bytes.fromhex(case["request"]))
        else:
            res, exc = guarded_decode(layer.services[case["service"]].decode_message, pdu)
        judge(part, f"somersault/{case['somersault']}/{case['api']}", case, pdu, "...", exc, False, case["api"])
        return [(k, v[2]) for k, v in part.viol.items()]
    if case.get("lenient"):
        def lenient_unit(u: Any) -> Part:
            return unit_fn((u[0], u[1], "lenient"))
        return replay_with(lenient_unit, case, PROPERTY)
    return replay_with(unit_fn, case, PROPERTY)
