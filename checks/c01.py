"""C01 -- encode -> decode returns the encoded values and consumes the whole PDU.

Every program of the shared codec space x every value assignment the real encoder accepts; the expected
decode result complete(v) (constants, defaults, derived keys, case names, item counts) comes from the
independent reference interpreter, not from odxtools.
"""
from __future__ import annotations

from typing import Any, Dict, List, Tuple

from checks.codec_common import make_contextualize, make_unit_fn, minimize_keys, prog_case, replay_with, tagkey, traced_decode
from mcx.core import Ctx, Part, digest, pmap
from odxmodel import harness, refodx, space
from odxmodel.harness import jval, show

PROPERTY = "C01"
LEVEL = "model_checking"


def supplied_only(values: Dict[str, Any]) -> Dict[str, Any]:
    return dict(values)


def compare_supplied(values: Any, got: Any) -> bool:
    """weaker expectation when the reference has no opinion: what was supplied must come back"""
    if isinstance(values, dict):
        if not isinstance(got, dict):
            return False
        return all(k in got and compare_supplied(v, got[k]) for k, v in values.items())
    if isinstance(values, tuple) and len(values) == 2 and isinstance(values[0], int) and not isinstance(values[0], bool):
        # MUX value given by key: the decoder reports the case name; only the content is compared here
        return isinstance(got, (list, tuple)) and len(got) == 2 and compare_supplied(values[1], got[1])
    if isinstance(values, (list, tuple)):
        if not isinstance(got, (list, tuple)) or len(values) != len(got):
            return False
        return all(compare_supplied(a, b) for a, b in zip(values, got))
    if isinstance(values, str) and hasattr(got, "trouble_code"):
        return getattr(got, "short_name", None) == values
    if isinstance(values, int) and hasattr(got, "trouble_code"):
        return got.trouble_code == values
    return harness.same_value(values, got)


def check_program(L: harness.Loaded, prog: Dict[str, Any], part: Part) -> None:
    msg = L.msg[prog["pid"]]
    tag = tagkey(prog)
    for values in prog["assign"]:
        part.count("evaluations")
        case = {"program": prog_case(prog), "values": jval(values)}
        pdu, exc, _ = harness.odx_encode(msg, values, prog.get("request"))
        if exc is not None:
            part.count("encoder_refuses")
            continue
        part.count("accepted")
        try:
            _, ref_out, _ = L.interp.encode(prog["pid"], values, prog.get("request"))
            have_ref = True
        except (refodx.Reject, refodx.DontCare) as r:
            have_ref = False
            if isinstance(r, refodx.DontCare):
                part.count("dont_care")
                if r.lossy:
                    continue
            else:
                part.count("accepted_though_reference_rejects")
        dec, dexc, consumed, _ = traced_decode(msg, pdu)
        part.add("nontrivial", digest((prog["tags"], pdu.hex())))
        if dexc is not None:
            part.violation(f"C01/{tag}/decode-of-own-encoding-raises", case,
                           f"{show(values)} -> {pdu.hex()} -> {type(dexc).__name__}: {dexc}")
            continue
        ok = harness.same_value(ref_out, dec) if have_ref else compare_supplied(values, dec)
        if not ok:
            part.violation(f"C01/{tag}/roundtrip-differs" + ("" if have_ref else "-unrepresentable-value-accepted"), case,
                           f"{show(values)} -> {pdu.hex()} -> {show(dec)}" + (f" expected {show(ref_out)}" if have_ref else ""))
            continue
        if consumed != len(pdu):
            part.violation(f"C01/{tag}/pdu-not-consumed", case, f"{show(values)} -> {pdu.hex()}: decoder consumed {consumed} of {len(pdu)} bytes")
    # responses through their service: encode_positive_response / encode_negative_response are the response's encode
    if prog.get("kind", "REQUEST") in ("POS-RESPONSE", "NEG-RESPONSE") and prog["assign"]:
        svc = getattr(L.layer.services, "svc_" + prog["pid"], None)
        rq = prog.get("request")
        if svc is not None and rq is not None:
            for values in prog["assign"][:3]:
                pdu, exc, _ = harness.odx_encode(msg, values, rq)
                fn = svc.encode_positive_response if prog["kind"] == "POS-RESPONSE" else svc.encode_negative_response
                try:
                    pdu2 = bytes(fn(bytes(rq), 0, **values))
                    exc2 = None
                except Exception as e2:  # noqa
                    pdu2, exc2 = None, e2
                part.count("via_service_response")
                if (exc is None) != (exc2 is None) or (exc is None and pdu2 != pdu):
                    part.violation(f"C01/{tag}/service-encodes-response-differently", {"program": prog_case(prog), "values": jval(values)},
                                   f"service: {pdu2.hex() if pdu2 is not None else type(exc2).__name__} vs Response.encode: {pdu.hex() if pdu is not None else type(exc).__name__}")
    # the same through the layer: DiagService.encode_request / DiagLayer.decode (first assignment per program)
    if prog.get("kind", "REQUEST") == "REQUEST" and prog["assign"] and prog.get("via_layer", True):
        values = prog["assign"][0]
        svc = getattr(L.layer.services, "svc_" + prog["pid"], None)
        if svc is not None:
            try:
                pdu2 = bytes(svc.encode_request(**values))
            except Exception:
                return
            pdu, exc, _ = harness.odx_encode(msg, values, None)
            part.count("via_layer")
            if exc is None and pdu2 != pdu:
                part.violation(f"C01/{tag}/service-encodes-differently", {"program": prog_case(prog), "values": jval(values)},
                               f"encode_request {pdu2.hex()} vs Request.encode {pdu.hex()}")
            try:  # calling the service is encoding its request
                pdu3 = bytes(svc(**values))
            except Exception:
                pdu3 = None
            if exc is None and pdu3 != pdu:
                part.violation(f"C01/{tag}/service-call-encodes-differently", {"program": prog_case(prog), "values": jval(values)},
                               f"service(...) {None if pdu3 is None else pdu3.hex()} vs Request.encode {pdu.hex()}")
            # DiagLayer.decode of the service's own request (needs a constant prefix for the dispatch)
            if exc is None and prog["params"] and prog["params"][0]["t"] == "CODED-CONST" and prog["tags"][0] == "prog" and \
                    prog["params"][0].get("byte") in (None, 0) and "CNV" not in prog["tags"][1].split("+")[:1]:
                try:
                    _, ref_out, e = L.interp.encode(prog["pid"], values)
                except (refodx.Reject, refodx.DontCare):
                    return
                if e.overlap:
                    return
                import warnings
                with warnings.catch_warnings():
                    warnings.simplefilter("ignore")
                    try:
                        msgs = L.layer.decode(pdu)
                    except Exception as ex:  # noqa
                        part.violation(f"C01/{tag}/layer-decode-of-own-request-raises", {"program": prog_case(prog), "values": jval(values)},
                                       f"{pdu.hex()}: {type(ex).__name__}: {str(ex)[:120]}")
                        return
                mine = [m for m in msgs if m.coding_object is msg]
                part.count("via_layer_decode")
                if not mine:
                    part.violation(f"C01/{tag}/layer-decode-does-not-find-own-request", {"program": prog_case(prog), "values": jval(values)},
                                   f"{pdu.hex()} attributed to {[m.coding_object.short_name for m in msgs]}")
                elif not harness.same_value(ref_out, mine[0].param_dict):
                    part.violation(f"C01/{tag}/layer-decode-differs", {"program": prog_case(prog), "values": jval(values)},
                                   f"{pdu.hex()} -> {show(mine[0].param_dict)} expected {show(ref_out)}")


unit_fn = make_unit_fn(PROPERTY, check_program)


def units_for(ctx: Ctx) -> List[Tuple[str, List[Dict[str, Any]]]]:
    return space.layer_a_units(ctx.quick) + space.layer_b_units(ctx.quick) + space.layer_c_units(ctx.quick)


contextualize = make_contextualize(PROPERTY, lambda quick: units_for(__import__("types").SimpleNamespace(quick=quick)))


def run(ctx: Ctx) -> None:
    units = units_for(ctx)
    ctx.bounds = {"layers": "A (atomic) + C (composition, BFS over parameter sequences)", "units": len(units),
                  "all_values_upto_bits": 8 if ctx.quick else 12, "composition_depth": space.depth_bounds(ctx.quick)}
    ctx.rule = ("every program of the codec space x every value assignment the real encoder accepts; non-trivial = distinct "
                "(program tags, PDU)")
    ctx.assumptions = ["complete(v) is computed by odxmodel/refodx.py; where the reference has no opinion (DontCare) the case is skipped and counted",
                       "RESERVED keys, the representation of MATCHING-REQUEST values are not compared"]
    pmap(ctx, unit_fn, units, isolate=True)
    minimize_keys(ctx)
    ctx.counts["traces_validated_against_impl"] = ctx.counts.get("accepted", 0)
    ctx.sample({"program": "i_Ux_l_12_3_a", "values": {"v": 2748}, "pdu": "e055", "decoded": {"v": 2748}})
    ctx.guard("accepted > 1000", ctx.counts.get("accepted", 0) > 1000)
    ctx.guard("refused > 0 (the alphabets reach beyond the valid domain)", ctx.counts.get("encoder_refuses", 0) > 0)


def replay(case: Any) -> List[Tuple[str, str]]:
    return replay_with(unit_fn, case, PROPERTY)
