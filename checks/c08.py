"""C08 -- static descriptions of a message agree with its actual encoding.

Programs of the codec space x all value assignments x all subsets of supplied settable parameters.
Oracle: a reported static bit length equals the bits every successful encoding occupies; the reported constant
prefix is a prefix of every PDU; required = exactly the parameters whose omission makes encoding fail;
free = exactly the parameters whose value the caller can set.
"""
from __future__ import annotations

import itertools
from typing import Any, Dict, List, Tuple

from checks.codec_common import make_contextualize, make_unit_fn, minimize_keys, prog_case, replay_with, tagkey
from mcx.core import Ctx, Part, digest, pmap
from odxmodel import harness, refodx, space
from odxmodel.harness import jval, show
from checks.c04 import loose_equal as c04_loose_equal

PROPERTY = "C08"
LEVEL = "model_checking"

SETTABLE = ("VALUE", "SYSTEM", "LENGTH-KEY", "TABLE-KEY", "TABLE-STRUCT")


def popcount(b: bytes) -> int:
    return sum(bin(x).count("1") for x in b)


def check_program(L: harness.Loaded, prog: Dict[str, Any], part: Part) -> None:
    msg = L.msg[prog["pid"]]
    tag = tagkey(prog)
    request = prog.get("request")
    base_case = {"program": prog_case(prog), "values": None}
    try:
        static = msg.get_static_bit_length()
    except Exception as ex:  # noqa
        part.violation(f"C08/{tag}/static-length-raises/{type(ex).__name__}", base_case, str(ex)[:150])
        static = None
    try:
        prefix = bytes(msg.coded_const_prefix(request_prefix=request) if request is not None and type(msg).__name__ == "Response"
                       else msg.coded_const_prefix())
    except Exception as ex:  # noqa
        part.violation(f"C08/{tag}/prefix-raises/{type(ex).__name__}", base_case, str(ex)[:150])
        prefix = None
    required = {p.short_name for p in msg.required_parameters}
    free = {p.short_name for p in msg.free_parameters}
    spec_settable = {p["name"] for p in prog["params"] if p["t"] in SETTABLE}
    if free != spec_settable:
        part.violation(f"C08/{tag}/free-parameters-differ", base_case, f"reported free {sorted(free)}, settable by description {sorted(spec_settable)}")
    # the same two accessors on the structures the message uses: they are the parameter-level flags, nothing else
    for p_ in msg.parameters:
        st = getattr(p_, "dop", None)
        if st is not None and hasattr(st, "free_parameters") and hasattr(st, "parameters"):
            part.count("structure_accessor_checks")
            f1 = [q.short_name for q in st.free_parameters]
            f2 = [q.short_name for q in st.parameters if q.is_settable]
            r1 = [q.short_name for q in st.required_parameters]
            r2 = [q.short_name for q in st.parameters if q.is_required]
            if f1 != f2 or r1 != r2:
                part.violation(f"C08/{tag}/structure-accessors-disagree-with-parameter-flags", base_case,
                               f"structure {st.short_name}: free_parameters {f1} vs settable {f2}; required_parameters {r1} vs required {r2}")
    single_simple = len(prog["params"]) == 1 and prog["params"][0]["t"] == "VALUE" and \
        L.interp.dops[prog["params"][0]["dop"]].get("kind", "dop") == "dop" and \
        L.interp.dops[prog["params"][0]["dop"]]["dct"].get("mask") is None  # (masked-out bits belong to the object but are not claimed)
    pstatic = None
    if single_simple:
        try:
            pstatic = msg.parameters[0].get_static_bit_length()
        except Exception:
            pstatic = None
    accepted_full: List[Dict[str, Any]] = []
    for values in prog["assign"]:
        part.count("evaluations")
        case = {"program": prog_case(prog), "values": jval(values)}
        pdu, exc, _ = harness.odx_encode(msg, values, request)
        if exc is not None:
            # a valid assignment (the reference accepts it) that leaves out only parameters reported as NOT required must
            # encode: otherwise one of the omitted parameters is needed although it is not reported as required
            omitted = spec_settable - set(values)
            if omitted and not (omitted & required):
                try:
                    L.interp.encode(prog["pid"], values, request)
                    ref_ok = True
                except (refodx.Reject, refodx.DontCare):
                    ref_ok = False
                except Exception:
                    ref_ok = False
                if ref_ok:
                    part.violation(f"C08/{tag}/not-required-but-needed", case,
                                   f"{show(values)} is valid and omits only {sorted(omitted)} (none reported required), but encoding fails: "
                                   f"{type(exc).__name__}: {str(exc)[:100]}")
            continue
        part.count("accepted")
        part.add("nontrivial", digest((prog["tags"], len(pdu), static)))
        if len(accepted_full) < 2:
            accepted_full.append(values)
        if static is not None and 8 * len(pdu) != static:
            part.violation(f"C08/{tag}/static-length-differs", case, f"static bit length {static}, encoding of {show(values)} has {8 * len(pdu)} bits ({pdu.hex()})")
        if prefix is not None and not pdu.startswith(prefix):
            part.violation(f"C08/{tag}/prefix-is-no-prefix", case, f"coded_const_prefix {prefix.hex()} but PDU {pdu.hex()}")
        if pstatic is not None:
            try:
                _, _, e = L.interp.encode(prog["pid"], values, request)
                claimed = popcount(bytes(e.claim))
                if claimed != pstatic:
                    part.violation(f"C08/{tag}/parameter-static-length-differs", case,
                                   f"parameter reports {pstatic} bits, its encoding occupies {claimed} bits ({pdu.hex()})")
            except (refodx.Reject, refodx.DontCare):
                pass
        # free = the caller can set the value: what was supplied for a free parameter is what the PDU carries
        dec, dexc = harness.odx_decode(msg, pdu)
        if dexc is None and isinstance(dec, dict):
            try:
                L.interp.encode(prog["pid"], values, request)
                representable = True
            except (refodx.Reject, refodx.DontCare):
                representable = False
            if representable:
                for k, v in values.items():
                    if k in free and k in dec and not c04_loose_equal(v, dec[k]):
                        part.violation(f"C08/{tag}/free-parameter-value-not-honoured", case,
                                       f"{k}={show(v)} supplied, the PDU {pdu.hex()} carries {show(dec[k])}")
        for v in values:
            if v not in free:
                part.violation(f"C08/{tag}/settable-but-not-free", case, f"value for {v!r} accepted although it is not reported as free")
    # responses: the prefix and the static length must hold for EVERY triggering request, also when the same Response object
    # is asked again with another request of the same length, and for requests that end inside an echoed range
    if request is not None and type(msg).__name__ == "Response" and accepted_full:
        values = accepted_full[0]
        alt = bytes((b + 0x11) & 0xFF for b in request)
        variants = [request, alt, request] + [request[:n] for n in range(len(request))]
        for rq in variants:
            part.count("evaluations")
            case = {"program": dict(prog_case(prog), request=jval(rq)), "values": jval(values)}
            try:
                pre = bytes(msg.coded_const_prefix(request_prefix=rq))
            except Exception as ex:  # noqa
                part.violation(f"C08/{tag}/prefix-raises/{type(ex).__name__}", case, str(ex)[:150])
                continue
            pdu, exc, _ = harness.odx_encode(msg, values, rq)
            if exc is not None:
                continue
            part.count("response_request_variants")
            if not pdu.startswith(pre):
                part.violation(f"C08/{tag}/prefix-is-no-prefix/other-request", case, f"request {rq.hex()}: coded_const_prefix {pre.hex()} but PDU {pdu.hex()}")
            if static is not None and 8 * len(pdu) != static:
                part.violation(f"C08/{tag}/static-length-differs/other-request", case,
                               f"request {rq.hex()}: static bit length {static}, encoding has {8 * len(pdu)} bits ({pdu.hex()})")
    # required = exactly those whose omission makes encoding fail (all subsets of the supplied parameters)
    for values in accepted_full[:1]:
        keys = sorted(values)
        if len(keys) > 4:
            keys = keys[:4]
        for r in range(0, len(keys) + 1):
            for omit in itertools.combinations(keys, r):
                sub = {k: v for k, v in values.items() if k not in omit}
                part.count("evaluations")
                part.count("subset_encodings")
                pdu, exc, _ = harness.odx_encode(msg, sub, request)
                must_fail = bool(set(omit) & required)
                case = {"program": prog_case(prog), "values": jval(values)}  # (the full assignment: the replay enumerates its subsets again)
                if exc is None and must_fail:
                    part.violation(f"C08/{tag}/required-but-omittable", case, f"omitting {sorted(set(omit) & required)} (reported required) still encodes to {pdu.hex()}")
                elif exc is not None and not must_fail:
                    # may fail for a legitimate other reason: a table key / length key is needed by its dependant only
                    # if the dependant is omitted too; so only flag when every omitted name is a plain optional VALUE
                    kinds = {p["name"]: p["t"] for p in prog["params"]}
                    if all(kinds.get(o) in ("VALUE", "SYSTEM") for o in omit) and omit:
                        part.violation(f"C08/{tag}/optional-but-needed", case,
                                       f"omitting {list(omit)} (none reported required) fails: {type(exc).__name__}: {str(exc)[:100]}")
        missing_required = required - set(values)
        if missing_required:
            part.violation(f"C08/{tag}/required-but-not-supplied", {"program": prog_case(prog), "values": jval(values)},
                           f"{sorted(missing_required)} reported required but the encoding succeeded without them")


unit_fn = make_unit_fn(PROPERTY, check_program)


def units_for(quick: bool) -> List[Any]:
    return space.layer_a_units(True) + space.layer_c_units(quick)


contextualize = make_contextualize(PROPERTY, units_for)


def run(ctx: Ctx) -> None:
    units = units_for(ctx.quick)
    ctx.bounds = {"layers": "A (quick alphabet) + C", "units": len(units), "subsets": "all subsets of <= 4 supplied parameters"}
    ctx.rule = "program x value assignment x subset of supplied parameters; non-trivial = distinct (program tags, PDU length, static length)"
    ctx.assumptions = ["object-level static lengths are measured on single-parameter programs (claimed bits for simple DOPs, PDU bytes otherwise)",
                       "settable by description = VALUE, SYSTEM, LENGTH-KEY, TABLE-KEY, TABLE-STRUCT parameters"]
    pmap(ctx, unit_fn, units, isolate=True)
    minimize_keys(ctx)
    ctx.counts["traces_validated_against_impl"] = ctx.counts.get("accepted", 0) + ctx.counts.get("subset_encodings", 0)
    ctx.sample({"program": "q_CC8a_V8a", "static_bits": 16, "prefix": "22", "required": ["v1"], "free": ["v1"]})
    ctx.guard("accepted > 1000", ctx.counts.get("accepted", 0) > 1000)
    ctx.guard("subset encodings > 1000", ctx.counts.get("subset_encodings", 0) > 1000)


def replay(case: Any) -> List[Tuple[str, str]]:
    return replay_with(unit_fn, case, PROPERTY)
