"""C04 -- the encoder never silently emits a PDU that misrepresents its input; rejections use the library's
own error type.

Programs of the codec space x value alphabets extended with out-of-range numbers (ALL of [-2^n, 2^(n+1)] for
small n, boundary +-1 up to 64 bit, 2^64), wrongly typed values, over/under-long strings and byte fields,
missing and unknown parameters, wrong item counts, unknown rows/cases/DTCs, conflicting keys.
Oracle: the call raises an odxtools.exceptions.OdxError subclass, or it returns a PDU that decodes back to
the requested values.  Both bit-packing backends.
"""
from __future__ import annotations

import os
import struct
from typing import Any, Dict, Iterator, List, Tuple

from checks.codec_common import (make_contextualize, make_unit_fn, minimize_keys, other_backend, prog_case, replay_with, tagkey, backend)
from mcx.core import Ctx, Part, digest, pmap
from odxmodel import harness, refodx, space
from odxmodel.harness import jval, show

PROPERTY = "C04"
LEVEL = "model_checking"

WRONG = [None, 1.5, "1", b"\x01", [], {}, (None, None), True, 1 << 64, -1, float("inf"), float("-inf"), float("nan")]


_TOL = [False]


def loose_equal(want: Any, got: Any) -> bool:
    """'decodes back to the requested values': numeric equality (True == 1 == 1.0), bytes-likes by content,
    DTCs by code or short name, tuples/lists/dicts structurally."""
    if isinstance(want, dict):
        return isinstance(got, dict) and all(k in got and loose_equal(v, got[k]) for k, v in want.items())
    if isinstance(want, tuple) and len(want) == 2 and isinstance(want[0], int) and not isinstance(want[0], bool) and \
            isinstance(got, (list, tuple)) and len(got) == 2 and isinstance(got[0], str):
        return loose_equal(want[1], got[1])  # MUX value given by key: the decoder reports the case name
    if isinstance(want, (list, tuple)):
        return isinstance(got, (list, tuple)) and len(want) == len(got) and all(loose_equal(a, b) for a, b in zip(want, got))
    if hasattr(got, "trouble_code"):
        return want in (got.trouble_code, getattr(got, "short_name", None)) or getattr(want, "trouble_code", None) == got.trouble_code
    if isinstance(want, (bytes, bytearray)) or isinstance(got, (bytes, bytearray)):
        return isinstance(want, (bytes, bytearray)) and isinstance(got, (bytes, bytearray)) and bytes(want) == bytes(got)
    if isinstance(want, (int, float)) and isinstance(got, (int, float)):
        if want == got or (want != want and got != got):  # (NaN decodes back as NaN)
            return True
        if _TOL[0] and abs(want - got) <= 1e-9 * max(1.0, abs(want)):
            return True  # through a compu method: the image of the image differs by floating point rounding only
        if isinstance(want, float) or isinstance(got, float):
            try:  # A_FLOAT32 carries 24 significant bits: rounding to the nearest representable value is no misrepresentation
                return struct.unpack(">f", struct.pack(">f", want))[0] == got
            except (OverflowError, struct.error):
                return False
        return False
    return type(want) is type(got) and want == got


def perturbations(values: Dict[str, Any], params: List[Dict[str, Any]], request: Any = None) -> Iterator[Tuple[str, Dict[str, Any]]]:
    """single-fault neighbours of a valid assignment (deviation bound 1)"""
    for k in values:
        d = dict(values)
        del d[k]
        yield f"omit", d
    yield "unknown-param", dict(values, zz_unknown=1)
    for k, v in values.items():
        for w in WRONG:
            if w is None or type(w) is type(v) and not isinstance(v, (int, bool)) and not (isinstance(w, float) and (w != w or w in (float("inf"), float("-inf")))):
                continue
            if isinstance(v, int) and not isinstance(v, bool) and isinstance(w, int) and not isinstance(w, bool) and w in (1 << 64, -1):
                yield "out-of-range", dict(values, **{k: w})
                continue
            yield f"wrong-type", dict(values, **{k: w})
        # structural neighbours
        if isinstance(v, list):
            yield "item-count+1", dict(values, **{k: v + [v[0]] if v else [{"a": 1, "b": 2}]})
            if v:
                yield "item-count-1", dict(values, **{k: v[:-1]})
                yield "item-wrong-type", dict(values, **{k: [1] + v[1:]})
                yield "item-missing-member", dict(values, **{k: [{}] + v[1:]})
        if isinstance(v, tuple) and len(v) == 2:
            yield "unknown-case-or-row", dict(values, **{k: ("nonexistent", v[1])})
            yield "case-none", dict(values, **{k: (None, v[1])})
            if v[1] not in ({}, None):  # a case/row without content has nothing to misrepresent
                yield "content-wrong-type", dict(values, **{k: (v[0], 17.5)})
                yield "content-missing", dict(values, **{k: (v[0], {})})
        if isinstance(v, dict):
            for kk in v:
                d2 = dict(v)
                del d2[kk]
                yield "member-missing", dict(values, **{k: d2})
            if not k.startswith("env"):  # odxtools deliberately tolerates unknown members for environment data
                yield "member-unknown", dict(values, **{k: dict(v, zz=1)})
            for kk, vv in v.items():
                if isinstance(vv, int):
                    yield "member-out-of-range", dict(values, **{k: dict(v, **{kk: 1 << 40})})
                    yield "member-negative", dict(values, **{k: dict(v, **{kk: -1})})
        if isinstance(v, (bytes, str)):
            yield "longer", dict(values, **{k: v + v[:1] if v else (b"\x00\x00\x00\x00" if isinstance(v, bytes) else "AAAA")})
            if v:
                yield "shorter", dict(values, **{k: v[:-1]})
        if isinstance(v, int) and not isinstance(v, bool):
            yield "dtc-or-text-unknown", dict(values, **{k: "nonexistent"})
    for p in params:
        if p["t"] in ("CODED-CONST", "PHYS-CONST", "MATCHING-REQUEST-PARAM", "NRC-CONST") and p["name"] not in values:
            # (RESERVED is not in the list: decode reports its bits, so re-encoding a decoded dictionary must stay possible)
            yield "set-constant", dict(values, **{p["name"]: 99})
            yield "set-constant-falsy", dict(values, **{p["name"]: 0})
        if p["t"] == "MATCHING-REQUEST-PARAM" and p["name"] not in values and request is not None and len(request) >= p["rq_byte"] + p["len"]:
            echo = request[p["rq_byte"]:p["rq_byte"] + p["len"]]
            # the value the decoder reports for the echoed bytes must be accepted, its byte-swapped reading must not be
            # mistaken for it (the round trip decides)
            yield "set-echo-as-decoded", dict(values, **{p["name"]: int.from_bytes(echo, "little")})
            if int.from_bytes(echo, "big") != int.from_bytes(echo, "little"):
                yield "set-echo-byte-swapped", dict(values, **{p["name"]: int.from_bytes(echo, "big")})
        if p["t"] == "LENGTH-KEY" and p["name"] not in values:
            yield "conflicting-length-key", dict(values, **{p["name"]: 64})
        if p["t"] == "TABLE-KEY" and p["name"] not in values:
            yield "conflicting-table-key", dict(values, **{p["name"]: "r1"})
            yield "conflicting-table-key", dict(values, **{p["name"]: "r3"})


def assignments(prog: Dict[str, Any]) -> Iterator[Tuple[str, Dict[str, Any]]]:
    if prog["tags"][0] == "prog":
        seen = set()
        single = len(prog["tags"][1].split("+")) == 1
        for ai, a in enumerate(prog["assign"]):  # every valid assignment; single-fault neighbours of the first two
            yield "valid", a                     # (of all of them for single-template programs)
            if ai >= 2 and not single:
                continue
            for kind, d in perturbations(a, prog["params"], prog.get("request")):
                key = repr(sorted(d.items(), key=lambda kv: kv[0]))
                if key not in seen:
                    seen.add(key)
                    yield kind, d
    else:
        for a in prog["assign"]:
            yield "alphabet", a
        if prog["assign"]:
            a = prog["assign"][0]
            for w in WRONG:
                yield "wrong-type", dict(a, v=w)
            yield "omit", {k: v for k, v in a.items() if k != "v"}
            yield "unknown-param", dict(a, zz_unknown=1)


def check_program(L: harness.Loaded, prog: Dict[str, Any], part: Part) -> None:
    from odxtools.exceptions import OdxError
    msg = L.msg[prog["pid"]]
    tag = tagkey(prog)
    bk = backend()
    _TOL[0] = prog["tags"][0] == "compu"
    for kind, values in assignments(prog):
        part.count("evaluations")
        case = {"program": prog_case(prog), "values": jval(values), "backend": bk}
        pdu, exc, _ = harness.odx_encode(msg, values, prog.get("request"))
        if exc is not None:
            if isinstance(exc, OdxError):
                part.count("rejected_with_library_error")
                part.add("nontrivial", digest((tag, kind, "rejected", type(exc).__name__)))
            else:
                part.violation(f"C04/{tag}/foreign-exception/{type(exc).__name__}/{bk}", case,
                               f"{kind}: {show(values)} -> {type(exc).__name__}: {str(exc)[:160]}")
            continue
        part.count("accepted")
        part.add("nontrivial", digest((tag, kind, "accepted")))
        # what must come back: the reference's complete(v) if it accepts, else the supplied values
        lossy = False
        try:
            _, _, ref_e = L.interp.encode(prog["pid"], values, prog.get("request"))
            lossy = bool(ref_e.overlap)  # a bit claimed twice: what comes back for the overwritten parameter is undefined
        except refodx.DontCare as dc:
            lossy = dc.lossy
        except refodx.Reject:
            # BIT-MASK types AND away what is outside the mask (standard-mandated): no expectation for invalid values
            lossy = prog["tags"][0].startswith("mask")
        except Exception:
            pass
        if lossy:
            part.count("dont_care")
            continue
        dec, dexc = harness.odx_decode(msg, pdu)
        if dexc is not None and "NRC-CONST parameter" in str(dexc):
            # the encoder does not verify that the value overlapping an NRC-CONST is one of its coded values
            part.violation(f"C04/{tag}/nrc-const-not-verified-by-encoder/{bk}", case,
                           f"{kind}: {show(values)} -> {pdu.hex()} -> {type(dexc).__name__}: {str(dexc)[:120]}")
        elif dexc is not None:
            part.violation(f"C04/{tag}/accepted-but-undecodable/{bk}", case,
                           f"{kind}: {show(values)} -> {pdu.hex()} -> {type(dexc).__name__}: {str(dexc)[:120]}")
        elif not loose_equal({k: (({kk: vv for kk, vv in v.items() if isinstance(dec, dict) and isinstance(dec.get(k), dict) and kk in dec[k]})
                                  if k.startswith("env") and isinstance(v, dict) else v) for k, v in values.items()}, dec):
            # (environment data: odxtools deliberately ignores members of env-data blocks that do not apply to the DTC)
            part.violation(f"C04/{tag}/silent-misrepresentation/{bk}", case, f"{kind}: {show(values)} -> {pdu.hex()} -> {show(dec)}")


unit_fn = make_unit_fn(PROPERTY, check_program)


def units_for(ctx: Ctx) -> List[Tuple[str, List[Dict[str, Any]]]]:
    u = space.layer_a_int_units(ctx.quick, wide=True)
    u += space.layer_a_mask_units(ctx.quick) + space.layer_a_float_units(ctx.quick, wide=True) + space.layer_a_string_units(ctx.quick, wide=True)
    u += space.layer_a_minmax_units(ctx.quick) + space.layer_a_lead_units(ctx.quick, wide=True) + space.layer_a_plen_units(ctx.quick)
    u += space.layer_b_units(ctx.quick)
    progs = [p for p in space.layer_c_programs(ctx.quick) if len(p["tags"][1].split("+")) <= 3]
    if ctx.quick:  # depth 3 in the quick tier: only the programs with explicit far/zero positions and the responses
        progs = [p for p in progs if len(p["tags"][1].split("+")) <= 2 or p.get("kind", "REQUEST") != "REQUEST" or set(p["tags"][2].split(":")[1]) & {"f", "z"}]
    chunk = 150
    u += [(f"C/{c // chunk}", progs[c:c + chunk]) for c in range(0, len(progs), chunk)]
    return u


contextualize = make_contextualize(PROPERTY, lambda quick: units_for(__import__("types").SimpleNamespace(quick=quick)))


def run(ctx: Ctx) -> None:
    units = units_for(ctx)
    ctx.bounds = {"layer_A": "all values of [-2^n, 2^(n+1)] for n <= %d, boundary sets up to 64 bit, wrong types" % (8 if ctx.quick else 12),
                  "layer_C": "programs of depth <= 3 (quick: depth 3 only with far/zero positions, and responses), valid assignments + all single-fault neighbours (deviation bound 1)", "units": len(units),
                  "backend": backend()}
    ctx.rule = "program x (valid or invalid) value assignment; non-trivial = distinct (construct, perturbation kind, outcome class)"
    ctx.assumptions = ["out-of-mask values of BIT-MASK types and integer-keyed MUX values are outside the envelope",
                       "numeric equality is used for 'decodes back to the requested values' (True == 1, 3.0 == 3)"]
    pmap(ctx, unit_fn, units, isolate=True)
    ctx.counts["traces_validated_against_impl"] = ctx.counts.get("evaluations", 0)
    ctx.sample({"program": "i_I2C_h_8_0_a", "values": {"v": 200}, "outcome": "EncodeError"})
    ctx.guard("accepted > 1000", ctx.counts.get("accepted", 0) > 1000)
    ctx.guard("rejected > 1000", ctx.counts.get("rejected_with_library_error", 0) > 1000)
    if backend() == "c" and not os.environ.get("VERIF_NO_SECOND_BACKEND"):
        other_backend(ctx, PROPERTY)
    minimize_keys(ctx)


def replay(case: Any) -> List[Tuple[str, str]]:
    return replay_with(unit_fn, case, PROPERTY)
