"""C07 -- compu methods compute the mathematically specified conversion (and the compu inverse law of C03).

Exhaustive enumeration of compu-method configurations (8 categories x internal/physical type pairs x
coefficient, limit and interval-type menus, 1..4 scales) x values (every value of the 8-bit internal domains,
boundary sets for 16-bit and float domains; physical candidates = images +- {0, 1/2, 1}, every limit image and
type probes).  Every configuration is emitted as a DATA-OBJECT-PROP of a minimal BASE-VARIANT, loaded by the
real loader, and `dop.compu_method.{is_valid_internal_value, convert_internal_to_physical,
is_valid_physical_value, convert_physical_to_internal}` are compared with odxmodel.refcompu (exact rational
arithmetic, three-valued).

Oracle (what the property states, nothing more):
  V-int   is_valid_internal_value(x)  <=>  admissible type and inside the declared scale limits (OPEN/CLOSED/INFINITE)
  I2P     a value declared valid converts without raising, and to the exact formula (integers: nearest, ties free)
  V-phys  the image of a valid internal value under a monotone continuous piecewise-linear method (or inside the
          declared inverse of a rational method, or a unique table text) is declared valid; values outside the
          physical range are not
  P2I     a physical value declared valid converts without raising, and to the exact inverse formula
  RT      injective methods: p2i(i2p(x)) == x (no exact tie involved)
"""
from __future__ import annotations

import itertools
import math
from fractions import Fraction as F
from typing import Any, Dict, Iterable, List, Optional, Tuple

from mcx.core import Ctx, Part, digest, pmap
from odxmodel import refcompu as R
from odxmodel.emit_compu import base_type, dop_spec, load_compu_db

PROPERTY = "C07"
LEVEL = "exploration"

Method = Tuple[str, str, Dict[str, Any]]  # (internal type key, physical ODX type, cm spec)


# ---------------------------------------------------------------------------------------------
# value alphabets
# ---------------------------------------------------------------------------------------------
def L(v: Any, t: Optional[str] = None) -> Dict[str, Any]:
    return {"v": v, "type": t}


U16_SET = [0, 1, 2, 9, 10, 11, 99, 100, 101, 127, 128, 255, 256, 999, 1000, 1001, 32767, 32768, 39999, 40000, 40001, 65534, 65535]
B53, B63, B64 = 2**53, 2**63, 2**64
U64_SET = [0, 1, 2, 255, B53 - 2, B53 - 1, B53, B53 + 1, B53 + 2, B53 + 3, 2 * B53, 2 * B53 + 1, 2 * B53 + 2, B63 - 1, B63, B63 + 1, B64 - 3, B64 - 2, B64 - 1]
I64_SET = [0, 1, -1, 2, -2, 127, -128, B53 - 1, B53, B53 + 1, B53 + 2, -B53 + 1, -B53, -B53 - 1, -B53 - 2, B63 - 3, B63 - 2, B63 - 1, -B63, -B63 + 1, -B63 + 2]
F32_SET = [0.0, 0.5, -0.5, 1.0, -1.0, 1.5, 2.0, 3.0, 7.25, 9.5, 10.0, 10.5, 11.0, 99.5, 100.0, 100.5, 199.5, 200.0, 200.25, 200.5,
           255.0, 1000.0, 1000.5, -10.0, -10.5, -11.0, -128.0, 1e6, -1e6, 0.1]


def cm_numbers(cm: Dict[str, Any]) -> List[Any]:
    """every limit value mentioned by the internal-to-physical scales"""
    out = []
    for s in cm.get("i2p") or []:
        for l in (s.get("lo"), s.get("hi")):
            v = l.get("v") if isinstance(l, dict) else l
            if isinstance(v, (int, float)) and not isinstance(v, bool):
                out.append(v)
        if isinstance(s.get("inv"), (int, float)):
            out.append(s["inv"])
    return out


def internal_values(it: str, cm: Dict[str, Any]) -> List[Any]:
    typ = base_type(it)
    if it == "u8":
        vals: List[Any] = list(range(256))
    elif it == "i8":
        vals = list(range(-128, 128))
    elif it == "u16":
        s = set(U16_SET)
        for v in cm_numbers(cm):
            s.update(x for x in (int(v) - 1, int(v), int(v) + 1) if 0 <= x <= 65535)
        vals = sorted(s)
    elif it in ("u64", "i64"):
        lo64, hi64 = (0, 2**64 - 1) if it == "u64" else (-2**63, 2**63 - 1)
        s3 = set(U64_SET if it == "u64" else I64_SET)
        for v in cm_numbers(cm):
            s3.update((int(v) - 2, int(v) - 1, int(v), int(v) + 1, int(v) + 2))
        vals = sorted(x for x in s3 if lo64 <= x <= hi64)
    elif typ in R.FLOAT_TYPES:
        s2 = set(F32_SET)
        for v in cm_numbers(cm):
            s2.update((float(v) - 1, float(v) - 0.5, float(v), float(v) + 0.5, float(v) + 1))
        vals = sorted(s2)
    elif typ in R.STR_TYPES:
        vals = ["", "a", "ab", "ßé"]
    else:
        vals = [b"", b"\x00\x01", bytearray(b"\xff")]
    # type probes
    if typ in R.INT_TYPES:
        vals += ["5", 5.5, 12.0]
    elif typ in R.FLOAT_TYPES:
        vals += ["5.0", 12]
    elif typ in R.STR_TYPES:
        vals += [5, b"ab"]
    else:
        vals += ["0001", 5]
    return vals


def enc(v: Any) -> Any:
    if isinstance(v, (bytes, bytearray)):
        return {"hex": bytes(v).hex(), "ba": isinstance(v, bytearray)}
    return v


def dec(v: Any) -> Any:
    if isinstance(v, dict) and "hex" in v:
        b = bytes.fromhex(v["hex"])
        return bytearray(b) if v.get("ba") else b
    return v


def vkey(v: Any) -> Any:
    return (type(v).__name__, bytes(v) if isinstance(v, bytearray) else v)


# ---------------------------------------------------------------------------------------------
# configuration menus
# ---------------------------------------------------------------------------------------------
PT_INT = ("A_UINT32", "A_INT32")
LIMVALS = {"u8": (10, 200), "i8": (-100, 100), "u16": (10, 40000), "f32": (10, 200)}


def limit_menu(it: str) -> List[Tuple[str, Any, Any]]:
    a, b = LIMVALS[it]
    m = [("none", None, None),
         ("closed", L(a, "CLOSED"), L(b, "CLOSED")),
         ("open", L(a, "OPEN"), L(b, "OPEN")),
         ("closed-inf", L(a, "CLOSED"), L(None, "INFINITE")),
         ("open-default", L(a, "OPEN"), b),
         ("infv-open", L(a, "INFINITE"), L(b, "OPEN"))]
    if it == "f32":
        m.append(("frac", L(-10.5, "OPEN"), L(200.25, "CLOSED")))
    return m


def zero_limit_menu(it: str) -> List[Tuple[str, Any, Any]]:
    """limits whose VALUE is 0 / 0.0 (a value tested for truthiness instead of `is not None` would be lost) and negative limits"""
    a, b = LIMVALS[it]
    z: Any = 0.0 if it in ("f32", "f64") else 0
    m = [("zero-open", L(z, "OPEN"), L(b, "CLOSED")), ("zero-closed", L(z, "CLOSED"), L(b, "OPEN"))]
    if it in ("i8", "f32", "f64"):
        neg = -100 if it == "i8" else -10.5
        m += [("neg-to-zero-open", L(neg, "CLOSED"), L(z, "OPEN")), ("neg-open-to-zero", L(neg, "OPEN"), z)]
    return m


def with_limits(s: Dict[str, Any], lo: Any, hi: Any) -> Dict[str, Any]:
    s = dict(s)
    if lo is not None:
        s["lo"] = lo
    if hi is not None:
        s["hi"] = hi
    return s


def is_float_type(pt: str) -> bool:
    return pt in R.FLOAT_TYPES


def gen_identical(quick: bool) -> List[Method]:
    I = {"cat": "IDENTICAL"}
    return [("u8", "A_UINT32", I), ("i8", "A_INT32", I), ("u16", "A_UINT32", I), ("u64", "A_UINT32", I), ("i64", "A_INT32", I), ("f32", "A_FLOAT32", I), ("f64", "A_FLOAT64", I),
            ("ascii", "A_UNICODE2STRING", I), ("utf8", "A_UNICODE2STRING", I), ("ucs2", "A_UNICODE2STRING", I),
            ("ascii", "A_ASCIISTRING", I), ("ucs2", "A_UTF8STRING", I), ("bytes", "A_BYTEFIELD", I)]


def gen_linear(quick: bool) -> List[Method]:
    out: List[Method] = []
    its = ("u8", "i8", "f32") if quick else ("u8", "i8", "f32", "u16")
    for it in its:
        for pt in ("A_UINT32", "A_INT32", "A_FLOAT32"):
            fl = is_float_type(pt)
            offsets = (-3, 0, 1) + ((2.5,) if fl else ())
            factors = (-2, -1, 0, 1, 3) + ((-0.5, 0.5) if fl else ())
            dens = (1, 4) if quick else (1, 2, 4)
            a, _ = LIMVALS[it]
            invs = (a + 5, 0) + ((-7,) if it in ("i8", "f32") else ())
            for o, f, d in itertools.product(offsets, factors, dens):
                lims = limit_menu(it) + (zero_limit_menu(it) if (d == 1 or not quick) else [])
                for lname, lo, hi in lims:
                    base = with_limits({"num": [o, f], "den": [d]}, lo, hi)
                    out.append((it, pt, {"cat": "LINEAR", "i2p": [base]}))
                    if f == 0:
                        for inv in (invs if lname in ("none", "closed", "open", "zero-open", "neg-to-zero-open") else invs[:1]):
                            out.append((it, pt, {"cat": "LINEAR", "i2p": [dict(base, inv=inv)]}))
            # negative denominator
            for o, f in itertools.product(offsets, factors):
                for lname, lo, hi in limit_menu(it)[:3] + zero_limit_menu(it)[:1]:
                    out.append((it, pt, {"cat": "LINEAR", "i2p": [with_limits({"num": [o, f], "den": [-2]}, lo, hi)]}))
            # COMPU-DENOMINATOR omitted (= 1), and a single numerator (constant function)
            for lname, lo, hi in limit_menu(it)[:3]:
                out.append((it, pt, {"cat": "LINEAR", "i2p": [with_limits({"num": [1, 3]}, lo, hi)]}))
                out.append((it, pt, {"cat": "LINEAR", "i2p": [with_limits({"num": [7], "den": [1], "inv": a + 5}, lo, hi)]}))
    # denominators whose division is inexact in binary, real-valued physical type: the image of an internal value exactly AT a
    # limit must be a valid physical value and convert back
    for it in its:
        for pt in ("A_FLOAT32", "A_FLOAT64"):
            offs = (0, 1) if quick else (-3, 0, 1, 2.5)
            facs = (-2, 1, 3) if quick else (-2, -1, 1, 3, 0.5)
            lims = limit_menu(it) + zero_limit_menu(it)
            if quick:
                lims = [l for l in lims if l[0] in ("closed", "open", "closed-inf", "zero-closed")]
            for o, f, d in itertools.product(offs, facs, (3, 7, 100, -3)):
                if quick and d == -3 and (o, f) != (0, 1):
                    continue
                if pt == "A_FLOAT64" and o != 0:
                    continue
                for lname, lo, hi in lims:
                    out.append((it, pt, {"cat": "LINEAR", "i2p": [with_limits({"num": [o, f], "den": [d]}, lo, hi)]}))
    # denominators / factors of large and tiny magnitude (slope 1e-12, 1e12, and 1 written as 1e12/1e12), real-valued physical
    # type: the inverse law on the images of valid internal values decides
    BIG = 10**12
    for it in its:
        for pt in ("A_FLOAT32", "A_FLOAT64"):
            for num, den in (([0, 1], [BIG]), ([3, -1], [BIG]), ([0, 1], [1e-12]), ([0.5, -2], [1e-12]), ([0, BIG], [1]), ([1, -BIG], [4]),
                             ([0, BIG], [BIG]), ([0, 3.0e12], [1.0e12]), ([0, 1], [-BIG])):
                for lname, lo, hi in limit_menu(it)[:4] + zero_limit_menu(it)[1:2]:
                    out.append((it, pt, {"cat": "LINEAR", "i2p": [with_limits({"num": num, "den": den}, lo, hi)]}))
    # 64-bit internal types: limits and values around 2^53, 2^63 and 2^64 (integer comparison must be exact)
    wide = {"u64": [(B53, B64 - 1), (10, B53), (B53 + 1, 2 * B53 + 1), (B63, B64 - 2)],
            "i64": [(-B53, B63 - 1), (-B63, B53), (-B53 - 1, B53 + 1), (-B63 + 1, -B53)]}
    for it, ranges in wide.items():
        for pt in ("A_UINT32", "A_INT32", "A_FLOAT64"):
            for a64, b64 in ranges:
                for lo, hi in ((L(a64, "CLOSED"), L(b64, "CLOSED")), (L(a64, "OPEN"), L(b64, "OPEN")), (L(a64, "OPEN"), b64), (a64, L(b64, "OPEN"))):
                    for num, den in (([0, 1], [1]), ([0, -1], [1]), ([3, 2], [2])):
                        out.append((it, pt, {"cat": "LINEAR", "i2p": [{"num": num, "den": den, "lo": lo, "hi": hi}]}))
    # tiny but exact coefficients: 2^-40 x / 2^-40 is the identity whatever the magnitude of the factor
    t40 = 2.0 ** -40
    out.append(("u8", "A_FLOAT64", {"cat": "LINEAR", "i2p": [{"num": [0, t40], "den": [t40]}]}))
    out.append(("i8", "A_FLOAT32", {"cat": "LINEAR", "i2p": [{"num": [0, t40], "den": [t40]}]}))
    out.append(("u8", "A_FLOAT64", {"cat": "LINEAR", "i2p": [{"num": [t40, -3 * t40], "den": [t40 / 2]}]}))
    if not quick:
        out.append(("f64", "A_FLOAT64", {"cat": "LINEAR", "i2p": [{"num": [2.5, -0.5], "den": [4], "lo": L(-1.5, "OPEN"), "hi": L(99.75, "CLOSED")}]}))
        out.append(("u8", "A_FLOAT64", {"cat": "LINEAR", "i2p": [{"num": [2.5, -0.5], "den": [4], "lo": L(10, "OPEN"), "hi": L(200, "CLOSED")}]}))
    return out


BREAKS = {"u8": [0, 50, 100, 180, 255], "i8": [-128, -50, 0, 60, 127], "u16": [0, 100, 1000, 40000, 65535],
          "f32": [-10.0, 0.0, 10.5, 100.0, 1000.0], "f32i": [-10, 0, 10, 100, 1000]}


def scale_linear_cm(bk: List[Any], slopes: Tuple[F, ...], jump: int, style: str, with_inv: bool) -> Optional[Dict[str, Any]]:
    """n adjacent scales on the breakpoints; offsets chained so that the function is continuous (+ jump)."""
    n = len(slopes)
    scales = []
    y = F(5)
    for k, s in enumerate(slopes):
        x0, x1 = bk[k], bk[k + 1]
        X0 = F(x0)
        # f(x) = y + s (x - x0) = (y - s x0) + s x
        den = s.denominator
        n0, n1 = (y - s * X0) * den, s * den
        if n0.denominator != 1:
            # fractional offset: only expressible with float coefficients
            n0f: Any = float(n0)
        else:
            n0f = int(n0)
        sc: Dict[str, Any] = {"num": [n0f, int(n1)], "den": [den]}
        first, last = k == 0, k == n - 1
        if style == "co":  # [a,b) ... [y,z]
            sc["lo"], sc["hi"] = L(x0, "CLOSED"), L(x1, "CLOSED" if last else "OPEN")
        elif style == "cc":
            sc["lo"], sc["hi"] = L(x0, "CLOSED"), L(x1, "CLOSED")
        elif style == "oc":  # [a,b] (b,c] ...
            sc["lo"], sc["hi"] = L(x0, "CLOSED" if first else "OPEN"), x1
        elif style == "inf":
            sc["lo"] = L(None, "INFINITE") if first else L(x0, "CLOSED")
            sc["hi"] = L(None, "INFINITE") if last else L(x1, "OPEN")
        if s == 0 and with_inv:
            sc["inv"] = x0 if not isinstance(x0, float) or x0 == int(x0) else x0
        scales.append(sc)
        y = y + s * (F(x1) - X0) + jump
    return {"cat": "SCALE-LINEAR", "i2p": scales}


def coeffs_ok_for(pt: str, cm: Dict[str, Any]) -> bool:
    """odxtools parses coefficients with the range type: fractional literals only for float physical types"""
    if is_float_type(pt):
        return True
    for s in (cm.get("i2p") or []) + (cm.get("p2i") or []):
        for c in list(s.get("num") or []) + list(s.get("den") or []):
            if isinstance(c, float) and c != int(c):
                return False
    return True


def gen_scale_linear(quick: bool) -> List[Method]:
    H = F(1, 2)
    S1 = (F(-2), F(-1), F(0), F(1), F(3), H)
    seqs: List[Tuple[F, ...]] = [(s,) for s in S1]
    seqs += list(itertools.product(S1, repeat=2))
    S3 = (F(-1), F(0), F(1), F(3))
    seqs += list(itertools.product(S3, repeat=3)) if not quick else list(itertools.product((F(-1), F(0), F(2)), repeat=3))
    S4 = (F(-1), F(0), F(2))
    seqs += list(itertools.product(S4, repeat=4)) if not quick else [(F(1), F(0), F(2), F(1)), (F(-1), F(-2), F(0), F(-1)), (F(1), F(-1), F(1), F(-1))]
    pairs = [("u8", "A_INT32"), ("u8", "A_FLOAT32"), ("i8", "A_INT32"), ("f32", "A_FLOAT32"), ("f32", "A_INT32")]
    if not quick:
        pairs += [("u8", "A_UINT32"), ("u16", "A_INT32"), ("i8", "A_FLOAT64")]
    styles = ("co", "cc") if quick else ("co", "cc", "oc", "inf")
    out: List[Method] = []
    for it, pt in pairs:
        bk = BREAKS["f32i" if (it == "f32" and not is_float_type(pt)) else it]
        for slopes in seqs:
            n = len(slopes)
            for jump in ((0,) if n == 1 else (0, 7)):
                for style in styles:
                    inv_modes = (True, False) if (0 in slopes and style == "co" and jump == 0) else (True,)
                    for with_inv in inv_modes:
                        cm = scale_linear_cm(bk, slopes, jump, style, with_inv)
                        if cm is not None and coeffs_ok_for(pt, cm):
                            out.append((it, pt, cm))
    # the same functions written with negated numerators and a negative denominator
    # (every non-empty subset of the scales negated for n <= 3 -- the sign of a slope is the sign of
    #  factor/denominator, also when scales of both spellings are mixed; all scales negated for n = 4)
    for it, pt in pairs[:4]:
        bk = BREAKS[it]
        for slopes in seqs:
            n = len(slopes)
            masks = [m for m in itertools.product((False, True), repeat=n) if any(m)] if n <= 3 else [(True,) * n]
            if quick and n == 4 and slopes not in seqs[-3:]:
                continue
            for mask in masks:
                cm = scale_linear_cm(bk, slopes, 0, "co", True)
                if cm is not None and coeffs_ok_for(pt, cm):
                    for sc, neg in zip(cm["i2p"], mask):
                        if neg:
                            sc["num"] = [-c for c in sc["num"]]
                            sc["den"] = [-c for c in sc["den"]]
                    out.append((it, pt, cm))
    # slopes whose denominators are inexact in binary (one denominator family per method), real-valued physical type
    T3, T7, T100 = F(1, 3), F(1, 7), F(1, 100)
    inexact = [(T3,), (T3, 2 * T3), (2 * T3, T3, T3), (-T3, -2 * T3), (T3, 4 * T3, 2 * T3, T3),
               (T7,), (2 * T7, 3 * T7), (-T7, -3 * T7, -T7), (T100,), (3 * T100, 7 * T100), (-T100, -9 * T100, -3 * T100),
               (F(1, 10**12),), (F(1, 10**12), F(3, 10**12)), (-F(2, 10**12), -F(1, 10**12), -F(5, 10**12)), (F(10**12), F(2 * 10**12))]
    for it, pt in (("u8", "A_FLOAT32"), ("i8", "A_FLOAT64"), ("f32", "A_FLOAT32")):
        bk = BREAKS["f32i" if it == "f32" else it]
        for slopes in inexact:
            for style in styles:
                for neg in (False, True):
                    cm = scale_linear_cm(bk, slopes, 0, style, True)
                    if cm is None:
                        continue
                    if neg:
                        for sc in cm["i2p"]:
                            sc["num"] = [-c for c in sc["num"]]
                            sc["den"] = [-c for c in sc["den"]]
                    out.append((it, pt, cm))
    # scales with a gap between them, and a decreasing jump
    for it, pt in (("u8", "A_INT32"), ("i8", "A_FLOAT32")):
        a = BREAKS[it]
        out.append((it, pt, {"cat": "SCALE-LINEAR", "i2p": [
            {"lo": L(a[0], "CLOSED"), "hi": L(a[1], "CLOSED"), "num": [0, 1], "den": [1]},
            {"lo": L(a[2], "CLOSED"), "hi": L(a[3], "CLOSED"), "num": [10, 2], "den": [1]}]}))
    return out


def gen_tab_intp(quick: bool) -> List[Method]:
    XS = {"u8": [(0, 10), (3, 250), (0, 10, 20), (5, 6, 255), (0, 3, 10, 255)],
          "i8": [(-100, 50), (-128, 0, 127), (-3, 0, 3, 90)],
          "u16": [(0, 1000), (10, 300, 40000)],
          "f32": [(0.0, 10.0), (-10.5, 0.0, 200.25), (0.0, 0.5, 10.0, 1000.0)]}
    Y = (0, 2, -4, 100, 15)
    YF = (0.0, 2.5, -7.25, 100, 15)
    pairs = [("u8", "A_UINT32"), ("u8", "A_INT32"), ("u8", "A_FLOAT32"), ("i8", "A_INT32"), ("f32", "A_FLOAT32"), ("f32", "A_INT32")]
    if not quick:
        pairs += [("u16", "A_UINT32"), ("i8", "A_FLOAT64"), ("u16", "A_FLOAT32")]
    out: List[Method] = []
    for it, pt in pairs:
        ys_menu = YF if is_float_type(pt) else Y
        for xs in XS[it]:
            if len(xs) == 4:
                ys_list: Iterable[Tuple[Any, ...]] = itertools.product(ys_menu[:3] if quick else ys_menu[:4], repeat=4)
            else:
                ys_list = itertools.product(ys_menu[:4] if quick else ys_menu, repeat=len(xs))
            for ys in ys_list:
                out.append((it, pt, {"cat": "TAB-INTP", "i2p": [{"lo": x, "const": y} for x, y in zip(xs, ys)]}))
    return out


def gen_rat_func(quick: bool) -> List[Method]:
    out: List[Method] = []
    nums = ([0, 1], [1, 2], [-3, 1], [0, -2], [5], [0, 0, 1], [1, -2, 1])
    dens: Tuple[Any, ...] = (None, [1], [2], [1, 1], [4, -1])
    pairs = [("u8", "A_FLOAT32"), ("u8", "A_INT32"), ("i8", "A_INT32"), ("i8", "A_FLOAT32"), ("f32", "A_FLOAT32"), ("f32", "A_INT32")]
    if not quick:
        pairs += [("u8", "A_UINT32"), ("u16", "A_FLOAT64"), ("f64", "A_FLOAT64")]
    if quick:
        nums = nums[:4] + nums[5:6]
        dens = dens[:2] + dens[3:]
    for it, pt in pairs:
        lm = limit_menu(it if it in LIMVALS else "f32")
        lm = lm[:4] + zero_limit_menu(it if it in LIMVALS else "f32")[:1] + lm[4:]
        for num in (tuple(nums) + (([0.0, 0.5], [-2.5, 0.0]) if is_float_type(pt) else ())):
            for den in dens:
                for lname, lo, hi in (lm if not quick else lm[:5]):
                    s = {"num": list(num)}
                    if den is not None:
                        s["den"] = list(den)
                    s = with_limits(s, lo, hi)
                    p2is: List[Any] = [None]
                    # the exact inverse of an affine function n0 + n1 x over d0:  x = (d0 p - n0) / n1
                    if len(num) == 2 and num[1] != 0 and (den is None or len(den) == 1):
                        d0 = 1 if den is None else den[0]
                        # (coefficients of COMPU-PHYS-TO-INTERNAL are parsed with the internal type: clear fractions)
                        k = F(num[1]).denominator * F(num[0]).denominator
                        inv_num = [F(-num[0]) * k, F(d0) * k]
                        inv_den = [F(num[1]) * k]
                        conv = (lambda c: float(c)) if base_type(it) in R.FLOAT_TYPES else (lambda c: int(c))
                        if base_type(it) in R.FLOAT_TYPES or all(c.denominator == 1 for c in inv_num + inv_den):
                            p2is.append([{"num": [conv(c) for c in inv_num], "den": [conv(c) for c in inv_den]}])
                            # ... restricted to a physical interval
                            p2is.append([{"num": [conv(c) for c in inv_num], "den": [conv(c) for c in inv_den], "lo": L(-50, "OPEN"), "hi": L(120, "CLOSED")}])
                    else:
                        p2is.append([{"num": [1, 1], "den": [2], "lo": L(0, "CLOSED"), "hi": L(100, "OPEN")}])
                    for p2i in p2is:
                        cm: Dict[str, Any] = {"cat": "RAT-FUNC", "i2p": [s]}
                        if p2i is not None:
                            cm["p2i"] = p2i
                        out.append((it, pt, cm))
    out += [m for m in wide_rat_func() if m[2]["cat"] == "RAT-FUNC"]
    return out


def wide_rat_func() -> List[Method]:
    out: List[Method] = []
    for it, (a64, b64) in (("u64", (B53, B64 - 1)), ("u64", (B53 + 1, B63)), ("i64", (-B63, B53)), ("i64", (-B53 - 1, B63 - 1))):
        for pt in ("A_FLOAT64", "A_INT32"):
            for lo, hi in ((L(a64, "CLOSED"), L(b64, "CLOSED")), (L(a64, "OPEN"), L(b64, "OPEN"))):
                out.append((it, pt, {"cat": "RAT-FUNC", "i2p": [{"num": [0, 1], "den": [1], "lo": lo, "hi": hi}]}))
                out.append((it, pt, {"cat": "SCALE-RAT-FUNC", "i2p": [{"num": [0, 1], "den": [1], "lo": L(-B63 if it == "i64" else 0, "CLOSED"), "hi": L(a64, "CLOSED")},
                                                                       {"num": [1, 1], "den": [1], "lo": L(a64, "OPEN"), "hi": hi}]}))
    return out


def gen_scale_rat_func(quick: bool) -> List[Method]:
    out: List[Method] = []
    pairs = [("u8", "A_FLOAT32"), ("u8", "A_INT32"), ("i8", "A_INT32"), ("f32", "A_FLOAT32"), ("f32", "A_INT32")]
    segs = ({"num": [0, 1], "den": [1]}, {"num": [1, 0, 1], "den": [2]}, {"num": [100, -1]}, {"num": [3, 2], "den": [1, 1]}, {"num": [0, 1], "den": [4]})
    for it, pt in pairs:
        bk = BREAKS["f32i" if it == "f32" else it]
        for n in (1, 2, 3):
            combos = list(itertools.product(range(len(segs)), repeat=n))
            if quick and n == 3:
                combos = combos[::9]
            for combo in combos:
                for style in ("co", "cc"):
                    scales = []
                    for k, si in enumerate(combo):
                        sc = dict(segs[si])
                        last = k == n - 1
                        sc["lo"] = L(bk[k], "CLOSED")
                        sc["hi"] = L(bk[k + 1], "CLOSED" if (last or style == "cc") else "OPEN")
                        scales.append(sc)
                    for p2i in (None, [{"num": [0, 1], "den": [1], "lo": L(0, "CLOSED"), "hi": L(40, "OPEN")},
                                       {"num": [-40, 2], "den": [1], "lo": L(40, "CLOSED"), "hi": L(None, "INFINITE")}],
                                # the explicit inverse scales share the physical value 40 and disagree there: the first one listed decides
                                [{"num": [0, 1], "den": [1], "lo": L(0, "CLOSED"), "hi": L(40, "CLOSED")},
                                 {"num": [-30, 2], "den": [1], "lo": L(40, "CLOSED"), "hi": L(None, "INFINITE")}]):
                        cm: Dict[str, Any] = {"cat": "SCALE-RAT-FUNC", "i2p": scales}
                        if p2i is not None:
                            cm["p2i"] = p2i
                        out.append((it, pt, cm))
    out += [m for m in wide_rat_func() if m[2]["cat"] == "SCALE-RAT-FUNC"]
    return out


def gen_texttable(quick: bool) -> List[Method]:
    out: List[Method] = []
    T = [{"lo": 1, "const": "one"},  # point: LOWER-LIMIT only
         {"lo": L(7, "CLOSED"), "hi": L(7, "CLOSED"), "const": "seven"},  # point as degenerate range
         {"lo": L(2, "CLOSED"), "hi": L(5, "CLOSED"), "const": "few", "inv": 3},
         {"lo": L(10, "OPEN"), "hi": L(20, "OPEN"), "const": "teens", "inv": 15},
         {"lo": L(4, "CLOSED"), "hi": L(9, "CLOSED"), "const": "mid", "inv": 8},  # overlaps 'few' and contains 'seven'
         {"lo": L(100, "CLOSED"), "hi": L(None, "INFINITE"), "const": "many", "inv": 100},
         {"lo": L(30, "CLOSED"), "hi": L(40, "OPEN"), "const": "thirties"},  # range without inverse value
         {"lo": L(-5, "CLOSED"), "hi": L(0, "OPEN"), "const": "neg", "inv": -1}]
    defaults: List[Dict[str, Any]] = [{}, {"default_phys": "dflt"}, {"default_int": 99}, {"default_phys": "dflt", "default_int": 99},
                                      {"default_phys": "dflt", "default_inv": 98}]
    layouts = [c for n in (1, 2, 3, 4) for c in itertools.combinations(range(len(T)), n)]
    if quick:
        layouts = [c for c in layouts if len(c) <= 2] + [c for c in layouts if len(c) > 2][::4]
    pairs = [("u8", "A_UNICODE2STRING"), ("i8", "A_UNICODE2STRING")]
    if not quick:
        pairs += [("u16", "A_UTF8STRING"), ("i8", "A_ASCIISTRING")]
    for it, pt in pairs:
        for lay in layouts:
            for dv in defaults:
                cm: Dict[str, Any] = {"cat": "TEXTTABLE", "i2p": [dict(T[i]) for i in lay]}
                cm.update(dv)
                out.append((it, pt, cm))
    # falsy values (0, 0.0, '') as inverse value, limit, text and default value; negative limits and inverse values;
    # each combined with 0..2 rows that do not overlap it, on unsigned, signed and float internal types
    def zero_rows(z: Any) -> List[Dict[str, Any]]:
        return [{"lo": L(-3, "OPEN"), "hi": L(3, "OPEN"), "const": "around zero", "inv": z},
                {"lo": L(-3, "CLOSED"), "hi": L(3, "CLOSED"), "const": "around zero", "inv": z},
                {"lo": L(-6, "CLOSED"), "hi": L(z, "CLOSED"), "const": "up to zero", "inv": z},
                {"lo": L(z, "OPEN"), "hi": L(6, "CLOSED"), "const": "above zero", "inv": 2},
                {"lo": L(-6, "OPEN"), "hi": L(-2, "OPEN"), "const": "below", "inv": -4},
                {"lo": z, "const": "null"},  # point 0
                {"lo": L(z, "CLOSED"), "hi": L(z, "CLOSED"), "const": "null"},
                {"lo": 50, "const": ""},  # empty text
                {"lo": L(-3, "OPEN"), "hi": L(3, "OPEN"), "const": "", "inv": z}]
    pool = [T[1], T[3], T[5], T[6]]  # seven, teens, many, thirties
    companions = [c for n in (0, 1, 2) for c in itertools.combinations(range(len(pool)), n)]
    if quick:
        companions = companions[:5] + companions[5::3]
    zdefaults: List[Dict[str, Any]] = [{}, {"default_phys": ""}, {"default_int": 0}, {"default_phys": "dflt", "default_int": 0},
                                       {"default_phys": "", "default_int": -1}]
    zpairs = [("u8", "A_UNICODE2STRING", 0), ("i8", "A_UNICODE2STRING", 0), ("f32", "A_UNICODE2STRING", 0.0)]
    if not quick:
        zpairs += [("u16", "A_UTF8STRING", 0), ("f64", "A_ASCIISTRING", 0.0)]
    for it, pt, z in zpairs:
        for row in zero_rows(z):
            for comp in companions:
                for dv in zdefaults:
                    for first in ((True, False) if comp else (True,)):
                        rows = [dict(pool[i]) for i in comp]
                        rows = [dict(row)] + rows if first else rows + [dict(row)]
                        cm = {"cat": "TEXTTABLE", "i2p": rows}
                        cm.update(dv)
                        out.append((it, pt, cm))
    # rows that share a limit value (CLOSED/CLOSED: the value belongs to both rows), in both orders
    A, Bm, C = ({"lo": L(2, "CLOSED"), "hi": L(5, "CLOSED"), "const": "a", "inv": 3}, {"lo": L(5, "CLOSED"), "hi": L(9, "CLOSED"), "const": "b", "inv": 7},
                {"lo": L(9, "CLOSED"), "hi": L(12, "CLOSED"), "const": "c", "inv": 10})
    for it in ("u8", "i8", "f32"):
        for rows in ((A, Bm), (Bm, A), (A, Bm, C), (C, Bm, A), (A, C), (Bm, C)):
            for dv in ({}, {"default_phys": "dflt"}, {"default_int": 0}):
                cm = {"cat": "TEXTTABLE", "i2p": [dict(r) for r in rows]}
                cm.update(dv)
                out.append((it, "A_UNICODE2STRING", cm))
    # 64-bit internal types: adjacent rows that meet at 2^53 / 2^63 / 2^64-1 (exact integer comparison decides the row)
    for it, lo0 in (("u64", 0), ("i64", -B63)):
        top = B64 - 1 if it == "u64" else B63 - 1
        for mid in (B53, B53 + 1, 2 * B53, B63 - 3 if it == "i64" else B63):
            for style in ("co", "oc"):
                rows = [{"lo": L(lo0, "CLOSED"), "hi": L(mid, "OPEN" if style == "co" else "CLOSED"), "const": "low", "inv": mid - 1},
                        {"lo": L(mid, "CLOSED" if style == "co" else "OPEN"), "hi": L(top, "OPEN"), "const": "high", "inv": mid + 1},
                        {"lo": top, "const": "max"}]
                for dv in ({}, {"default_phys": "dflt"}):
                    cm = {"cat": "TEXTTABLE", "i2p": [dict(r) for r in rows]}
                    cm.update(dv)
                    out.append((it, "A_UNICODE2STRING", cm))
    return out


def gen_compucode(quick: bool) -> List[Method]:
    return [("u8", "A_UINT32", {"cat": "COMPUCODE", "progcode": True}), ("f32", "A_FLOAT32", {"cat": "COMPUCODE", "progcode": True})]


GENERATORS = [("IDENTICAL", gen_identical), ("LINEAR", gen_linear), ("SCALE-LINEAR", gen_scale_linear), ("TAB-INTP", gen_tab_intp),
              ("RAT-FUNC", gen_rat_func), ("SCALE-RAT-FUNC", gen_scale_rat_func), ("TEXTTABLE", gen_texttable),
              ("COMPUCODE", gen_compucode)]


# ---------------------------------------------------------------------------------------------
# evaluation of one loaded compu method against the reference
# ---------------------------------------------------------------------------------------------
def call(fn: Any, v: Any) -> Tuple[str, Any]:
    from odxtools.exceptions import OdxError
    try:
        return "ok", fn(v)
    except OdxError as e:
        return "odx", e
    except Exception as e:  # noqa: BLE001 - any foreign exception is an observation
        return "exc", e


def short(v: Any) -> str:
    return repr(v)[:80]


def physical_candidates(ref: R.RefCompu, images: List[Any], cm: Dict[str, Any], full: bool) -> List[Any]:
    pt = ref.pt
    out: Dict[Any, Any] = {}

    def add(p: Any) -> None:
        out.setdefault(vkey(p), p)

    if ref.cat == "TEXTTABLE":
        for s in cm.get("i2p") or []:
            add(s["const"])
        for p in ("dflt", "zzz", "", 5):
            add(p)
        return list(out.values())
    if pt not in R.NUM_TYPES:
        for p in images:
            add(p)
        add(5)
        return list(out.values())
    is_int = pt in R.INT_TYPES
    seen_img = []
    for p in images:
        if R.is_num(p):
            add(p)
            seen_img.append(p)
    # neighbours: +-1/2, +-1 around every image (full) or around the extreme / boundary images
    uniq = sorted({(float(p)) for p in seen_img})
    if not full and len(uniq) > 24:
        step = max(1, len(uniq) // 12)
        uniq = uniq[:6] + uniq[6:-6:step] + uniq[-6:]
    for p in uniq:
        base = int(p) if (is_int and float(p).is_integer()) else p
        if is_int and isinstance(base, int):
            for d in (-1, 1):
                add(base + d)
            add(base + 0.5)
        else:
            for d in (-1.0, -0.5, 0.5, 1.0):
                add(float(p) + d)
    # images of every limit (exact, all pieces) +- {0, 1/2, 1}
    ends: List[F] = []
    for pc in ref.pieces:
        for l in (pc.lo, pc.hi):
            if l is not None and l[0] is not None:
                ends.append(pc.f(l[0]))
    for _, y in ref.points:
        ends.append(y)
    for s in cm.get("p2i") or []:
        for l in (s.get("lo"), s.get("hi")):
            v = l.get("v") if isinstance(l, dict) else l
            if v is not None:
                ends.append(F(v))
    for e in ends:
        if is_int:
            for c in {math.floor(e), math.ceil(e)}:
                for d in (-1, 0, 1):
                    add(int(c) + d)
        else:
            for d in (-1.0, -0.5, 0.0, 0.5, 1.0):
                add(float(e) + d)
    # type probes
    if is_int:
        add("5")
        add(7.5)
    else:
        add("5.0")
        add(7)
    return list(out.values())


class Evaluator:
    """Runs the oracle for one compu method; collects violations as (key, case-part, detail)."""

    def __init__(self, part: Part, it: str, pt: str, cm: Dict[str, Any], cmobj: Any) -> None:
        self.part = part
        self.it, self.pt, self.cm = it, pt, cm
        self.obj = cmobj
        self.ref = R.compile_cm(cm, base_type(it), pt)
        self.cat = cm["cat"]
        self.found: List[Tuple[str, Dict[str, Any], str]] = []
        self.nontrivial = False
        self.tie_x = False
        self.image_of: Dict[Any, Any] = {}  # computed image -> internal value it is the image of
        self.pres: Dict[Any, Tuple[bool, Any, bool]] = {}  # p -> (declared valid, converted value, formula ok)

    def viol(self, op: str, mode: str, vpart: Dict[str, Any], detail: str) -> None:
        key = f"C07/{self.cat}/{op}/{mode}"
        if self.cat == "SCALE-LINEAR":
            signs = {(s.get("den") or [1])[0] < 0 for s in self.cm["i2p"]}
            if len(signs) == 2:
                key += "/mixed-denominator-signs"  # scales written with positive and with negative denominators
        case = {"it": self.it, "pt": self.pt, "cm": self.cm}
        case.update(vpart)
        self.found.append((key, case, f"{self.cat} {self.it}->{self.pt}: {detail}"))

    def wrong_mode(self, acc: R.Accept, got: Any) -> str:
        if acc.integral and R.is_num(got):
            g = F(got)
            for a in acc.alts:
                lo, hi = (a[1], a[2]) if isinstance(a, tuple) else (a, a)
                if isinstance(lo, F) and lo - 1 < g < hi + 1:
                    return "not-nearest"
        return "wrong-value"

    # ---- internal side ----
    def internal(self, x: Any) -> Optional[Any]:
        """-> the image of x if x is (rightly) valid and converted as the formula says, else None"""
        part, ref, obj = self.part, self.ref, self.obj
        want = ref.valid_internal(x)
        st, got = call(obj.is_valid_internal_value, x)
        part.count("evaluations")
        vx = {"x": enc(x)}
        if st == "exc":
            if R.admissible(ref.it, x) is True:
                self.viol("valid-internal", f"raises-{type(got).__name__}", vx, f"is_valid_internal_value({short(x)}) raised {type(got).__name__}: {got}")
            return None
        declared = bool(got) if st == "ok" else False
        part.count("internal_valid" if declared else "internal_invalid")
        part.count("internal_validity_" + {None: "dontcare", True: "must", False: "must_not"}[want])
        if want is None:
            pass
        elif want and not declared:
            self.viol("valid-internal", "rejects-inside", vx, f"is_valid_internal_value({short(x)}) is False, but the value has an admissible type and lies inside the scale limits")
        elif not want and declared:
            mode = "accepts-inadmissible-type" if R.admissible(ref.it, x) is False else "accepts-outside"
            self.viol("valid-internal", mode, vx, f"is_valid_internal_value({short(x)}) is True, but the value is {'of an inadmissible type' if mode.endswith('type') else 'outside the declared scale limits'}")
        if not declared:
            self.nontrivial = True
            return None
        if want is False:
            return None  # wrongly declared valid (reported above): there is no formula to compare with
        st, img = call(obj.convert_internal_to_physical, x)
        part.count("evaluations")
        if st != "ok":
            if want is None:
                part.count("dontcare_i2p")  # e.g. overlapping TEXTTABLE ranges: refusing is as good as choosing
                return None
            self.viol("i2p", f"raises-{type(img).__name__}", vx, f"is_valid_internal_value({short(x)}) is True but convert_internal_to_physical raised {type(img).__name__}: {img}")
            return None
        acc = ref.int_to_phys_accept(x)
        if not isinstance(acc, R.Accept):
            part.count("dontcare_i2p")
            return None
        if acc.has_tie():
            part.count("ties_i2p")
        if not acc.ok(img):
            self.viol("i2p", self.wrong_mode(acc, img), vx, f"convert_internal_to_physical({short(x)}) = {short(img)}, exact: {acc}")
            return None
        if not (type(img) is type(x) and img == x):
            self.nontrivial = True
        self.tie_x = acc.has_tie()
        return img if want is True else None

    # ---- physical side ----
    def physical(self, p: Any) -> None:
        part, ref, obj = self.part, self.ref, self.obj
        k = vkey(p)
        if k in self.pres:
            return
        want = ref.valid_physical(p)
        if want is None and k in self.image_of:
            want = ref.valid_physical_image(self.image_of[k], p)  # the computed image of a valid internal value
        st, got = call(obj.is_valid_physical_value, p)
        part.count("evaluations")
        vp = {"p": enc(p)}
        if st == "exc":
            if R.admissible(ref.pt, p) is True:
                self.viol("valid-physical", f"raises-{type(got).__name__}", vp, f"is_valid_physical_value({short(p)}) raised {type(got).__name__}: {got}")
            self.pres[k] = (False, None, False)
            return
        declared = bool(got) if st == "ok" else False
        part.count("physical_valid" if declared else "physical_invalid")
        part.count("physical_validity_" + {None: "dontcare", True: "must", False: "must_not"}[want])
        if want is None:
            pass
        elif want and not declared:
            why = {"RAT-FUNC": "lies inside the limits of COMPU-PHYS-TO-INTERNAL", "SCALE-RAT-FUNC": "lies inside the limits of COMPU-PHYS-TO-INTERNAL",
                   "TEXTTABLE": "is the text of exactly one scale"}.get(self.cat, "is the image of a valid internal value of a monotone continuous method")
            self.viol("valid-physical", "rejects-image", vp, f"is_valid_physical_value({short(p)}) is False, but the value {why}")
        elif not want and declared:
            self.viol("valid-physical", "accepts-outside", vp, f"is_valid_physical_value({short(p)}) is True, but the value is outside the physical range")
        if not declared or want is False:
            self.pres[k] = (False, None, False)
            return
        st, r = call(obj.convert_physical_to_internal, p)
        part.count("evaluations")
        if st != "ok" and ref.phys_to_int_accept(p) is R.DONT_CARE:
            part.count("dontcare_p2i")  # ambiguous by the standard (duplicate texts, value of a foreign type, ...)
            self.pres[k] = (True, None, False)
            return
        if st != "ok":
            mode = f"raises-{type(r).__name__}"
            if self.cat == "SCALE-LINEAR":
                mode += "/monotone-continuous" if ref.monotone_continuous else "/non-invertible"
            self.viol("p2i", mode, vp, f"is_valid_physical_value({short(p)}) is True but convert_physical_to_internal raised {type(r).__name__}: {r}")
            self.pres[k] = (True, None, False)
            return
        acc = ref.phys_to_int_accept(p)
        if not isinstance(acc, R.Accept):
            part.count("dontcare_p2i")
            self.pres[k] = (True, r, False)
            return
        if acc.has_tie():
            part.count("ties_p2i")
        if not acc.ok(r):
            self.viol("p2i", self.wrong_mode(acc, r), vp, f"convert_physical_to_internal({short(p)}) = {short(r)}, exact: {acc}")
            self.pres[k] = (True, r, False)
            return
        self.pres[k] = (True, r, not acc.has_tie())

    # ---- round trip (C03 compu law) ----
    def roundtrip(self, x: Any, img: Any) -> None:
        ref = self.ref
        if not ref.injective:
            return
        res = self.pres.get(vkey(img))
        if res is None or not res[0] or not res[2]:
            return  # not declared valid / raised / formula already wrong or tie: reported (or excused) elsewhere
        r = res[1]
        self.part.count("roundtrips")
        self.part.count("evaluations")
        if self.cat == "TEXTTABLE":
            st, back = call(self.obj.convert_internal_to_physical, r)
            ok = st == "ok" and back == img
        elif R.is_num(x):
            ok = R.is_num(r) and abs(F(r) - F(x)) <= R.REL_TOL * max(1, abs(F(x))) + ref.p2i_tolerance(img)
        elif isinstance(x, (bytes, bytearray)):
            ok = isinstance(r, (bytes, bytearray)) and bytes(r) == bytes(x)
        else:
            ok = r == x
        if not ok:
            self.viol("roundtrip", "not-identity", {"x": enc(x), "rt": True},
                      f"x = {short(x)} -> {short(img)} -> {short(r)}: converting the image back does not give x although the method is injective")

    def run(self, xs: Iterable[Any], extra_ps: Iterable[Any] = (), full: bool = True, derive_ps: bool = True) -> None:
        pairs: List[Tuple[Any, Any, bool]] = []
        images: List[Any] = []
        for x in xs:
            img = self.internal(x)
            if img is not None:
                pairs.append((x, img, self.tie_x))
                images.append(img)
                try:
                    self.image_of.setdefault(vkey(img), x)
                except TypeError:
                    pass
        ps: List[Any] = list(extra_ps)
        if derive_ps == "images":
            ps += images
        elif derive_ps:
            ps += physical_candidates(self.ref, images, self.cm, full)
        for p in ps:
            self.physical(p)
        for x, img, tie in pairs:
            if not tie:
                self.roundtrip(x, img)


def eval_method(part: Part, it: str, pt: str, cm: Dict[str, Any], cmobj: Any, full: bool) -> None:
    ev = Evaluator(part, it, pt, cm, cmobj)
    ev.run(internal_values(it, cm), full=full)
    part.count("methods")
    part.add("categories", cm["cat"])
    part.add("type_pairs", f"{it}->{pt}")
    if ev.ref.injective:
        part.count("injective_methods")
    if ev.ref.monotone_continuous and cm["cat"] in ("SCALE-LINEAR", "TAB-INTP", "LINEAR"):
        part.count("monotone_continuous_methods")
    for s in (cm.get("i2p") or []) + (cm.get("p2i") or []):
        for l in (s.get("lo"), s.get("hi")):
            if isinstance(l, dict):
                part.add("interval_types", str(l.get("type")))
            elif l is not None:
                part.add("interval_types", "bare-value")
    if ev.nontrivial:
        part.add("nontrivial", digest((it, pt, cm)))
    for key, case, detail in ev.found:
        part.violation(key, case, detail)


# ---------------------------------------------------------------------------------------------
# query sequences: the four API functions are functions of the value alone
# ---------------------------------------------------------------------------------------------
OPS = {"valid-internal": "is_valid_internal_value", "i2p": "convert_internal_to_physical",
       "valid-physical": "is_valid_physical_value", "p2i": "convert_physical_to_internal"}


def outcome(obj: Any, op: str, v: Any) -> Tuple[Any, ...]:
    st, r = call(getattr(obj, OPS[op]), v)
    if st != "ok":
        return ("raises", type(r).__name__)
    if isinstance(r, (bytes, bytearray)):
        return ("ok", "bytes", bytes(r))
    return ("ok", type(r).__name__, r if isinstance(r, (int, float, str, bool, type(None))) else repr(r))


def twins(v: Any) -> List[Any]:
    """the value and the numerically equal value of the other python number type (5 / 5.0: equal, same hash)"""
    if isinstance(v, bool) or not isinstance(v, (int, float)):
        return [v]
    if isinstance(v, int):
        return [v, float(v)]
    return [v, int(v)] if v == int(v) else [v]


def cloner(pristine: Any) -> Any:
    """-> function returning a fresh copy of the never-queried object (pickle round trip; deepcopy as fallback)"""
    import copy
    import pickle
    try:
        blob = pickle.dumps(pristine, -1)
        pickle.loads(blob)
        return lambda: pickle.loads(blob)
    except Exception:  # noqa: BLE001
        copy.deepcopy(pristine)
        return lambda: copy.deepcopy(pristine)


def history_queries(it: str, pt: str, cm: Dict[str, Any], pristine: Any, small: bool = False) -> Tuple[List[List[Tuple[str, Any]]], List[Tuple[str, Any]]]:
    """-> (twin groups, all queries).  Values: one internal value that must be valid, one that must not, 0; the image of
    the valid one, a value far outside, 0 (texts: a table text and an unknown one); each with its int/float twin."""
    ref = R.compile_cm(cm, base_type(it), pt)
    xs = internal_values(it, cm)
    num = [x for x in xs if R.is_num(x) and (not isinstance(x, float) or x == int(x))]
    good = next((x for x in num if ref.valid_internal(x) is True and x != 0), None)
    bad = next((x for x in num if ref.valid_internal(x) is False and x != 0), None)
    ivals: List[Any] = []
    if num:
        ivals = [v for v in ((good, bad) if small else (good, bad, 0)) if v is not None]
    else:
        ivals = xs[:2]
    pvals: List[Any] = []
    if cm["cat"] == "TEXTTABLE":
        pvals = [cm["i2p"][0]["const"], "zzz"]
    elif pt in R.NUM_TYPES:
        if good is not None:
            st, img = call(cloner(pristine)().convert_internal_to_physical, good)
            if st == "ok" and R.is_num(img) and float(img) == int(img):
                pvals.append(int(img) if pt in R.INT_TYPES else float(img))
        pvals += [0] if small else [100000, 0]
    else:
        pvals = xs[:2]
    groups: List[List[Tuple[str, Any]]] = []
    for v in ivals:
        groups.append([(op, t) for t in twins(v) for op in ("valid-internal", "i2p")])
    for v in pvals:
        groups.append([(op, t) for t in twins(v) for op in ("valid-physical", "p2i")])
    allq = [q for g in groups for q in g]
    return groups, allq


def boundary_groups(it: str, cm: Dict[str, Any]) -> List[List[Any]]:
    """For piecewise methods: per limit value shared by two consecutive scales that BOTH include it (CLOSED/CLOSED, where
    "the first applicable scale" decides): [boundary, boundary-1, boundary+1, an interior point of either scale]."""
    if cm["cat"] not in ("SCALE-LINEAR", "SCALE-RAT-FUNC", "TEXTTABLE"):
        return []
    is_float = base_type(it) in R.FLOAT_TYPES

    def lim(l: Any) -> Tuple[Any, str]:
        if isinstance(l, dict):
            return l.get("v"), (l.get("type") or "CLOSED")
        return l, "CLOSED"

    def interior(s: Dict[str, Any]) -> Any:
        (a, _), (b, _) = lim(s.get("lo")), lim(s.get("hi"))
        if a is None or b is None:
            return None
        return (a + b) / 2 if is_float else (a + b) // 2

    out: List[List[Any]] = []
    scales = cm.get("i2p") or []
    for s0, s1 in zip(scales, scales[1:]):
        if s0.get("hi") is None or s1.get("lo") is None:
            continue
        (b0, t0), (b1, t1) = lim(s0["hi"]), lim(s1["lo"])
        if b0 is None or b0 != b1 or t0 != "CLOSED" or t1 != "CLOSED":
            continue
        vals = [b0, b0 - 1, b0 + 1, interior(s0), interior(s1)]
        vals = [float(v) if is_float else v for v in vals if v is not None]
        out.append(list(dict.fromkeys(vals)))
    return out


def history_pair(pristine: Any, q1: Tuple[str, Any], q2: Tuple[str, Any]) -> Tuple[Any, Any]:
    """-> (answer to q2 on a fresh object, answer to q2 on an object that answered q1 before)"""
    clone = cloner(pristine)
    fresh = outcome(clone(), q2[0], q2[1])
    o = clone()
    outcome(o, q1[0], q1[1])
    return fresh, outcome(o, q2[0], q2[1])


def history_method(part: Part, it: str, pt: str, cm: Dict[str, Any], pristine: Any, all_pairs: bool, small: bool = False) -> None:
    """Every ordered pair of queries (within each twin group; all pairs over all queries if all_pairs) is put to a fresh
    copy of the never-queried object; the second answer must equal the answer a fresh object gives."""
    try:
        clone = cloner(pristine)
    except Exception:  # noqa: BLE001
        part.count("history_uncopyable_methods")
        return
    groups, allq = history_queries(it, pt, cm, pristine, small and not all_pairs)
    base: Dict[Any, Any] = {}
    for q in allq:
        base[(q[0], vkey(q[1]))] = outcome(clone(), q[0], q[1])
    pairs = [(a, b) for a in allq for b in allq] if all_pairs else [(a, b) for g in groups for a in g for b in g]
    # piecewise methods: all ordered pairs of conversions around every boundary shared by two CLOSED scales, both directions
    for vals in boundary_groups(it, cm):
        qi = [("i2p", v) for v in vals]
        images: List[Any] = []
        for q in qi:
            ans = base.setdefault((q[0], vkey(q[1])), outcome(clone(), q[0], q[1]))
            if ans[0] == "ok" and ans[2] not in images:
                images.append(ans[2])
        qp = [("p2i", v) for v in images]
        for q in qp:
            base.setdefault((q[0], vkey(q[1])), outcome(clone(), q[0], q[1]))
        bp = [(a, b) for a in qi for b in qi] + [(a, b) for a in qp for b in qp]
        part.count("history_boundary_groups")
        part.count("history_boundary_sequences", len(bp))
        pairs += bp
    for q1, q2 in pairs:
        o = clone()
        outcome(o, q1[0], q1[1])
        got = outcome(o, q2[0], q2[1])
        part.count("evaluations")
        part.count("history_sequences")
        want = base[(q2[0], vkey(q2[1]))]
        if got != want:
            part.count("history_dependent_answers")
            part.violation(f"C07/{cm['cat']}/history/{q2[0]}-after-{q1[0]}",
                           {"it": it, "pt": pt, "cm": cm, "seq": [[q1[0], enc(q1[1])], [q2[0], enc(q2[1])]]},
                           f"{cm['cat']} {it}->{pt}: {OPS[q2[0]]}({short(q2[1])}) answers {want} on a fresh object but {got} "
                           f"after {OPS[q1[0]]}({short(q1[1])}) on the same object")
    part.count("history_methods_all_pairs" if all_pairs else "history_methods_twin_pairs")


def load_methods(methods: List[Method]) -> List[Any]:
    dops = [dop_spec(f"d{i}", it, pt, cm) for i, (it, pt, cm) in enumerate(methods)]
    loaded = load_compu_db(dops)
    return [loaded[f"d{i}"].compu_method for i in range(len(methods))]


HISTORY_ALL_PAIRS_EVERY = (10, 40)  # (thorough, quick): every n-th configuration of a category gets all ordered query pairs


def unit_fn(unit: Tuple[Any, ...]) -> Part:
    import odxtools.exceptions as oe
    oe.strict_mode = True
    name, full, methods = unit[:3]
    first_index = unit[3] if len(unit) > 3 else 0
    every = HISTORY_ALL_PAIRS_EVERY[0 if full else 1]
    part = Part()
    objs = load_methods(methods)
    part.count("documents_loaded")
    for k, ((it, pt, cm), obj) in enumerate(zip(methods, objs)):
        history_method(part, it, pt, cm, obj, all_pairs=((first_index + k) % every == 0), small=not full)  # before any other query
        eval_method(part, it, pt, cm, obj, full)
    if methods:
        it, pt, cm = methods[len(methods) // 2]
        part.sample({"it": it, "pt": pt, "cm": cm}, limit=1)
    oe.strict_mode = True
    _drop_scratch()
    return part


def _drop_scratch() -> None:
    """pool workers leave through os._exit (no atexit): remove this process's scratch directory now"""
    import shutil
    from odxmodel.emit import scratch_dir
    shutil.rmtree(scratch_dir(), ignore_errors=True)


def run(ctx: Ctx) -> None:
    quick = ctx.quick
    full = not quick
    units: List[Tuple[Any, ...]] = []
    sizes: Dict[str, int] = {}
    for cat, gen in GENERATORS:
        ms = gen(quick)
        sizes[cat] = len(ms)
        chunk = 40 if cat in ("SCALE-LINEAR", "LINEAR", "TAB-INTP") else 60
        for i in range(0, len(ms), chunk):
            units.append((f"{cat}#{i // chunk}", full, ms[i:i + chunk], i))
    ctx.bounds = {
        "methods_per_category": sizes,
        "internal_values": {"u8": "all 256", "i8": "all 256", "u16": f"boundary set ({len(U16_SET)} values + every limit +-1)",
                            "f32/f64": f"boundary set ({len(F32_SET)} values + every limit +-{{0, 1/2, 1}})", "type probes": "str, float for int types, int for float types"},
        "physical_candidates": ("image of every valid internal value; +-{1/2, 1} around " + ("every image" if full else "the 12 extreme and 12 evenly spaced images")
                                + "; every limit image and every COMPU-PHYS-TO-INTERNAL limit +-{0, 1/2, 1}; type probes"),
        "linear": "offset {-3,0,1,2.5} x factor {-2,-1,-0.5,0,0.5,1,3} x denominator " + ("{1,4}" if quick else "{1,2,4}") + " (fractional literals only for float physical types) x 6 limit shapes (none, [a,b], (a,b), [a,inf), (a,b] with bare upper value, (INFINITE-with-value, b))",
        "scale_linear": "1..4 adjacent scales, slopes from {-2,-1,0,1,3,1/2} (n<=2), {-1,0,1,3}^3, {-1,0,2}^4; continuous and with jumps of +7; limit styles " + ("co, cc" if quick else "co, cc, oc, inf") + "; zero slopes with and without COMPU-INVERSE-VALUE",
        "query_sequences": ("every ordered pair of queries (4 API functions x value, incl. the same query twice) within each twin group "
                            "{v as int, v as float} for " + ("2 internal values (one valid, one invalid) and 2 physical values (image of the valid one, 0" if quick else
                            "3 internal values (one valid, one invalid, 0) and 3 physical values (image of the valid one, 100000, 0")
                            + "; texts: a table text and an unknown one) on EVERY configuration; all ordered "
                            f"pairs over all these queries on every {HISTORY_ALL_PAIRS_EVERY[1 if quick else 0]}th configuration of a category; "
                            "each sequence on a fresh copy (pickle round trip) of the never-queried loaded object, second answer compared with a fresh object's"),
        "boundary_sequences": ("SCALE-LINEAR, SCALE-RAT-FUNC, TEXTTABLE: for every limit value shared by two consecutive CLOSED/CLOSED scales, all "
                               "ordered pairs convert(x) then convert(y) over {boundary, boundary-1, boundary+1, interior point of either scale} on "
                               "one fresh object, and all ordered pairs of physical->internal conversions over the images of these values; "
                               "every second answer compared with a fresh object's"),
        "tab_intp": "2..4 points, all y sequences over a 4-value menu (increasing, decreasing, non-monotone, plateaus)",
        "rat_func": ("5 numerators x 4 denominators x 4 limit shapes" if quick else "7 numerators (degree <= 2) x 5 denominators (absent, degree 0, degree 1) x 6 limit shapes")
                    + " x {no inverse, exact inverse, restricted / unrelated inverse}; SCALE-RAT-FUNC: 1..3 scales from 5 segment templates",
        "texttable": "all 1..4-subsets of 8 scale templates (points, ranges, OPEN limits, overlapping, INFINITE, missing inverse) x 5 default-value shapes",
    }
    ctx.rule = ("one evaluation = one call of is_valid_internal_value / convert_internal_to_physical / is_valid_physical_value / "
                "convert_physical_to_internal on an XML-loaded compu method compared with the exact reference; non-trivial = distinct "
                "(internal type, physical type, compu method) configurations on which at least one internal value was rejected or "
                "converted to something other than itself")
    ctx.assumptions = [
        "exact rounding ties of integer results: either neighbour accepted",
        "floats compared with relative tolerance 1e-9",
        "a numeric scale with only one of LOWER-/UPPER-LIMIT, overlapping TEXTTABLE ranges, zero slope without COMPU-INVERSE-VALUE, "
        "python floats for integer types / ints for float types, physical values on or next to a boundary derived from an OPEN limit, "
        "reverse-direction TEXTTABLE defaults: DON'T-CARE",
        "fractional COMPU-RATIONAL-COEFFS are only used with float range types (odxtools' parser rejects them otherwise)",
        "default strict mode (odxtools.exceptions.strict_mode = True)",
    ]
    pmap(ctx, unit_fn, units)
    c = ctx.counts
    cats = ctx.sets.get("categories", set())
    for cat, _ in GENERATORS:
        ctx.guard(f"category {cat} exercised", cat in cats)
    ctx.guard("valid and invalid internal values seen", c.get("internal_valid", 0) > 0 and c.get("internal_invalid", 0) > 0)
    ctx.guard("valid and invalid physical values seen", c.get("physical_valid", 0) > 0 and c.get("physical_invalid", 0) > 0)
    ctx.guard("OPEN, CLOSED, INFINITE and untyped limits used", {"OPEN", "CLOSED", "INFINITE", "bare-value"} <= ctx.sets.get("interval_types", set()))
    ctx.guard("exact ties were met (and excused)", c.get("ties_i2p", 0) > 0)
    ctx.guard("injective and monotone continuous methods present", c.get("injective_methods", 0) > 10 and c.get("monotone_continuous_methods", 0) > 10)
    ctx.guard("more than 1000 methods", c.get("methods", 0) > 1000)
    ctx.guard("boundary sequences were run on CLOSED/CLOSED piecewise methods", c.get("history_boundary_groups", 0) > 100)
    ctx.guard("query sequences were run (twin pairs on all methods, all pairs on a sample)",
              c.get("history_sequences", 0) > 10000 and c.get("history_methods_all_pairs", 0) > 50 and c.get("history_uncopyable_methods", 0) == 0)
    ctx.sets.pop("categories", None)


# ---------------------------------------------------------------------------------------------
# replay of one recorded case
# ---------------------------------------------------------------------------------------------
def replay(case: Any) -> List[Tuple[str, str]]:
    import odxtools.exceptions as oe
    oe.strict_mode = True
    it, pt, cm = case["it"], case["pt"], case["cm"]
    obj = load_methods([(it, pt, cm)])[0]
    part = Part()
    if "seq" in case:
        (op1, v1), (op2, v2) = case["seq"]
        q1, q2 = (op1, dec(v1)), (op2, dec(v2))
        fresh, got = history_pair(obj, q1, q2)
        if fresh != got:
            return [(f"C07/{cm['cat']}/history/{op2}-after-{op1}",
                     f"{OPS[op2]}({short(q2[1])}) answers {fresh} on a fresh object but {got} after {OPS[op1]}({short(q1[1])})")]
        return []
    ev = Evaluator(part, it, pt, cm, obj)
    if "x" in case:
        ev.run([dec(case["x"])], derive_ps="images")
    else:
        ev.run([], extra_ps=[dec(case["p"])], derive_ps=False)
    return [(k, d) for k, _, d in ev.found]
