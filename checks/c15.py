"""C15 -- communication parameters resolve to the most specific definition.

Bounded exhaustive exploration: ALL layer hierarchies ODX allows (odxmodel.refcomparam.hierarchies: chains, diamonds,
several protocols / functional groups, shared-data parents) with up to N layers  x  ALL placements of COMPARAM-REF
instances per layer {absent, generic, protocol P1, protocol P2, generic+P1} x per instance {value given, value omitted}
(complex parameter: {all sub-values given, one omitted}) x both document orders of a generic+P1 pair.  Every
configuration is written as ODX XML (odxmodel.emit_comparam: .odx-d + .odx-cs + .odx-c, several independent hierarchies
per database) and loaded through the real loader; then for EVERY layer

  view      layer.comparam_refs                         vs. refcomparam.views        (own instance, else inherited)
  lookup    layer.get_comparam(name, protocol=...)      vs. refcomparam.lookup       (protocol-specific before generic)
  values    instance.get_value() / get_subvalue(sub)    vs. given value, else the default of the parameter specification
  accessors get_can_receive_id / get_can_send_id / get_can_func_req_id / get_can_baudrate / get_can_fd_baudrate /
            get_max_can_payload_size / get_doip_* / get_tester_present_time (protocol in {None, P1, P2})
                                                        vs. the numeric content of the effective (sub-)value

Passes: "core" (one simple + one complex parameter at the same placement; all hierarchies up to the bound), "all" (all
eleven named parameters the accessors read, smaller bound), "cross" (simple and complex parameter placed independently,
small bound: the two parameters must not influence each other), "subsets" (one layer, one instance, every subset of
omitted sub-values).

The oracle is three-valued where the property text is silent -- see odxmodel/refcomparam.py.  The lookup and accessor
oracles are evaluated on the view / on the instance the real code produced, so one root cause gives one finding key.
"""
from __future__ import annotations

import itertools
import warnings
from typing import Any, Dict, List, Optional, Sequence, Tuple

from mcx.core import Ctx, Part, digest, pmap
from odxmodel import emit_comparam as ec
from odxmodel import refcomparam as ref

PROPERTY = "C15"
LEVEL = "model_checking"

BATCH = 24
FULL_LAYERS = 3  # up to this many layers: mixed modes inside a generic+P1 pair, both document orders, both PARENT-REF orders
UNKNOWN_PARAM = "CP_NoSuchParameter"
UNKNOWN_SUB = "CP_NoSuchSubParameter"


# ---------------------------------------------------------------------------------------------
# checking ONE loaded hierarchy
# ---------------------------------------------------------------------------------------------
def _strip(name: Optional[str], prefix: str) -> Optional[str]:
    if name is None:
        return None
    return name[len(prefix):] if name.startswith(prefix) else "?" + name


def _tag(cp: Any) -> Optional[str]:
    d = getattr(cp, "description", None)
    t = getattr(d, "text", None)
    if not isinstance(t, str):
        return None
    t = t.strip()
    if t.startswith("<p>") and t.endswith("</p>"):
        t = t[3:-4]
    return t


def check_hierarchy(db: Any, prefix: str, types: Sequence[str], parents: Sequence[Sequence[int]],
                    local: Sequence[Sequence[Dict[str, Any]]], params: Sequence[str],
                    stats: Optional[Part] = None) -> List[Tuple[str, str]]:
    """All oracle comparisons for one hierarchy of a loaded database -> [(finding key, detail)]."""
    out: List[Tuple[str, str]] = []
    lnames = ref.layer_names(types, prefix)
    by_tag = ref.index_instances(local)
    want = ref.views(types, parents, local)
    anc = ref.ancestors(parents)
    proto_objs = {q: db.diag_layers[prefix + q] for q in ("P1", "P2")}

    def cnt(name: str, n: int = 1) -> None:
        if stats is not None:
            stats.count(name, n)

    for i, t in enumerate(types):
        layer = db.diag_layers[lnames[i]]
        where = f"layer {i} ({t})"
        if t == ref.ESD:
            if list(getattr(layer, "comparam_refs", [])):
                out.append(("C15/view/shared-data-layer-has-parameters", where))
            continue
        # ---------------- view ----------------
        cnt("layer_views")
        observed: Dict[ref.Key, str] = {}
        cps: Dict[str, Any] = {}
        broken = False
        for cp in layer.comparam_refs:
            tag = _tag(cp)
            key = (cp.short_name, _strip(cp.protocol_snref, prefix))
            if tag is None or tag not in by_tag:
                out.append(("C15/view/unknown-instance", f"{where}: entry {key} carries no known marker ({tag!r})"))
                broken = True
                continue
            inst = by_tag[tag]
            if (inst["param"], inst["proto"]) != key:
                out.append(("C15/view/instance-under-wrong-key", f"{where}: instance {tag} reports key {key}"))
                broken = True
                continue
            if key in observed:
                out.append(("C15/view/duplicate-key", f"{where}: two entries for {key}: {observed[key]} and {tag}"))
                broken = True
                continue
            observed[key] = tag
            cps[tag] = cp
        for key in sorted(set(observed) | set(want[i]), key=repr):
            adm = want[i].get(key, frozenset())
            obs = observed.get(key)
            if len(adm) > 1:
                cnt("view_entries_dontcare_between_unrelated_parents")
            if (obs is None and not adm) or obs in adm:
                continue
            mode = ref.classify_view_error(i, key, obs, adm, parents, by_tag)
            out.append((f"C15/view/{mode}", f"{where}: key {key}: comparam_refs has {obs}, admissible {sorted(adm)}"))
            broken = True
        if stats is not None and observed:
            inherited = sum(1 for tg in observed.values() if by_tag[tg]["layer"] != i)
            overridden = sum(1 for a in anc[i] for inst in local[a] if observed.get((inst["param"], inst["proto"])) not in (None, inst["tag"]))
            stats.add("nontrivial", digest([list(types), [list(p) for p in parents], i, sorted(observed.values())]))
            if inherited:
                cnt("views_with_inherited_entries")
            if overridden:
                cnt("views_with_overridden_ancestor_instances")
        if broken:
            continue  # the lookups below are judged relative to a sane view only
        # ---------------- lookup ----------------
        found: Dict[Tuple[str, Optional[str]], Optional[str]] = {}
        for param in list(params) + [UNKNOWN_PARAM]:
            for q, form in ((None, "none"), ("P1", "str"), ("P2", "str"), ("P1", "obj"), ("P2", "obj")):
                arg = None if q is None else (prefix + q if form == "str" else proto_objs[q])
                cnt("lookups")
                try:
                    with warnings.catch_warnings():
                        warnings.simplefilter("ignore")
                        got = layer.get_comparam(param, protocol=arg)
                except Exception as e:  # noqa: BLE001
                    out.append((f"C15/get_comparam/raises-{type(e).__name__}", f"{where}: get_comparam({param}, {q}/{form}): {e}"))
                    continue
                got_tag = None if got is None else _tag(got)
                adm, why = ref.lookup(observed, param, q, parents, by_tag)
                if len(adm) > 1:
                    cnt("lookups_dontcare")
                if form == "str" or q is None:
                    found[(param, q)] = got_tag if (got is None or got_tag in by_tag) else "?"
                if got_tag in adm:
                    if q is not None and len(adm) == 1 and (param, q) in observed and (param, None) in observed:
                        cnt("lookups_specific_preferred_over_generic")
                    continue
                mode = "wrong-instance"
                gi = by_tag.get(got_tag) if got_tag else None
                if got is None:
                    mode = "none-although-defined"
                elif gi is None:
                    mode = "unknown-instance"
                elif gi["param"] != param:
                    mode = "wrong-name"
                elif None in adm:
                    mode = "instance-although-undefined"
                elif q is not None and gi["proto"] is None and (param, q) in observed:
                    mode = "generic-returned-although-protocol-specific-exists"
                elif q is not None and gi["proto"] not in (None, q):
                    mode = "other-protocol-returned"
                if form == "obj":
                    # only reported separately if the string form of the same query was right
                    s = found.get((param, q))
                    if s not in adm:
                        continue
                    mode += "/protocol-object-argument"
                out.append((f"C15/get_comparam/{mode}",
                            f"{where}: get_comparam({param!r}, protocol={q}) -> {got_tag}, admissible {sorted(map(str, adm))} ({why}); view {sorted(observed.values())}"))
        # ---------------- values ----------------
        bad_reads = set()  # (instance tag, sub-parameter | None) whose get_value / get_subvalue is already reported
        for tag, cp in cps.items():
            inst = by_tag[tag]
            if ref.is_complex(inst["param"]):
                for k, sub in enumerate(ref.sub_names(inst["param"]) + [UNKNOWN_SUB]):
                    cnt("value_reads")
                    exp = ref.effective_subvalue(inst, sub)
                    omitted = sub != UNKNOWN_SUB and inst["subs"][k] is None
                    try:
                        with warnings.catch_warnings():
                            warnings.simplefilter("ignore")
                            got = cp.get_subvalue(sub)
                    except Exception as e:  # noqa: BLE001
                        out.append((f"C15/get_subvalue/raises-{type(e).__name__}/{'omitted' if omitted else 'given'}",
                                    f"{where}: {tag}.get_subvalue({sub}): {e}"))
                        bad_reads.add((tag, sub))
                        continue
                    if got != exp:
                        mode = "unknown-sub-parameter" if sub == UNKNOWN_SUB else ("default-not-used" if omitted else "given-value-not-returned")
                        out.append((f"C15/get_subvalue/{mode}", f"{where}: {tag}.get_subvalue({sub}) = {got!r}, expected {exp!r} (sub-values {inst['subs']})"))
                        bad_reads.add((tag, sub))
                    elif omitted:
                        cnt("defaults_used")
            else:
                cnt("value_reads")
                exp = ref.effective_value(inst)
                omitted = inst.get("value") is None
                try:
                    got = cp.get_value()
                except Exception as e:  # noqa: BLE001
                    out.append((f"C15/get_value/raises-{type(e).__name__}/{'omitted' if omitted else 'given'}", f"{where}: {tag}.get_value(): {e}"))
                    bad_reads.add((tag, None))
                    continue
                if got != exp:
                    out.append((f"C15/get_value/{'default-not-used' if omitted else 'given-value-not-returned'}",
                                f"{where}: {tag}.get_value() = {got!r}, expected {exp!r}"))
                    bad_reads.add((tag, None))
                elif omitted:
                    cnt("defaults_used")
        # ---------------- typed accessors ----------------
        for acc, (param, sub, conv) in ref.ACCESSORS.items():
            if param not in params:
                continue
            fn = getattr(layer, acc)
            for q in ref.PROTOS:
                base_tag = found.get((param, q), "?")
                if base_tag == "?":
                    continue
                inst = None if base_tag is None else by_tag[base_tag]
                if (base_tag, sub) in bad_reads:
                    cnt("accessor_calls_skipped_value_read_already_reported")
                    continue  # the (sub-)value read underneath is already reported: one root cause, one key
                kind, exp = ref.accessor_expectation(acc, inst)
                omitted = False
                if inst is not None:
                    omitted = (inst["subs"][ref.sub_names(param).index(sub)] is None) if sub else (inst.get("value") is None)
                if acc == "get_can_fd_baudrate" and inst is not None:
                    # the accessor is conditional on CAN-FD being in use: demanded only when the other two parameters
                    # resolve for the same query and say so by their effective values (ours always do)
                    rx = found.get(("CP_UniqueRespIdTable", q), "?")
                    fd = found.get(("CP_CANFDTxMaxDataLength", q), "?")
                    if rx not in (None, "?") and fd not in (None, "?") and (rx, "CP_CanPhysReqId") not in bad_reads \
                            and (fd, None) not in bad_reads:
                        kind, exp = "must", ref.numeric("int", ref.effective_value(inst))
                        omitted = omitted or by_tag[fd].get("value") is None or by_tag[rx]["subs"][0] is None
                if kind == "dontcare":
                    cnt("accessor_calls_dontcare")
                    continue
                cnt("accessor_calls")
                try:
                    with warnings.catch_warnings():
                        warnings.simplefilter("ignore")
                        got = fn(protocol=None if q is None else prefix + q)
                except Exception as e:  # noqa: BLE001
                    out.append((f"C15/accessor/{acc}/raises-{type(e).__name__}/{'omitted-value' if omitted else 'given-value'}",
                                f"{where}: {acc}(protocol={q}) on instance {base_tag} ({_show(inst)}): {type(e).__name__}: {e}"))
                    continue
                if got == exp and type(got) is type(exp):
                    if exp is not None:
                        cnt("accessor_numbers_confirmed")
                    continue
                if exp is None:
                    mode = "number-although-parameter-undefined"
                elif omitted and (got is None or (acc == "get_max_can_payload_size" and got == 8)):
                    mode = "default-ignored"
                elif got is None:
                    mode = "none-although-defined"
                elif got == exp:
                    mode = "wrong-type"
                else:
                    mode = "wrong-number"
                out.append((f"C15/accessor/{acc}/{mode}",
                            f"{where}: {acc}(protocol={q}) = {got!r}, expected {exp!r} from instance {base_tag} ({_show(inst)})"))
    return out


def _show(inst: Optional[Dict[str, Any]]) -> str:
    if inst is None:
        return "none"
    return f"value={inst.get('value')!r}" if "subs" not in inst else f"sub-values={inst['subs']}"


# ---------------------------------------------------------------------------------------------
# units
# ---------------------------------------------------------------------------------------------
def case_of(types: Sequence[str], parents: Sequence[Sequence[int]], local: Sequence[Sequence[Dict[str, Any]]],
            params: Sequence[str], reverse: bool = False) -> Dict[str, Any]:
    return {"types": list(types), "parents": [list(p) for p in parents], "local": [list(l) for l in local],
            "params": list(params), "reverse": bool(reverse)}


def run_batch(part: Part, batch: List[Dict[str, Any]]) -> None:
    import odxtools.exceptions
    odxtools.exceptions.strict_mode = True
    try:
        db = ec.load_batch(batch)
    except Exception as e:  # noqa: BLE001  -- find the culprit(s) by loading the elements one by one
        if len(batch) == 1:
            part.violation(f"C15/load/raises-{type(e).__name__}", batch[0], f"loading the database: {type(e).__name__}: {e}")
            return
        for c in batch:
            run_batch(part, [c])
        return
    for k, c in enumerate(batch):
        part.count("evaluations")
        for key, detail in check_hierarchy(db, f"h{k}_", c["types"], c["parents"], c["local"], c["params"], part):
            part.violation(key, c, detail)
    part.count("databases")


def _flush(part: Part, buf: List[Dict[str, Any]], force: bool = False) -> None:
    while len(buf) >= BATCH or (force and buf):
        run_batch(part, buf[:BATCH])
        del buf[:BATCH]


def configs_for(types: Sequence[str], parents: Sequence[Sequence[int]], placement: Any, params: Sequence[str],
                placement2: Any = None, reversals: bool = False, orders: bool = True) -> List[Dict[str, Any]]:
    """The database elements of one placement vector: both document orders of generic+P1 pairs (if there is such a pair)
    and, if asked for, both orders of the PARENT-REFs of layers with several parents."""
    out = []
    pairs = orders and (any(len(pl) > 1 for pl in placement) or (placement2 is not None and any(len(pl) > 1 for pl in placement2)))
    multi = reversals and any(len(p) > 1 for p in parents)
    for pfirst in ((False, True) if pairs else (False,)):
        local = ref.make_instances(placement, params, pfirst, placement2)
        for rev in ((False, True) if multi else (False,)):
            out.append(case_of(types, parents, local, params, rev))
    return out


_H: Dict[int, List[ref.Hierarchy]] = {}


def hier(n: int) -> List[ref.Hierarchy]:
    if n not in _H:
        _H[n] = ref.hierarchies(n)
    return _H[n]


def unit(u: Tuple[Any, ...]) -> Part:
    part = Part()
    kind = u[0]
    buf: List[Dict[str, Any]] = []
    if kind in ("core", "all"):
        _, n, hidx, lead, full = u
        types, parents = hier(n)[hidx]
        params = ref.PARAM_SETS[kind]
        first = [i for i, t in enumerate(types) if t != ref.ESD][0]
        per = ref.layer_placements(2, not full)
        for placement in ref.placements(types, 2, not full):
            if placement[first] != per[lead]:
                continue
            part.count("placement_vectors")
            for pl in placement:
                part.add("placement_kinds", ref.KIND_NAME[tuple(q for q, _ in pl)] + "/" + "".join("go"[m] for _, m in pl))
            for c in configs_for(types, parents, placement, params, None, full, full):
                buf.append(c)
            _flush(part, buf)
    elif kind == "cross":
        _, n, hidx, lead = u
        types, parents = hier(n)[hidx]
        first = [i for i, t in enumerate(types) if t != ref.ESD][0]
        per = ref.layer_placements(2)
        for p1 in ref.placements(types, 2):
            if p1[first] != per[lead]:
                continue
            for p2 in ref.placements(types, 2):
                part.count("placement_vectors")
                part.count("cross_vectors")
                buf.extend(configs_for(types, parents, p1, ref.CORE, p2))
                _flush(part, buf)
    elif kind == "subsets":
        # one layer, one instance of the complex parameter, every subset of omitted sub-values; one instance of every
        # simple parameter given / omitted
        _, ltype = u
        cx = "CP_UniqueRespIdTable"
        nsub = len(ref.sub_names(cx))
        for proto in ref.PROTOS:
            for mask in range(2 ** nsub):
                for simple_omitted in (False, True):
                    local = [[]]
                    for pidx, param in enumerate(ref.ALL):
                        inst: Dict[str, Any] = {"layer": 0, "param": param, "proto": proto, "tag": f"i0.{pidx}.{proto or 'G'}"}
                        if ref.is_complex(param):
                            inst["subs"] = [None if mask >> k & 1 else str(ref.instance_value(0, proto, pidx, k + 1)) for k in range(nsub)]
                        elif simple_omitted:
                            inst["value"] = None
                        else:
                            v = str(ref.instance_value(0, proto, pidx))
                            inst["value"] = f"CANFD TX_DL={v}" if ref.SIMPLE[param].get("text") else v
                        local[0].append(inst)
                    part.count("placement_vectors")
                    part.count("subset_vectors")
                    part.add("omitted_subvalue_sets", mask)
                    buf.append(case_of((ltype,), ((),), local, ref.ALL))
                    _flush(part, buf)
    _flush(part, buf, force=True)
    return part


def plan(quick: bool) -> Tuple[List[Tuple[Any, ...]], Dict[str, Any]]:
    bounds = {"core_layers": 3 if quick else 4, "all_layers": 2 if quick else 3, "cross_layers": 1 if quick else 2}
    units: List[Tuple[Any, ...]] = []
    nper = len(ref.layer_placements(2))
    for n in range(1, bounds["core_layers"] + 1):
        for hidx in range(len(hier(n))):
            units.extend(("core", n, hidx, lead, n <= FULL_LAYERS) for lead in range(len(ref.layer_placements(2, n > FULL_LAYERS))))
    for n in range(1, bounds["all_layers"] + 1):
        for hidx in range(len(hier(n))):
            units.extend(("all", n, hidx, lead, True) for lead in range(nper))
    for n in range(1, bounds["cross_layers"] + 1):
        for hidx in range(len(hier(n))):
            units.extend(("cross", n, hidx, lead) for lead in range(nper))
    units.extend(("subsets", t) for t in ref.TYPES if t != ref.ESD)
    return units, bounds


# ---------------------------------------------------------------------------------------------
# run / replay
# ---------------------------------------------------------------------------------------------
def run(ctx: Ctx) -> None:
    import odxtools.exceptions
    old = odxtools.exceptions.strict_mode
    odxtools.exceptions.strict_mode = True
    try:
        units, bounds = plan(ctx.quick)
        hs = {n: hier(n) for n in range(1, bounds["core_layers"] + 1)}
        tags = set()
        for n, hl in hs.items():
            for h in hl:
                tags |= ref.shape_tags(*h)
        ctx.bounds = {
            **bounds,
            "hierarchies_per_layer_count": {str(n): len(hl) for n, hl in hs.items()},
            "placement_vectors_per_layer_count": {str(n): sum(ref.n_placements(h[0], 2, n > FULL_LAYERS) for h in hl) for n, hl in hs.items()},
            "allowed_parent_types": {k: list(v) for k, v in ref.ALLOWED_PARENTS.items()},
            "placements_per_layer": [ref.KIND_NAME[k] for k in ref.KINDS],
            "instance_modes": ["value / all sub-values given", "value omitted / one sub-value omitted (rotating index)"],
            "document_orders": "hierarchies of <= 3 layers: generic before protocol-specific and the reverse for every vector with a "
                               "generic+P1 pair, PARENT-REFs as listed and reversed if a layer has several parents; 4 layers: generic "
                               "first, PARENT-REFs as listed, and the two instances of a generic+P1 pair are both given or both omitted "
                               "(9 instead of 11 placements per layer)",
            "parameters": {"core": list(ref.CORE), "all": list(ref.ALL)},
            "queries_per_layer": "comparam_refs; get_comparam(name, protocol) for name in parameters + 1 unknown, protocol in "
                                 "{None, 'P1', 'P2', Protocol P1, Protocol P2}; get_value / get_subvalue(all subs + 1 unknown) of every "
                                 "entry; every typed accessor x protocol in {None, P1, P2}",
            "batch": BATCH,
        }
        ctx.rule = ("every (hierarchy, placement vector, document order) within the bound is one evaluation; non-trivial = distinct "
                    "(hierarchy, layer, resolved view) triples with a non-empty view")
        ctx.assumptions = [
            "strict mode; databases are loaded from XML through Database.add_odx_file + refresh",
            "an omitted value is an EMPTY <SIMPLE-VALUE/> (the schema requires the element; odxtools' own writer emits it for a None "
            "sub-value); a COMPARAM-REF without any value element is outside the envelope (loader rejects it)",
            "PROTOCOL-SNREF is a name qualifier: P1 / P2 always name an existing PROTOCOL layer of the database (added unconnected "
            "if the hierarchy has fewer than two protocols) but need not be an ancestor of the layer carrying the COMPARAM-REF",
            "DON'T-CARE: which of two parents wins when neither inherits from the other (two protocols, two functional groups, "
            "functional group + unrelated protocol) -- any of the offered instances is accepted",
            "DON'T-CARE: get_comparam(name, P) when the generic instance is defined in a strictly closer layer than the P-specific one "
            "(either is accepted); get_comparam(name, None) with several instances of that name (any of them is accepted)",
            "DON'T-CARE: get_max_can_payload_size() when CP_CANFDTxMaxDataLength is not defined (8 / None is a convention); "
            "get_can_fd_baudrate() unless CP_UniqueRespIdTable and CP_CANFDTxMaxDataLength resolve too; only the value syntax "
            "'CANFD TX_DL=<n>' is generated",
            "lookups and accessors are judged on the view / instance the real code produced (the view itself is judged against the "
            "reference), so one root cause yields one finding key",
            "COMPLEX-PHYSICAL-DEFAULT-VALUE, nested complex parameters, ALLOW-MULTIPLE-VALUES lists and PROT-STACK-SNREF "
            "qualifiers are not generated",
        ]
        pmap(ctx, unit, units)
        c = ctx.counts
        ctx.sample(case_of((ref.PROT, ref.BV), ((), (0,)), ref.make_instances([((None, 0),), (("P1", 1),)], ref.CORE), ref.CORE))
        kinds = ctx.sets.get("placement_kinds", set())
        ctx.guard("all 11 per-layer placements (kind x given/omitted) were used", len(kinds) == len(ref.layer_placements(2)))
        ctx.guard("chains >= 3, diamonds, equal-priority and unrelated parents, shared-data parents all occur",
                  {"chain>=3", "diamond", "equal-priority-parents", "unrelated-mixed-parents", "shared-data-parent"} <= tags)
        ctx.guard("placement vectors enumerated == declared bound",
                  c.get("placement_vectors", 0) == expected_vectors(bounds))
        ctx.guard("views with inherited entries and views overriding an ancestor's instance were seen",
                  c.get("views_with_inherited_entries", 0) > 0 and c.get("views_with_overridden_ancestor_instances", 0) > 0)
        ctx.guard("both MUST and DON'T-CARE lookups occurred", c.get("lookups_dontcare", 0) > 0 and c.get("lookups", 0) > c.get("lookups_dontcare", 0))
        ctx.guard("typed accessors were compared with numbers", c.get("accessor_calls", 0) > 1000)
        ctx.guard("every subset of omitted sub-values was generated", len(ctx.sets.get("omitted_subvalue_sets", ())) == 8)
    finally:
        odxtools.exceptions.strict_mode = old


def expected_vectors(bounds: Dict[str, Any]) -> int:
    n = 0
    for name in ("core", "all"):
        for k in range(1, bounds[name + "_layers"] + 1):
            n += sum(ref.n_placements(h[0], 2, k > FULL_LAYERS) for h in hier(k))
    for k in range(1, bounds["cross_layers"] + 1):
        n += sum(ref.n_placements(h[0]) ** 2 for h in hier(k))
    n += 4 * 3 * 8 * 2
    return n


def replay(case: Any) -> List[Tuple[str, str]]:
    import odxtools.exceptions
    old = odxtools.exceptions.strict_mode
    odxtools.exceptions.strict_mode = True
    try:
        try:
            db = ec.load_batch([case])
        except Exception as e:  # noqa: BLE001
            return [(f"C15/load/raises-{type(e).__name__}", f"loading the database: {type(e).__name__}: {e}")]
        return check_hierarchy(db, "h0_", case["types"], [tuple(p) for p in case["parents"]], case["local"], case["params"])
    finally:
        odxtools.exceptions.strict_mode = old
