"""C15 -- communication parameters resolve to the most specific definition.

Bounded exhaustive exploration: ALL layer hierarchies ODX allows (odxmodel.refcomparam.hierarchies: chains, diamonds,
several protocols / functional groups, shared-data parents) with up to N layers  x  ALL placements of COMPARAM-REF
instances per layer {absent, generic, protocol P1, protocol P2, generic+P1} x per instance {value given, value omitted}
(complex parameter: {all sub-values given, one omitted}) x both document orders of a generic+P1 pair.  Every
configuration is written as ODX XML (odxmodel.emit_comparam: .odx-d + .odx-cs + .odx-c, several independent hierarchies
per database) and loaded through the real loader; then for EVERY layer

  view      layer.comparam_refs                         vs. refcomparam.views        (own instance, else inherited)
  lookup    layer.get_comparam(name, protocol=...)      vs. refcomparam.lookup       (protocol-specific before generic)
  values    instance.get_value() / get_subvalue(sub)    vs. given value, else the default of the parameter specification
  accessors get_can_receive_id / get_can_send_id / get_can_func_req_id / get_can_baudrate / get_can_fd_baudrate /
            get_max_can_payload_size / get_doip_* / get_tester_present_time (protocol in {None, P1, P2})
                                                        vs. the numeric content of the effective (sub-)value

Passes: "core" (one simple + one complex parameter at the same placement; all hierarchies up to the bound), "all" (all
eleven named parameters the accessors read, smaller bound), "cross" (simple and complex parameter placed independently,
small bound: the two parameters must not influence each other; and CP_CANFDTxMaxDataLength placed independently of
CP_CANFDBaudrate + CP_UniqueRespIdTable), "stack" (every instance with / without a PROT-STACK-SNREF -- alone and together
with PROTOCOL-SNREF; the protocol qualifier must survive), "nested" (specifications of the complex parameter whose first /
second sub-parameter is a nested COMPLEX-COMPARAM: the slots of the COMPLEX-VALUE must stay aligned with the sub-parameter
names), "subsets" (one layer, one instance, every subset of omitted sub-values, for every specification variant).

Given CP_CANFDTxMaxDataLength values alternate between CAN-FD and classic CAN with layer and qualifier, so definitions for
different protocols disagree; uses_can / uses_can_fd / get_can_fd_baudrate / get_max_can_payload_size are judged per
protocol query (refcomparam.can_fd_expectation).

Re-resolution phase ("refresh"): every configuration of a bounded set (hierarchies <= 2 layers with given / omitted
values, 3 layers without shared data with given values) is loaded with ONE CONTAINER PER LAYER, once with the parents'
containers added first and once with the children's first; then every single edit of a menu (per layer and qualifier:
remove / replace / add its COMPARAM-REFs; drop one PARENT-REF) is applied to the raw layer data, Database.refresh() is
called and ALL of the queries above are compared with the reference on the edited description and with a database freshly
loaded from the edited description (DON'T-CARE answers excepted); the edit is undone before the next one.

The oracle is three-valued where the property text is silent -- see odxmodel/refcomparam.py.  The lookup and accessor
oracles are evaluated on the view / on the instance the real code produced, so one root cause gives one finding key.
"""
from __future__ import annotations

import itertools
import warnings
from typing import Any, Dict, List, Optional, Sequence, Tuple

from mcx.core import Ctx, HarnessError, Part, digest, isolated, jdump, pmap
from odxmodel import emit_comparam as ec
from odxmodel import refcomparam as ref

PROPERTY = "C15"
LEVEL = "model_checking"

BATCH = 24
FULL_LAYERS = 3  # up to this many layers: mixed modes inside a generic+P1 pair, both document orders, both PARENT-REF orders
UNKNOWN_PARAM = "CP_NoSuchParameter"
UNKNOWN_SUB = "CP_NoSuchSubParameter"


# ---------------------------------------------------------------------------------------------
# checking ONE loaded hierarchy
# ---------------------------------------------------------------------------------------------
def _strip(name: Optional[str], prefix: str) -> Optional[str]:
    if name is None:
        return None
    return name[len(prefix):] if name.startswith(prefix) else "?" + name


def _tag(cp: Any) -> Optional[str]:
    d = getattr(cp, "description", None)
    t = getattr(d, "text", None)
    if not isinstance(t, str):
        return None
    t = t.strip()
    if t.startswith("<p>") and t.endswith("</p>"):
        t = t[3:-4]
    return t


def check_hierarchy(db: Any, prefix: str, types: Sequence[str], parents: Sequence[Sequence[int]],
                    local: Sequence[Sequence[Dict[str, Any]]], params: Sequence[str],
                    stats: Optional[Part] = None, variant: str = "flat",
                    record: Optional[List[Dict[str, Any]]] = None, rev: int = 0) -> List[Tuple[str, str]]:
    """All oracle comparisons for one hierarchy of a loaded database -> [(finding key, detail)].
    record (if given) receives per layer everything that was observed (for the differential comparison of a refreshed
    database with a freshly loaded one)."""
    out: List[Tuple[str, str]] = []
    ref.REVISION = rev  # the revision of the COMPARAM-SUBSET document whose defaults the database must show
    lnames = ref.layer_names(types, prefix)
    by_tag = ref.index_instances(local)
    want = ref.views(types, parents, local)
    anc = ref.ancestors(parents)
    proto_objs = {q: db.diag_layers[prefix + q] for q in ("P1", "P2")}

    def cnt(name: str, n: int = 1) -> None:
        if stats is not None:
            stats.count(name, n)

    for i, t in enumerate(types):
        layer = db.diag_layers[lnames[i]]
        where = f"layer {i} ({t})"
        o: Dict[str, Any] = {"view": [], "lookup": {}, "values": {}, "acc": {}}
        if record is not None:
            record.append(o)
        if t == ref.ESD:
            if list(getattr(layer, "comparam_refs", [])):
                out.append(("C15/view/shared-data-layer-has-parameters", where))
            continue
        # ---------------- view ----------------
        cnt("layer_views")
        observed: Dict[ref.Key, str] = {}
        cps: Dict[str, Any] = {}
        broken = False
        for cp in layer.comparam_refs:
            tag = _tag(cp)
            key = (ref.param_of_spec_id(cp.spec_ref.ref_id), _strip(cp.protocol_snref, prefix))
            if cp.short_name != ref.short_name(key[0]):
                out.append(("C15/view/short-name-differs-from-specification", f"{where}: {key} reports short name {cp.short_name!r}"))
            o["view"].append([key[0], key[1], tag, getattr(cp, "prot_stack_snref", None)])
            if tag is None or tag not in by_tag:
                out.append(("C15/view/unknown-instance", f"{where}: entry {key} carries no known marker ({tag!r})"))
                broken = True
                continue
            inst = by_tag[tag]
            if (inst["param"], inst["proto"]) != key:
                out.append(("C15/view/instance-under-wrong-key", f"{where}: instance {tag} reports key {key}"))
                broken = True
                continue
            if key in observed:
                out.append(("C15/view/duplicate-key", f"{where}: two entries for {key}: {observed[key]} and {tag}"))
                broken = True
                continue
            if getattr(cp, "prot_stack_snref", None) != inst.get("pstack"):
                out.append(("C15/view/prot-stack-qualifier-changed",
                            f"{where}: instance {tag} has PROT-STACK-SNREF {inst.get('pstack')!r}, loaded as {getattr(cp, 'prot_stack_snref', None)!r}"))
            if inst.get("pstack"):
                cnt("view_entries_with_prot_stack_qualifier")
                if inst["proto"]:
                    cnt("view_entries_with_both_qualifiers")
            observed[key] = tag
            cps[tag] = cp
        for key in sorted(set(observed) | set(want[i]), key=repr):
            adm = want[i].get(key, frozenset())
            obs = observed.get(key)
            if len(adm) > 1:
                cnt("view_entries_dontcare_between_unrelated_parents")
            if (obs is None and not adm) or obs in adm:
                continue
            mode = ref.classify_view_error(i, key, obs, adm, parents, by_tag)
            out.append((f"C15/view/{mode}", f"{where}: key {key}: comparam_refs has {obs}, admissible {sorted(adm)}"))
            broken = True
        if stats is not None and observed:
            inherited = sum(1 for tg in observed.values() if by_tag[tg]["layer"] != i)
            overridden = sum(1 for a in anc[i] for inst in local[a] if observed.get((inst["param"], inst["proto"])) not in (None, inst["tag"]))
            stats.add("nontrivial", digest([list(types), [list(p) for p in parents], i, sorted(observed.values())]))
            if inherited:
                cnt("views_with_inherited_entries")
            if overridden:
                cnt("views_with_overridden_ancestor_instances")
        if broken:
            continue  # the lookups below are judged relative to a sane view only
        # ---------------- lookup ----------------
        found: Dict[Tuple[str, Optional[str]], Optional[str]] = {}
        dontcare = set()  # (parameter, protocol) queries whose answer the property leaves open
        asked = list(dict.fromkeys(ref.short_name(x) for x in params))
        # + a name nobody has + a proper prefix of an existing name that is no name itself (both must give None)
        asked += [x for x in (UNKNOWN_PARAM, asked[0][:-2]) if x not in asked]
        have_specific = {(ref.short_name(k[0]), k[1]) for k in observed}
        for param in asked:
            for q, form in ((None, "none"), ("P1", "str"), ("P2", "str"), ("P1", "obj"), ("P2", "obj")):
                arg = None if q is None else (prefix + q if form == "str" else proto_objs[q])
                cnt("lookups")
                try:
                    with warnings.catch_warnings():
                        warnings.simplefilter("ignore")
                        got = layer.get_comparam(param, protocol=arg)
                except Exception as e:  # noqa: BLE001
                    out.append((f"C15/get_comparam/raises-{type(e).__name__}", f"{where}: get_comparam({param}, {q}/{form}): {e}"))
                    o["lookup"][f"{param}/{q}/{form}"] = "raises " + type(e).__name__
                    continue
                got_tag = None if got is None else _tag(got)
                adm, why = ref.lookup(observed, param, q, parents, by_tag)
                if len(adm) > 1:
                    cnt("lookups_dontcare")
                    dontcare.add((param, q))
                else:
                    o["lookup"][f"{param}/{q}/{form}"] = got_tag  # (DON'T-CARE answers are not compared differentially)
                if form == "str" or q is None:
                    found[(param, q)] = got_tag if (got is None or got_tag in by_tag) else "?"
                if got_tag in adm:
                    if q is not None and len(adm) == 1 and (param, q) in have_specific and (param, None) in have_specific:
                        cnt("lookups_specific_preferred_over_generic")
                    continue
                mode = "wrong-instance"
                gi = by_tag.get(got_tag) if got_tag else None
                if got is None:
                    mode = "none-although-defined"
                elif gi is None:
                    mode = "unknown-instance"
                elif ref.short_name(gi["param"]) != param:
                    mode = "name-only-starts-with-requested-name" if ref.short_name(gi["param"]).startswith(param) else "wrong-name"
                elif None in adm:
                    mode = "instance-although-undefined"
                elif q is not None and gi["proto"] is None and (param, q) in have_specific:
                    mode = "generic-returned-although-protocol-specific-exists"
                elif q is not None and gi["proto"] not in (None, q):
                    mode = "other-protocol-returned"
                if form == "obj":
                    # only reported separately if the string form of the same query was right
                    s = found.get((param, q))
                    if s not in adm:
                        continue
                    mode += "/protocol-object-argument"
                out.append((f"C15/get_comparam/{mode}",
                            f"{where}: get_comparam({param!r}, protocol={q}) -> {got_tag}, admissible {sorted(map(str, adm))} ({why}); view {sorted(observed.values())}"))
        # ---------------- values ----------------
        bad_reads = set()  # (instance tag, sub-parameter | None) whose get_value / get_subvalue is already reported
        for tag, cp in cps.items():
            inst = by_tag[tag]
            if ref.is_complex(inst["param"]):
                slot = {sub: k for k, sub in enumerate(ref.sub_names(inst["param"], variant))}
                for sub in ref.simple_sub_names(inst["param"], variant) + [UNKNOWN_SUB]:
                    cnt("value_reads")
                    exp = ref.effective_subvalue(inst, sub, variant)
                    omitted = sub != UNKNOWN_SUB and inst["subs"][slot[sub]] is None
                    if variant != "flat":
                        cnt("subvalue_reads_on_nested_specification")
                    try:
                        with warnings.catch_warnings():
                            warnings.simplefilter("ignore")
                            got = cp.get_subvalue(sub)
                        o["values"][f"{tag}/{sub}"] = got
                    except Exception as e:  # noqa: BLE001
                        o["values"][f"{tag}/{sub}"] = "raises " + type(e).__name__
                        out.append((f"C15/get_subvalue/raises-{type(e).__name__}/{'omitted' if omitted else 'given'}",
                                    f"{where}: {tag}.get_subvalue({sub}): {e}"))
                        bad_reads.add((tag, sub))
                        continue
                    if got != exp:
                        mode = "unknown-sub-parameter" if sub == UNKNOWN_SUB else ("default-not-used" if omitted else "given-value-not-returned")
                        out.append((f"C15/get_subvalue/{mode}", f"{where}: {tag}.get_subvalue({sub}) = {got!r}, expected {exp!r} (sub-values {inst['subs']})"))
                        bad_reads.add((tag, sub))
                    elif omitted:
                        cnt("defaults_used")
            else:
                cnt("value_reads")
                exp = ref.effective_value(inst)
                omitted = inst.get("value") is None
                try:
                    got = cp.get_value()
                    o["values"][tag] = got
                except Exception as e:  # noqa: BLE001
                    o["values"][tag] = "raises " + type(e).__name__
                    out.append((f"C15/get_value/raises-{type(e).__name__}/{'omitted' if omitted else 'given'}", f"{where}: {tag}.get_value(): {e}"))
                    bad_reads.add((tag, None))
                    continue
                if got != exp:
                    out.append((f"C15/get_value/{'default-not-used' if omitted else 'given-value-not-returned'}",
                                f"{where}: {tag}.get_value() = {got!r}, expected {exp!r}"))
                    bad_reads.add((tag, None))
                elif omitted:
                    cnt("defaults_used")
        # ---------------- typed accessors ----------------
        for acc, (param, sub, conv) in ref.ACCESSORS.items():
            if param not in params or acc == "get_can_fd_baudrate":
                continue
            fn = getattr(layer, acc)
            for q in ref.PROTOS:
                base_tag = found.get((param, q), "?")
                if base_tag == "?":
                    continue
                inst = None if base_tag is None else by_tag[base_tag]
                if (base_tag, sub) in bad_reads:
                    cnt("accessor_calls_skipped_value_read_already_reported")
                    continue  # the (sub-)value read underneath is already reported: one root cause, one key
                kind, exp = ref.accessor_expectation(acc, inst, variant)
                omitted = False
                if inst is not None:
                    if sub:
                        slots = ref.sub_names(inst["param"], variant)  # (a namesake specification may lack the sub-parameter)
                        omitted = sub in slots and inst["subs"][slots.index(sub)] is None
                    else:
                        omitted = inst.get("value") is None
                if kind == "dontcare":
                    cnt("accessor_calls_dontcare")
                    continue
                cnt("accessor_calls")
                try:
                    with warnings.catch_warnings():
                        warnings.simplefilter("ignore")
                        got = fn(protocol=None if q is None else prefix + q)
                    if (param, q) not in dontcare:
                        o["acc"][f"{acc}/{q}"] = got
                except Exception as e:  # noqa: BLE001
                    o["acc"][f"{acc}/{q}"] = "raises " + type(e).__name__
                    if exp == ref.NAN:
                        cnt("accessor_refused_malformed_value")
                        continue  # a value without numeric content: refusing it (any exception) or None are both fine
                    how = "malformed-value" if (inst or {}).get("malformed") else "omitted-value" if omitted else "given-value"
                    out.append((f"C15/accessor/{acc}/raises-{type(e).__name__}/{how}",
                                f"{where}: {acc}(protocol={q}) on instance {base_tag} ({_show(inst)}): {type(e).__name__}: {e}"))
                    continue
                if exp == ref.NAN:
                    if got is None:
                        cnt("accessor_refused_malformed_value")
                    else:
                        out.append((f"C15/accessor/{acc}/number-from-malformed-value",
                                    f"{where}: {acc}(protocol={q}) = {got!r} although the value has no numeric content ({_show(inst)})"))
                    continue
                if got == exp and type(got) is type(exp):
                    if exp is not None:
                        cnt("accessor_numbers_confirmed")
                    if inst is not None and inst.get("malformed"):
                        cnt("accessor_documented_fallback_for_malformed_value")
                    continue
                if exp is None:
                    mode = "number-although-parameter-undefined"
                elif omitted and (got is None or (acc == "get_max_can_payload_size" and got == 8)):
                    mode = "default-ignored"
                elif got is None:
                    mode = "none-although-defined"
                elif got == exp:
                    mode = "wrong-type"
                else:
                    mode = "wrong-number"
                out.append((f"C15/accessor/{acc}/{mode}",
                            f"{where}: {acc}(protocol={q}) = {got!r}, expected {exp!r} from instance {base_tag} ({_show(inst)})"))
        # ---------------- the CAN / CAN-FD gate, per protocol ----------------
        gate = ("CP_UniqueRespIdTable", "CP_CANFDTxMaxDataLength", "CP_CANFDBaudrate")
        if all(g in params for g in gate):
            for q in ref.PROTOS:
                tg = [found.get((g, q), "?") for g in gate]
                if "?" in tg:
                    continue
                if (tg[0], "CP_CanPhysReqId") in bad_reads or (tg[1], None) in bad_reads or (tg[2], None) in bad_reads:
                    cnt("accessor_calls_skipped_value_read_already_reported")
                    continue
                insts = [None if x is None else by_tag[x] for x in tg]
                exp_all = ref.can_fd_expectation(insts[0], insts[1], insts[2], variant)
                omitted = any(i is not None and i.get("value") is None for i in insts[1:])
                if insts[1] is not None:
                    cnt("can_fd_gate_" + ("fd" if exp_all["uses_can_fd"] else "classic" if exp_all["uses_can"] else "no_can"))
                else:
                    cnt("max_payload_without_parameter_" + ("can" if exp_all["uses_can"] else "not_can"))
                for acc in exp_all:
                    exp = exp_all[acc]
                    cnt("accessor_calls")
                    try:
                        with warnings.catch_warnings():
                            warnings.simplefilter("ignore")
                            got = getattr(layer, acc)(protocol=None if q is None else prefix + q)
                        if not any((g, q) in dontcare for g in gate):
                            o["acc"][f"{acc}/{q}"] = got
                    except Exception as e:  # noqa: BLE001
                        o["acc"][f"{acc}/{q}"] = "raises " + type(e).__name__
                        if exp == ref.NAN:
                            cnt("accessor_refused_malformed_value")
                            continue
                        how = "malformed-value" if any((i or {}).get("malformed") for i in insts) else "omitted-value" if omitted else "given-value"
                        out.append((f"C15/accessor/{acc}/raises-{type(e).__name__}/{how}",
                                    f"{where}: {acc}(protocol={q}): {type(e).__name__}: {e}; resolved {tg}"))
                        continue
                    if exp == ref.NAN:
                        if got is None:
                            cnt("accessor_refused_malformed_value")
                        else:
                            out.append((f"C15/accessor/{acc}/number-from-malformed-value",
                                        f"{where}: {acc}(protocol={q}) = {got!r} although CP_CANFDBaudrate has no numeric content ({_show(insts[2])})"))
                        continue
                    if got == exp and type(got) is type(exp):
                        if exp not in (None, False):
                            cnt("accessor_numbers_confirmed")
                        continue
                    if acc == "get_max_can_payload_size":
                        mode = "without-parameter-not-8-on-can" if exp == 8 else "without-parameter-number-although-not-can"
                    elif acc != "get_can_fd_baudrate":
                        mode = "wrong-answer-for-protocol"
                    elif exp is None:
                        mode = "number-although-can-fd-not-in-use-for-protocol"
                    elif got is None:
                        mode = "default-ignored" if omitted else "none-although-can-fd-in-use-for-protocol"
                    else:
                        mode = "wrong-number"
                    out.append((f"C15/accessor/{acc}/{mode}",
                                f"{where}: {acc}(protocol={q}) = {got!r}, expected {exp!r}; resolved for this query: table {tg[0]}, "
                                f"frame size {tg[1]} ({_show(insts[1])}), baud rate {tg[2]} ({_show(insts[2])})"))
    return out


def _show(inst: Optional[Dict[str, Any]]) -> str:
    if inst is None:
        return "none"
    return f"value={inst.get('value')!r}" if "subs" not in inst else f"sub-values={inst['subs']}"


# ---------------------------------------------------------------------------------------------
# units
# ---------------------------------------------------------------------------------------------
def case_of(types: Sequence[str], parents: Sequence[Sequence[int]], local: Sequence[Sequence[Dict[str, Any]]],
            params: Sequence[str], reverse: bool = False, variant: str = "flat") -> Dict[str, Any]:
    return {"types": list(types), "parents": [list(p) for p in parents], "local": [list(l) for l in local],
            "params": list(params), "reverse": bool(reverse), "variant": variant}


def run_batch(part: Part, batch: List[Dict[str, Any]]) -> None:
    import odxtools.exceptions
    odxtools.exceptions.strict_mode = True
    try:
        db = ec.load_batch(batch)
    except Exception as e:  # noqa: BLE001  -- find the culprit(s) by loading the elements one by one
        if len(batch) == 1:
            raw_violation(part, f"C15/load/raises-{type(e).__name__}", batch[0], f"loading the database: {type(e).__name__}: {e}")
            return
        for c in batch:
            run_batch(part, [c])
        return
    for k, c in enumerate(batch):
        part.count("evaluations")
        for key, detail in check_hierarchy(db, f"h{k}_", c["types"], c["parents"], c["local"], c["params"], part, c.get("variant", "flat"),
                                           None, int(c.get("subset_rev", 0))):
            raw_violation(part, key, c, detail)
    part.count("databases")


RAW = "RAW|"  # prefix of findings as the units see them (the master re-executes them before they are reported)
_UNIT: List[Any] = [None]


def raw_violation(part: Part, key: str, case: Any, detail: str) -> None:
    """Record what a unit saw.  A unit evaluates many descriptions in one process, so what it sees may depend on what it
    loaded before (state shared between objects); run() re-executes the smallest cases of every key in fresh processes and
    reports a finding only with a case that reproduces there."""
    part.violation(f"{RAW}{key}|{jdump(_UNIT[0])}", case, detail)


def verify_raw_findings(ctx: Ctx) -> None:
    groups: Dict[str, List[Tuple[int, Any, str, Any]]] = {}
    for k in [k for k in ctx.viol if k.startswith(RAW)]:
        size, case, detail = ctx.viol.pop(k)
        _, key, unit_json = k.split("|", 2)
        groups.setdefault(key, []).append((size, case, detail, unit_json))
    for key in sorted(groups):
        cands = sorted(groups[key], key=lambda x: (x[0], jdump(x[1])))
        done = False
        for size, case, detail, _ in cands[:VERIFY_CASES]:
            ctx.count("isolated_verifications")
            got = dict(isolated(replay, case))
            if key in got:
                ctx.violation(key, case, got[key])
                done = True
                break
        if done:
            continue
        # not reproducible alone: the answer depended on what the process had loaded before.  The unit as a whole is the
        # reproducible witness (it starts in a pristine process).
        import json
        ucase = {"unit": json.loads(cands[0][3])}
        ctx.count("isolated_verifications")
        got = dict(isolated(replay, ucase))
        k2 = key + UNIT_SUFFIX
        if k2 in got:
            ctx.violation(k2, ucase, got[k2] + "  [not reproducible from the single description: state shared between objects of one process]")
        else:
            ctx.violation(key, cands[0][1], cands[0][2])  # (the framework will say that it does not reproduce)


VERIFY_CASES = 8
UNIT_SUFFIX = "/only-after-other-descriptions-in-the-same-process"


def _flush(part: Part, buf: List[Dict[str, Any]], force: bool = False) -> None:
    while len(buf) >= BATCH or (force and buf):
        run_batch(part, buf[:BATCH])
        del buf[:BATCH]


def configs_for(types: Sequence[str], parents: Sequence[Sequence[int]], placement: Any, params: Sequence[str],
                placement2: Any = None, reversals: bool = False, orders: bool = True, params2: Any = None,
                variant: str = "flat") -> List[Dict[str, Any]]:
    """The database elements of one placement vector: both document orders of generic+P1 pairs (if there is such a pair)
    and, if asked for, both orders of the PARENT-REFs of layers with several parents."""
    out = []
    pairs = orders and (any(len(pl) > 1 for pl in placement) or (placement2 is not None and any(len(pl) > 1 for pl in placement2)))
    multi = reversals and any(len(p) > 1 for p in parents)
    for pfirst in ((False, True) if pairs else (False,)):
        local = ref.make_instances(placement, params, pfirst, placement2, params2, variant)
        for rev in ((False, True) if multi else (False,)):
            out.append(case_of(types, parents, local, params, rev, variant))
    return out


# ---------------------------------------------------------------------------------------------
# re-resolution: edit the loaded object graph, Database.refresh(), compare with the reference on the EDITED description
# and with a database freshly loaded from the edited description
# ---------------------------------------------------------------------------------------------
def edit_menu(case: Dict[str, Any]) -> List[List[Any]]:
    """Every single edit of the menu: for every layer that can carry parameters and every qualifier {generic, P1, P2}:
    remove the layer's COMPARAM-REFs with that qualifier / replace them by new ones with other values (if it has some) or
    add some (if it has none) -- for all parameters of the case at once, as they were placed; drop one PARENT-REF."""
    out: List[List[Any]] = []
    for i, t in enumerate(case["types"]):
        if t == ref.ESD:
            continue
        have = {inst["proto"] for inst in case["local"][i]}
        for q in ref.PROTOS:
            if q in have:
                out.append(["remove-instances", i, q])
                out.append(["replace-instances", i, q])
            else:
                out.append(["add-instances", i, q])
    for i, ps in enumerate(case["parents"]):
        for p_ in ps:
            out.append(["remove-parent-ref", i, p_])
    if any(x.get("value", "") is None or None in x.get("subs", []) for l in case["local"] for x in l):
        # (only defaults change, so only configurations with an omitted value can tell)
        out.append(["exchange-subset", 1])
    return out


def edited_case(case: Dict[str, Any], edit: List[Any]) -> Dict[str, Any]:
    c = dict(case, local=[list(l) for l in case["local"]], parents=[list(p_) for p_ in case["parents"]])
    variant = case.get("variant", "flat")
    if edit[0] == "remove-instances":
        c["local"][edit[1]] = [x for x in c["local"][edit[1]] if x["proto"] != edit[2]]
    elif edit[0] == "replace-instances":
        c["local"][edit[1]] = [(x if x["proto"] != edit[2] else
                                dict(ref.make_instance(edit[1], x["param"], edit[2], 0, variant, 1), **({"pstack": x["pstack"]} if x.get("pstack") else {})))
                               for x in c["local"][edit[1]]]
    elif edit[0] == "add-instances":
        c["local"][edit[1]] = c["local"][edit[1]] + [ref.make_instance(edit[1], p_, edit[2], 0, variant) for p_ in case["params"]]
    elif edit[0] == "remove-parent-ref":
        c["parents"][edit[1]].remove(edit[2])
    elif edit[0] == "exchange-subset":
        c["subset_rev"] = edit[1]
    return c


def apply_edit(db: Any, case: Dict[str, Any], ecase: Dict[str, Any], edit: List[Any], prefix: str = "h0_") -> List[Tuple[Any, str, Any]]:
    """Perform the edit on the loaded object graph (raw layer data only, new COMPARAM-REFs come from the public
    ComparamInstance.from_et); -> undo list [(object, attribute, old value)]."""
    from xml.etree import ElementTree
    from odxtools.comparaminstance import ComparamInstance
    undo: List[Tuple[Any, str, Any]] = []
    if edit[0] == "exchange-subset":
        # the COMPARAM-SUBSET document is replaced by a revision of it with other PHYSICAL-DEFAULT-VALUEs (public API only:
        # remove the category from the database's list, add_odx_file() of the new document)
        import os
        old = db.comparam_subsets[ref.SUBSET]
        db.comparam_subsets.remove(old)
        path = os.path.join(ec.scratch_dir(), "revised.odx-cs")
        with open(path, "w", encoding="utf-8") as f:
            f.write(ec.subset_xml(case.get("variant", "flat"), edit[1]))
        try:
            db.add_odx_file(path)
        finally:
            os.unlink(path)
        new = db.comparam_subsets[ref.SUBSET]
        if new is old:
            raise HarnessError("the revised COMPARAM-SUBSET was not added")

        def restore() -> None:
            db.comparam_subsets.remove(new)
            db.comparam_subsets.append(old)
        undo.append((restore, "", None))
        return undo
    lnames = ref.layer_names(case["types"], prefix)
    raw = db.diag_layers[lnames[edit[1]]].diag_layer_raw
    if edit[0] == "remove-parent-ref":
        hit = [pr for pr in raw.parent_refs if pr.layer_ref.ref_id == lnames[edit[2]]]
        if len(hit) != 1:
            raise HarnessError(f"PARENT-REF {edit} not found")
        undo.append((raw, "parent_refs", raw.parent_refs))
        raw.parent_refs = [pr for pr in raw.parent_refs if pr is not hit[0]]
        return undo
    old = list(raw.comparam_refs)
    by_tag = {_tag(cp): cp for cp in old}
    new = []
    for inst in ecase["local"][edit[1]]:
        cp = by_tag.get(inst["tag"])
        if cp is None:
            cp = ComparamInstance.from_et(ElementTree.fromstring(ec.comparam_ref_xml(inst, prefix)), raw.odx_id.doc_fragments)
        new.append(cp)
    undo.append((raw, "comparam_refs", raw.comparam_refs))
    raw.comparam_refs = new
    return undo


def refresh_problems(case: Dict[str, Any], children_first: bool, part: Optional[Part]) -> List[Tuple[str, str]]:
    """Load `case` with one container per layer (children's containers before / after their parents'), judge it, then for
    every edit of the menu in turn: apply it, Database.refresh(), judge all layers against the reference on the edited
    case, undo it.  Finally compare what every refreshed database showed with a database freshly loaded from the edited
    case.  -> [(key, detail)]"""
    import odxtools.exceptions
    odxtools.exceptions.strict_mode = True
    out: List[Tuple[str, str]] = []
    variant = case.get("variant", "flat")
    how = "children's containers first" if children_first else "parents' containers first"
    try:
        db = ec.load_files(ec.split_files(case, children_first))
    except Exception as e:  # noqa: BLE001
        return [(f"C15/load/raises-{type(e).__name__}/one-container-per-layer", f"{how}: {type(e).__name__}: {e}")]
    for key, detail in check_hierarchy(db, "h0_", case["types"], case["parents"], case["local"], case["params"], part, variant):
        out.append((key + "/one-container-per-layer", f"({how}) {detail}"))
    if part is not None:
        part.count("evaluations")
        part.count("refresh_cases")
    seen: List[Tuple[List[Any], Dict[str, Any], List[Dict[str, Any]]]] = []
    for edit in edit_menu(case):
        ecase = edited_case(case, edit)
        undo = apply_edit(db, case, ecase, edit)
        tagk = f"C15/refresh/{edit[0]}/"
        try:
            db.refresh()
        except Exception as e:  # noqa: BLE001
            out.append((tagk + f"raises-{type(e).__name__}", f"({how}) after {edit}: refresh(): {type(e).__name__}: {e}"))
        else:
            obs: List[Dict[str, Any]] = []
            probs = check_hierarchy(db, "h0_", ecase["types"], ecase["parents"], ecase["local"], ecase["params"], None, variant, obs,
                                    int(ecase.get("subset_rev", 0)))
            for key, detail in probs:
                out.append((tagk + "/".join(key.split("/")[1:3]), f"({how}) after {edit} and refresh(): {detail}"))
            if not probs:
                seen.append((edit, ecase, obs))
            if part is not None:
                part.count("evaluations")
                part.count("refresh_evaluations")
                part.add("refresh_edit_kinds", edit[0])
        for obj, attr, oldv in reversed(undo):
            if callable(obj):
                obj()
            else:
                setattr(obj, attr, oldv)
    # differential oracle: a refreshed database shows what a database freshly loaded from the edited description shows
    seen.sort(key=lambda x: int(x[1].get("subset_rev", 0)))  # (one COMPARAM-SUBSET revision per freshly loaded database)
    cuts = [0] + [j for j in range(1, len(seen)) if seen[j][1].get("subset_rev", 0) != seen[j - 1][1].get("subset_rev", 0)] + [len(seen)]
    chunks = [seen[lo2:lo2 + BATCH] for a_, b_ in zip(cuts, cuts[1:]) for lo2 in range(a_, b_, BATCH)]
    for chunk in chunks:
        try:
            fdb = ec.load_batch([e for _, e, _ in chunk])
        except Exception:  # noqa: BLE001 -- the main phase judges loading
            continue
        for k, (edit, ecase, obs) in enumerate(chunk):
            fresh: List[Dict[str, Any]] = []
            check_hierarchy(fdb, f"h{k}_", ecase["types"], ecase["parents"], ecase["local"], ecase["params"], None, variant, fresh,
                            int(ecase.get("subset_rev", 0)))
            if part is not None:
                part.count("refresh_differential_comparisons")
            for i, (a, b) in enumerate(zip(obs, fresh)):
                a = dict(a, view=sorted(a["view"], key=repr))
                b = dict(b, view=sorted(b["view"], key=repr))
                if a != b:
                    what = next(k_ for k_ in a if a[k_] != b[k_])
                    diff = a[what] if what == "view" else {k_: (v, b[what].get(k_)) for k_, v in a[what].items() if b[what].get(k_) != v}
                    out.append((f"C15/refresh/{edit[0]}/differs-from-fresh-load/{what}",
                                f"({how}) after {edit} and refresh() layer {i} ({ecase['types'][i]}) shows {str(diff)[:300]} "
                                f"(refreshed, fresh) -- a database loaded from the edited description shows {str(b[what])[:200] if what == 'view' else 'the second'}"))
                    break
    return out


def refresh_unit(u: Tuple[Any, ...]) -> Part:
    _, n, hidx, modes, orders = u
    part = Part()
    types, parents = hier(n)[hidx]
    for placement in ref.placements(types, modes):
        part.count("refresh_vectors")
        local = ref.make_instances(placement, ref.CORE)
        for children_first in orders:
            case = dict(case_of(types, parents, local, ref.CORE), refresh={"children_first": children_first})
            done = set()
            for key, detail in refresh_problems(case, children_first, part):
                if key not in done:
                    done.add(key)
                    raw_violation(part, key, case, detail)
    return part


# ---------------------------------------------------------------------------------------------
# sequences: two DIFFERENT configurations loaded one after the other in ONE process
# ---------------------------------------------------------------------------------------------
def _observe_alone(case: Dict[str, Any]) -> Tuple[List[Tuple[str, str]], List[Dict[str, Any]]]:
    import odxtools.exceptions
    odxtools.exceptions.strict_mode = True
    rec: List[Dict[str, Any]] = []
    db = ec.load_batch([case])
    probs = check_hierarchy(db, "h0_", case["types"], case["parents"], case["local"], case["params"], None, case.get("variant", "flat"), rec)
    return probs, rec


def _sequence_run(first: Dict[str, Any], second: Dict[str, Any]) -> Tuple[List[Tuple[str, str]], List[Dict[str, Any]]]:
    import odxtools.exceptions
    odxtools.exceptions.strict_mode = True
    db1 = ec.load_batch([first])
    for layer in db1.diag_layers:  # (the first database is used, not only loaded)
        for cp in getattr(layer, "comparam_refs", []):
            layer.get_comparam(cp.short_name)
    return _observe_alone(second)


def sequence_problems(first: Dict[str, Any], second: Dict[str, Any], part: Optional[Part],
                      fresh: Optional[List[Dict[str, Any]]] = None) -> List[Tuple[str, str]]:
    """Load `first`, then `second` (two Database objects, one process -- a child forked for this pair), judge `second`
    against the reference and against what `second` shows in a process that has loaded nothing else."""
    probs, rec = isolated(_sequence_run, first, second)
    out = [("C15/sequence/" + "/".join(key.split("/")[1:3]), f"after another database was loaded in the same process: {detail}")
           for key, detail in probs]
    if not probs:
        if fresh is None:
            fresh = isolated(_observe_alone, second)[1]
        if part is not None:
            part.count("sequence_differential_comparisons")
        for i, (a, b) in enumerate(zip(rec, fresh)):
            a = dict(a, view=sorted(a["view"], key=repr))
            b = dict(b, view=sorted(b["view"], key=repr))
            if a != b:
                what = next(k_ for k_ in a if a[k_] != b[k_])
                out.append((f"C15/sequence/differs-from-fresh-process/{what}",
                            f"layer {i} shows {str(a[what])[:250]} after another database was loaded, {str(b[what])[:250]} in a fresh process"))
                break
    return out


def sequence_configs(n: int) -> List[Dict[str, Any]]:
    """The configurations the pairs are drawn from: 1 layer: PROTOCOL with every placement; 2 layers: PROTOCOL <- BASE-VARIANT
    with every combination of kinds (values given)."""
    out = []
    if n == 1:
        for pl in ref.placements((ref.PROT,), 2):
            out.append(case_of((ref.PROT,), ((),), ref.make_instances(pl, ref.CORE), ref.CORE))
    else:
        for pl in ref.placements((ref.PROT, ref.BV), (ref.M_GIVEN,)):
            out.append(case_of((ref.PROT, ref.BV), ((), (0,)), ref.make_instances(pl, ref.CORE), ref.CORE))
    return out


def sequence_unit(u: Tuple[Any, ...]) -> Part:
    _, n, first_index = u
    part = Part()
    cfgs = sequence_configs(n)
    a = cfgs[first_index]
    for j, b in enumerate(cfgs):
        if j == first_index:
            continue
        part.count("evaluations")
        part.count("sequence_pairs")
        for key, detail in sequence_problems(a, b, part):
            raw_violation(part, key, {"sequence": [a, b]}, detail)
    return part


_H: Dict[int, List[ref.Hierarchy]] = {}


def hier(n: int) -> List[ref.Hierarchy]:
    if n not in _H:
        _H[n] = ref.hierarchies(n)
    return _H[n]


MODE_LETTER = "goGO"  # given, omitted, given + PROT-STACK-SNREF, omitted + PROT-STACK-SNREF
GATE = ("CP_UniqueRespIdTable", "CP_CANFDTxMaxDataLength", "CP_CANFDBaudrate")
CROSS_SETS = {
    # name: (parameters, the ones placed by the second vector)
    "core": (ref.CORE, ("CP_UniqueRespIdTable",)),
    "fd": (GATE, ("CP_CANFDTxMaxDataLength",)),
    "namesake": (ref.NAMESAKE_SET, ("CP_CanFuncReqId@B", "CP_UniqueRespIdTable@B")),
    "prefix": (ref.PREFIX_SET, ("CP_CanFuncReqId_Ecu",)),
}


def unit(u: Tuple[Any, ...]) -> Part:
    kind = u[0]
    _UNIT[0] = list(u)
    if kind == "refresh":
        return refresh_unit(u)
    if kind == "sequence":
        return sequence_unit(u)
    part = Part()
    buf: List[Dict[str, Any]] = []
    if kind == "aligned":
        # every parameter of the set at the same placement vector
        _, pset, n, hidx, lead, full, variant, modes = u
        types, parents = hier(n)[hidx]
        params = ref.PARAM_SETS[pset]
        first = [i for i, t in enumerate(types) if t != ref.ESD][0]
        per = ref.layer_placements(modes, not full)
        for placement in ref.placements(types, modes, not full):
            if placement[first] != per[lead]:
                continue
            part.count("placement_vectors")
            part.count(f"vectors_{pset}_{variant}" + ("" if modes == 2 else "_stack"))
            for pl in placement:
                part.add("placement_kinds", ref.KIND_NAME[tuple(q for q, _ in pl)] + "/" + "".join(MODE_LETTER[m] for _, m in pl))
            buf.extend(configs_for(types, parents, placement, params, None, full, full, None, variant))
            _flush(part, buf)
    elif kind == "cross":
        _, n, hidx, lead, cset, modes, uniform = u
        params, params2 = CROSS_SETS[cset]
        types, parents = hier(n)[hidx]
        first = [i for i, t in enumerate(types) if t != ref.ESD][0]
        per = ref.layer_placements(modes, uniform)
        for p1 in ref.placements(types, modes, uniform):
            if p1[first] != per[lead]:
                continue
            for p2 in ref.placements(types, modes, uniform):
                part.count("placement_vectors")
                part.count(f"cross_vectors_{cset}")
                buf.extend(configs_for(types, parents, p1, params, p2, False, True, params2))
                _flush(part, buf)
    elif kind == "subsets":
        # one layer, one instance of the complex parameter, every subset of omitted slots; one instance of every simple
        # parameter given / omitted
        _, ltype, variant = u
        cx = "CP_UniqueRespIdTable"
        subs = ref.complex_subs(cx, variant)
        for proto in ref.PROTOS:
            for mask in range(2 ** len(subs)):
                for simple_omitted in (False, True):
                    local: List[List[Dict[str, Any]]] = [[]]
                    for pidx, param in enumerate(ref.BASE):
                        inst: Dict[str, Any] = {"layer": 0, "param": param, "proto": proto, "tag": f"i0.{pidx}.{proto or 'G'}"}
                        if ref.is_complex(param):
                            slots = ref.complex_values(0, proto, pidx, subs, None)
                            for k in range(len(subs)):
                                if mask >> k & 1:
                                    if isinstance(slots[k], list):
                                        slots[k][0] = None
                                    else:
                                        slots[k] = None
                            inst["subs"] = slots
                        else:
                            inst["value"] = None if simple_omitted else ref.simple_text(param, 0, proto, pidx)
                        local[0].append(inst)
                    part.count("placement_vectors")
                    part.count("subset_vectors")
                    part.add("omitted_subvalue_sets", (variant, mask))
                    buf.append(case_of((ltype,), ((),), local, ref.BASE, False, variant))
                    _flush(part, buf)
    elif kind == "mixed4":
        # 4 layers, a layer reachable over parents of DIFFERENT layer types that are not each other's ancestors (e.g. the
        # diamond BV <- {P1, P2, FG}, FG <- P1): kinds {absent, generic, P1}, values given
        _, hidx = u
        types, parents = hier(4)[hidx]
        for placement in ref.placements(types, (ref.M_GIVEN,)):
            if any(tuple(q for q, _ in pl) not in MIXED4_KINDS for pl in placement):
                continue
            part.count("placement_vectors")
            part.count("vectors_mixed_priority_4_layers")
            buf.extend(configs_for(types, parents, placement, ref.CORE, None, False, False))
            _flush(part, buf)
    elif kind == "big":
        # very large integers (not representable as a double / 2**64-1) in every integer-typed parameter, explicit and as
        # the default of the specification (a COMPARAM-SUBSET revision with these defaults); the two times keep small values
        _, ltype = u
        for proto in ref.PROTOS:
            for rev, big in [(0, ref.BIG_VALUES[0]), (0, ref.BIG_VALUES[1]), (100, None), (101, None)]:
                insts: List[Dict[str, Any]] = []
                for param in ref.BASE:
                    timed = (not ref.is_complex(param)) and ref.SIMPLE[param]["conv"] == "us"
                    inst = ref.make_instance(0, param, proto, ref.M_GIVEN if (big is not None or timed) else ref.M_OMIT)
                    if ref.is_complex(param):
                        inst["subs"] = [None if big is None else str(big)] * len(inst["subs"])
                    elif big is not None and not timed:
                        inst["value"] = f"CANFD TX_DL={big}" if ref.SIMPLE[param].get("text") else str(big)
                    insts.append(inst)
                part.count("placement_vectors")
                part.count("big_value_configurations")
                run_batch(part, [dict(case_of((ltype,), ((),), [insts], ref.BASE), subset_rev=rev)])
    elif kind == "situations":
        # one layer; every accessor's parameter absent / default only / explicit / malformed, the response-id table absent or
        # of every flavour (CAN + DoIP, CAN only, DoIP only), frame-size and baud-rate parameter varied independently
        _, ltype, variant, tables = u
        table, frame, baud = GATE
        others = [x for x in ref.BASE if x not in GATE]
        if True:
            for with_table in tables:
                for proto in ref.PROTOS:
                    for fs, bs, os_ in itertools.product(FRAME_SITUATIONS, SIMPLE_SITUATIONS, SIMPLE_SITUATIONS):
                        insts: List[Dict[str, Any]] = []
                        if with_table:
                            insts.append(ref.make_instance(0, table, proto, 0, variant))
                            if with_table == "zero":  # every identifier / address is 0 (a number, not "nothing")
                                insts[-1]["subs"] = ["0"] * len(insts[-1]["subs"])
                        for param, sit in [(frame, fs), (baud, bs)] + [(x, os_) for x in others]:
                            if sit == "absent":
                                continue
                            inst = ref.make_instance(0, param, proto, ref.M_OMIT if sit == "default" else ref.M_GIVEN, variant)
                            if sit == "zero":
                                inst["value"] = "CANFD TX_DL=0" if param == frame else "0"
                            elif sit not in ("default", "given"):
                                inst["value"] = sit if param == frame else MALFORMED_NUMBER
                                inst["malformed"] = True
                            insts.append(inst)
                        part.count("placement_vectors")
                        part.count("situation_vectors")
                        part.add("situations", (fs, bs, os_, variant, with_table))
                        buf.append(case_of((ltype,), ((),), [insts], ref.BASE, False, variant))
                        _flush(part, buf)
            _flush(part, buf, force=True)  # (one subset variant per database)
    _flush(part, buf, force=True)
    return part


# situations of a simple parameter / of CP_CANFDTxMaxDataLength (the strings are malformed values written verbatim)
SIMPLE_SITUATIONS = ("absent", "default", "given", "zero", "malformed")
MALFORMED_NUMBER = "12ab"
FRAME_SITUATIONS = ("absent", "default", "given", "zero", "CANFD TX_DL = 48", "no frame size here", "CANFD TX_DL=unknown")
SITUATION_LAYERS = (ref.PROT, ref.BV)
MIXED4_KINDS = ((), (None,), ("P1",))


def mixed_priority_hierarchies() -> List[int]:
    """Indices of the 4-layer hierarchies without shared data in which some layer has two parents of different layer types
    neither of which inherits from the other."""
    out = []
    for hidx, (types, parents) in enumerate(hier(4)):
        if ref.ESD in types:
            continue
        anc = ref.ancestors(parents)
        for i in range(4):
            live = [p_ for p_ in parents[i] if not any(p_ in anc[q] for q in parents[i] if q != p_)]
            if len({types[p_] for p_ in live}) > 1:
                out.append(hidx)
                break
    return out


def plan(quick: bool) -> Tuple[List[Tuple[Any, ...]], Dict[str, Any], int]:
    """-> (units, bounds, number of placement vectors the units must enumerate)"""
    bounds = {"core_layers": 3 if quick else 4, "all_layers": 2 if quick else 3, "cross_layers": 1 if quick else 2,
              "fd_cross_layers": 1 if quick else 2, "stack_layers_all_four_modes": 2, "stack_layers_given_only": 2 if quick else 3,
              "nested_core_layers": 2, "nested_all_layers": 1 if quick else 2}
    units: List[Tuple[Any, ...]] = []
    expect = 0

    def aligned(pset: str, lo: int, hi: int, variant: str = "flat", modes: Any = 2) -> None:
        nonlocal expect
        for n in range(lo, hi + 1):
            full = n <= FULL_LAYERS
            for hidx, h in enumerate(hier(n)):
                units.extend(("aligned", pset, n, hidx, lead, full, variant, modes)
                             for lead in range(len(ref.layer_placements(modes, not full))))
                expect += ref.n_placements(h[0], modes, not full)

    def cross(cset: str, hi: int, lo: int = 1, modes: Any = 2, uniform: bool = False) -> None:
        nonlocal expect
        for n in range(lo, hi + 1):
            for hidx, h in enumerate(hier(n)):
                units.extend(("cross", n, hidx, lead, cset, modes, uniform) for lead in range(len(ref.layer_placements(modes, uniform))))
                expect += ref.n_placements(h[0], modes, uniform) ** 2

    aligned("core", 1, bounds["core_layers"])
    aligned("all", 1, bounds["all_layers"])
    cross("core", bounds["cross_layers"])
    cross("fd", bounds["fd_cross_layers"])
    # two specifications with EQUAL short names in two subsets; a specification whose short name EXTENDS another one:
    # placed independently of their counterparts: 1 layer all placements, 2 layers given values
    bounds["namesake_and_prefix_cross"] = "1 layer: 11 x 11 placements; 2 layers: 5 x 5 per layer (values given)"
    for cset in ("namesake", "prefix"):
        cross(cset, 1)
        cross(cset, 2, 2, (ref.M_GIVEN,))
    # PROT-STACK-SNREF alone and together with PROTOCOL-SNREF
    aligned("core", 1, bounds["stack_layers_all_four_modes"], "flat", 4)
    aligned("core", bounds["stack_layers_all_four_modes"] + 1, bounds["stack_layers_given_only"], "flat", (ref.M_GIVEN, ref.M_STACK))
    # specifications of the complex parameter with a nested COMPLEX-COMPARAM (first / later)
    for variant in ref.VARIANTS:
        if variant != "flat":
            aligned("core", 1, bounds["nested_core_layers"], variant)
            aligned("all", 1, bounds["nested_all_layers"], variant)
        for t in ref.TYPES:
            if t != ref.ESD:
                units.append(("subsets", t, variant))
                expect += 3 * 2 ** len(ref.VARIANTS[variant]) * 2
    bounds["situations"] = {"layer_types": list(SITUATION_LAYERS), "table": ["absent", "flat", "flat with all values 0", "can-only", "doip-only"],
                            "frame_size_parameter": list(FRAME_SITUATIONS), "baud_rate_parameter": list(SIMPLE_SITUATIONS),
                            "other_simple_parameters": list(SIMPLE_SITUATIONS), "malformed_number": MALFORMED_NUMBER}
    mixed = mixed_priority_hierarchies()
    bounds["mixed_priority_4_layer_hierarchies"] = {"hierarchies": len(mixed), "kinds_per_layer": ["absent", "generic", "P1"]}
    for hidx in mixed:
        units.append(("mixed4", hidx))
        expect += len(MIXED4_KINDS) ** 4
    bounds["big_values"] = [str(v) for v in ref.BIG_VALUES]
    for t in SITUATION_LAYERS:
        units.append(("big", t))
        expect += 3 * 4
    for t in SITUATION_LAYERS:
        for variant, tables in (("flat", (True,)), ("flat", (False,)), ("flat", ("zero",)), ("can-only", (True,)), ("doip-only", (True,))):
            units.append(("situations", t, variant, tables))
            expect += 3 * len(FRAME_SITUATIONS) * len(SIMPLE_SITUATIONS) ** 2
    # re-resolution after edits (one container per layer, both container orders)
    bounds["refresh_layers_given_and_omitted"] = 2
    bounds["refresh_layers_given_only"] = 3
    bounds["refresh_three_layer_hierarchies"] = "without shared-data layers; " + ("children's containers first only" if quick else "both container orders")
    for n in range(1, 4):
        for hidx, h in enumerate(hier(n)):
            if n == 3 and ref.ESD in h[0]:
                continue
            modes: Any = 2 if n <= 2 else (ref.M_GIVEN,)
            units.append(("refresh", n, hidx, modes, (True,) if (n == 3 and quick) else (False, True)))
            bounds["refresh_vectors"] = bounds.get("refresh_vectors", 0) + ref.n_placements(h[0], modes)
    # sequences of two different configurations in one process
    bounds["sequence_pairs"] = "all ordered pairs of the 11 one-layer PROTOCOL configurations; all ordered pairs of the 25 " \
                               "PROTOCOL <- BASE-VARIANT configurations with given values"
    for n in (1, 2):
        units.extend(("sequence", n, i) for i in range(len(sequence_configs(n))))
    # the long units first (the pool hands units out in order; a long unit at the end would leave workers idle)
    units.sort(key=lambda x: 0 if x[0] == "refresh" else 1 if x[0] in ("situations", "sequence") else 2)
    return units, bounds, expect


# ---------------------------------------------------------------------------------------------
# run / replay
# ---------------------------------------------------------------------------------------------
def run(ctx: Ctx) -> None:
    import odxtools.exceptions
    old = odxtools.exceptions.strict_mode
    odxtools.exceptions.strict_mode = True
    try:
        units, bounds, expect = plan(ctx.quick)
        hs = {n: hier(n) for n in range(1, bounds["core_layers"] + 1)}
        tags = set()
        for n, hl in hs.items():
            for h in hl:
                tags |= ref.shape_tags(*h)
        ctx.bounds = {
            **bounds,
            "hierarchies_per_layer_count": {str(n): len(hl) for n, hl in hs.items()},
            "placement_vectors_per_layer_count": {str(n): sum(ref.n_placements(h[0], 2, n > FULL_LAYERS) for h in hl) for n, hl in hs.items()},
            "allowed_parent_types": {k: list(v) for k, v in ref.ALLOWED_PARENTS.items()},
            "placements_per_layer": [ref.KIND_NAME[k] for k in ref.KINDS],
            "instance_modes": ["value / all sub-values given", "value omitted / one sub-value omitted (rotating index)",
                               "stack passes: each of the two additionally with a PROT-STACK-SNREF (alone on generic instances, "
                               "together with PROTOCOL-SNREF on protocol-specific ones): 29 placements per layer"],
            "complex_specifications": {k: [n if isinstance(d, str) else {n: [x for x, _ in d]} for n, d in v] for k, v in ref.VARIANTS.items()},
            "can_fd": "given CP_CANFDTxMaxDataLength values alternate between 'CANFD TX_DL=n' and 'CAN TX_DL=n' with layer and "
                      "qualifier (default: CANFD); uses_can / uses_can_fd / get_can_fd_baudrate are judged per protocol query",
            "document_orders": "hierarchies of <= 3 layers: generic before protocol-specific and the reverse for every vector with a "
                               "generic+P1 pair, PARENT-REFs as listed and reversed if a layer has several parents; 4 layers: generic "
                               "first, PARENT-REFs as listed, and the two instances of a generic+P1 pair are both given or both omitted "
                               "(9 instead of 11 placements per layer)",
            "parameters": {"core": list(ref.CORE), "all": list(ref.BASE), "namesake": list(ref.NAMESAKE_SET), "prefix": list(ref.PREFIX_SET)},
            "queries_per_layer": "comparam_refs; get_comparam(name, protocol) for name in parameters + 1 unknown, protocol in "
                                 "{None, 'P1', 'P2', Protocol P1, Protocol P2}; get_value / get_subvalue(all subs + 1 unknown) of every "
                                 "entry; every typed accessor x protocol in {None, P1, P2}",
            "batch": BATCH,
        }
        ctx.rule = ("every (hierarchy, placement vector, document order) within the bound is one evaluation; non-trivial = distinct "
                    "(hierarchy, layer, resolved view) triples with a non-empty view")
        ctx.assumptions = [
            "strict mode; databases are loaded from XML through Database.add_odx_file + refresh",
            "an omitted value is an EMPTY <SIMPLE-VALUE/> (the schema requires the element; odxtools' own writer emits it for a None "
            "sub-value); a COMPARAM-REF without any value element is outside the envelope (loader rejects it)",
            "PROTOCOL-SNREF is a name qualifier: P1 / P2 always name an existing PROTOCOL layer of the database (added unconnected "
            "if the hierarchy has fewer than two protocols) but need not be an ancestor of the layer carrying the COMPARAM-REF",
            "DON'T-CARE: which of two parents OF THE SAME LAYER TYPE wins when neither inherits from the other (two protocols, two "
            "functional groups) -- any of the offered instances is accepted; a parent of a closer layer type (functional group) "
            "decides over one of a farther type (protocol), also for what it merely passes on from its own parents",
            "DON'T-CARE: get_comparam(name, P) when the generic instance is defined in a strictly closer layer than the P-specific one "
            "(either is accepted); get_comparam(name, None) with several instances of that name (any of them is accepted)",
            "get_max_can_payload_size(): the number after 'TX_DL' '=' (blanks allowed) of the effective value; the documented "
            "conventions are demanded too: 8 if the value has no such number, 8 without the parameter on a CAN bus (a request id "
            "resolves for the protocol), None without the parameter on another bus (judged where the three gate parameters are part "
            "of the configuration)",
            "a simple value without numeric content ('12ab') for an integer / time accessor: a number MUST NOT be returned; None or "
            "any exception is accepted (the property does not say how invalid data is refused)",
            "strict mode only: a COMPLEX-VALUE given for a simple parameter (value 'not a string') is rejected by get_value() there, so "
            "the `not isinstance(val, str)` branches of the accessors are unreachable; `if result is None` after get_value() is dead code "
            "(get_value() never returns None, PHYSICAL-DEFAULT-VALUE is mandatory for the loader)",
            "CAN-FD gate: a protocol uses CAN iff CP_UniqueRespIdTable resolves for it, CAN-FD iff additionally "
            "CP_CANFDTxMaxDataLength resolves for it and its effective value contains CANFD; get_can_fd_baudrate(protocol) is the "
            "number of CP_CANFDBaudrate resolved for that protocol if CAN-FD is in use, else None",
            "re-resolution phase: the description is loaded with ONE DIAG-LAYER-CONTAINER PER LAYER (cross-container PARENT-REFs with "
            "DOCREF), once with the parents' containers added first and once with the children's first; edits are made on the raw "
            "layer data (comparam_refs list replaced, new instances from ComparamInstance.from_et; parent_refs list replaced), then "
            "Database.refresh(); edits are undone before the next one, so every refresh also has to forget the previous edit",
            "every unit runs in a forked child of a pristine worker; what a unit sees is reported only after the smallest cases of the "
            "key were re-executed in a fresh process (pristine master fork): with a case that reproduces alone, else with the whole "
            "unit as the case (key suffix " + UNIT_SUFFIX + ")",
            "sequence phase: the first database is loaded and queried, then the second one is loaded in the same process (a child "
            "forked for the pair); the second one is judged against the reference and against its answers in a process of its own",
            "lookups and accessors are judged on the view / instance the real code produced (the view itself is judged against the "
            "reference), so one root cause yields one finding key",
            "a parameter is a COMPARAM specification (ODXLINK id), not a short name: namesakes of two subsets are both in the view; "
            "get_comparam(short name, ...) with several namesakes that qualify equally is DON'T-CARE among them; names are compared "
            "for equality (a name that only starts with / is a prefix of the requested one does not match)",
            "PROT-STACK-SNREF is not part of the (parameter, protocol) key: an instance with both qualifiers is the protocol-specific "
            "instance; two instances of one layer never differ in the PROT-STACK-SNREF only",
            "the nested sub-parameter itself is not read through get_subvalue (it has no string value); only its simple siblings are",
            "COMPLEX-PHYSICAL-DEFAULT-VALUE and ALLOW-MULTIPLE-VALUES lists are not generated",
        ]
        # every unit runs in a forked child of its pristine worker: state the library shares between objects / calls cannot leak
        # from one unit into the next (and a finding is recorded only with a case that reproduces in a fresh process)
        pmap(ctx, unit, units, isolate=True)
        verify_raw_findings(ctx)
        c = ctx.counts
        ctx.sample(case_of((ref.PROT, ref.BV), ((), (0,)), ref.make_instances([((None, 0),), (("P1", 1),)], ref.CORE), ref.CORE))
        kinds = ctx.sets.get("placement_kinds", set())
        ctx.guard("all 29 per-layer placements (kind x given/omitted x with/without PROT-STACK-SNREF) were used",
                  len(kinds) == len(ref.layer_placements(4)))
        ctx.guard("instances with both PROTOCOL-SNREF and PROT-STACK-SNREF were loaded and seen in views",
                  c.get("view_entries_with_both_qualifiers", 0) > 0 and
                  c.get("view_entries_with_prot_stack_qualifier", 0) > c.get("view_entries_with_both_qualifiers", 0))
        ctx.guard("protocol queries answered by CAN-FD and by classic-CAN frame-size definitions both occurred",
                  c.get("can_fd_gate_fd", 0) > 0 and c.get("can_fd_gate_classic", 0) > 0)
        ctx.guard("sub-values were read through specifications with a nested COMPLEX-COMPARAM",
                  c.get("subvalue_reads_on_nested_specification", 0) > 0)
        ctx.guard("chains >= 3, diamonds, equal-priority and unrelated parents, shared-data parents all occur",
                  {"chain>=3", "diamond", "equal-priority-parents", "unrelated-mixed-parents", "shared-data-parent"} <= tags)
        ctx.guard("placement vectors enumerated == declared bound",
                  c.get("placement_vectors", 0) == expect)
        ctx.guard("views with inherited entries and views overriding an ancestor's instance were seen",
                  c.get("views_with_inherited_entries", 0) > 0 and c.get("views_with_overridden_ancestor_instances", 0) > 0)
        ctx.guard("both MUST and DON'T-CARE lookups occurred", c.get("lookups_dontcare", 0) > 0 and c.get("lookups", 0) > c.get("lookups_dontcare", 0))
        ctx.guard("typed accessors were compared with numbers", c.get("accessor_calls", 0) > 1000)
        ctx.guard("4-layer hierarchies with parents of different priority and very large integers were evaluated",
                  c.get("vectors_mixed_priority_4_layers", 0) > 0 and c.get("big_value_configurations", 0) == 24)
        ctx.guard("sequence phase: all ordered pairs were run and compared with fresh-process answers",
                  c.get("sequence_pairs", 0) == 11 * 10 + 25 * 24 and c.get("sequence_differential_comparisons", 0) > 0)
        ctx.guard("accessors met absent / default-only / explicit / malformed parameters; frame size asked without the parameter on "
                  "a CAN bus and on a bus that is not CAN; malformed numbers were refused and the documented fallback was seen",
                  len(ctx.sets.get("situations", ())) == 5 * len(FRAME_SITUATIONS) * len(SIMPLE_SITUATIONS) ** 2
                  and c.get("max_payload_without_parameter_can", 0) > 0 and c.get("max_payload_without_parameter_not_can", 0) > 0
                  and c.get("accessor_refused_malformed_value", 0) > 0 and c.get("accessor_documented_fallback_for_malformed_value", 0) > 0)
        ctx.guard("re-resolution: every edit kind was applied, refreshed databases were compared with fresh loads, all vectors done",
                  ctx.sets.get("refresh_edit_kinds", set()) == {"remove-instances", "replace-instances", "add-instances", "remove-parent-ref", "exchange-subset"}
                  and c.get("refresh_differential_comparisons", 0) > 1000 and c.get("refresh_vectors", 0) == bounds["refresh_vectors"])
        ctx.guard("every subset of omitted sub-values was generated for every specification variant",
                  len(ctx.sets.get("omitted_subvalue_sets", ())) == sum(2 ** len(v) for v in ref.VARIANTS.values()))
    finally:
        odxtools.exceptions.strict_mode = old


def replay(case: Any) -> List[Tuple[str, str]]:
    import odxtools.exceptions
    old = odxtools.exceptions.strict_mode
    odxtools.exceptions.strict_mode = True
    try:
        if case.get("refresh") is not None:
            return refresh_problems(case, bool(case["refresh"]["children_first"]), None)
        if case.get("unit") is not None:
            p_ = unit(tuple(case["unit"]))
            return sorted({(k.split("|", 2)[1] + UNIT_SUFFIX, v[2]) for k, v in p_.viol.items() if k.startswith(RAW)})
        if case.get("sequence") is not None:
            return sequence_problems(case["sequence"][0], case["sequence"][1], None)
        try:
            db = ec.load_batch([case])
        except Exception as e:  # noqa: BLE001
            return [(f"C15/load/raises-{type(e).__name__}", f"loading the database: {type(e).__name__}: {e}")]
        return check_hierarchy(db, "h0_", case["types"], [tuple(p) for p in case["parents"]], case["local"], case["params"],
                               None, case.get("variant", "flat"), None, int(case.get("subset_rev", 0)))
    finally:
        odxtools.exceptions.strict_mode = old
